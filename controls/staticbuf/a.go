// Package staticbuf: positive control - returns a slice of package-level storage.
package staticbuf

var order = [4]byte{1, 2, 3, 4}

// Order returns the order.
func Order() []byte { return order[:] }
