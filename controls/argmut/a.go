// Package argmut: positive control - an operation that negates its argument in place.
package argmut

// E is an element.
type E struct{ x, y int64 }

func (e *E) neg() *E { e.y = -e.y; return e }

// Sub subtracts o from e.
func (e *E) Sub(o *E) *E {
	q := o.neg()
	e.x += q.x
	e.y += q.y
	return e
}
