// Package lazyglobal: positive control - lazily initialised package-level cache.
package lazyglobal

// T is a value.
type T struct{ v [4]uint64 }

var cache *T

// Base returns the cached base.
func Base() *T {
	if cache == nil {
		cache = &T{v: [4]uint64{1, 2, 3, 4}}
	}
	out := *cache
	return &out
}
