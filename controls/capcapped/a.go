// Package capcapped: negative control - capacity-capped slice forces append to reallocate.
package capcapped

// Tag returns dst with a length suffix without touching dst's backing array.
func Tag(dst []byte) []byte {
	return append(dst[:len(dst):len(dst)], byte(len(dst)))
}
