module controls

go 1.22.0
