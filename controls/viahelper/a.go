// Package viahelper: positive control - write through a pointer wrapped in a struct, two calls deep.
package viahelper

type wrap struct{ p *[4]uint64 }

func (w *wrap) set(v uint64) { w.p[0] = v }

func inner(out *[4]uint64, in [4]uint64) {
	w := wrap{out}
	w.set(in[0])
}

// S is a scalar.
type S struct{ s [4]uint64 }

// Peek is meant to read t only.
func (s *S) Peek(t *S) uint64 {
	inner(&t.s, s.s)
	return t.s[0]
}
