// Package globalhash: positive control - one hash object shared by all calls.
package globalhash

import (
	"crypto/sha256"
	"hash"
)

var h hash.Hash = sha256.New()

// Sum hashes msg.
func Sum(msg []byte) []byte {
	h.Reset()
	h.Write(msg)
	return h.Sum(nil)
}
