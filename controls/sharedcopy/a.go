// Package sharedcopy: positive control - Copy that shares storage with its source.
package sharedcopy

// E is an element.
type E struct{ x [4]uint64 }

// Copy returns a copy of e.
func (e *E) Copy() *E { return e }

// New returns a new element.
func New() *E { return &E{} }
