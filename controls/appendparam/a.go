// Package appendparam: positive control - appends into the caller's slice (through slices.Grow, like the pinned vetDSTXMD).
package appendparam

import "slices"

func suffix(dst []byte) []byte {
	dst = slices.Grow(dst, 1)
	return append(dst, byte(len(dst)))
}

// Tag returns dst with a length suffix.
func Tag(msg, dst []byte) []byte {
	_ = msg
	return suffix(dst)
}
