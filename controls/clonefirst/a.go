// Package clonefirst: negative control - new buffer.
package clonefirst

// Tag returns dst with a length suffix in a new buffer.
func Tag(dst []byte) []byte {
	out := make([]byte, 0, len(dst)+1)
	out = append(out, dst...)
	return append(out, byte(len(dst)))
}
