// Package retainkey: positive control for retention / global write, negative for argument writes -
// memoises on the caller's slice (kept as key in package-level state) but never writes through it.
package retainkey

import "bytes"

var memo struct {
	key, val []byte
}

func compute(b []byte) []byte {
	out := make([]byte, 1)
	for _, x := range b {
		out[0] ^= x
	}
	return out
}

// Tag returns a digest of dst, memoised.
func Tag(dst []byte) []byte {
	if !bytes.Equal(memo.key, dst) {
		memo.key = dst
		memo.val = compute(dst)
	}
	v := memo.val
	out := make([]byte, 0, len(v)+1)
	out = append(out, v...)
	return append(out, byte(len(v)))
}
