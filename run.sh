#!/bin/sh
# ./run.sh <property id> <quick|thorough>
# Builds svcheck if needed and analyses /repo's current working tree.
set -u
cd "$(dirname "$0")"
export GOFLAGS=-mod=mod GOPROXY=off GOSUMDB=off GOTOOLCHAIN=local GOWORK=off
unset GOOS GOARCH 2>/dev/null || true
if [ ! -x bin/svcheck ] || [ -n "$(find svcheck -newer bin/svcheck -name '*.go' -print -quit 2>/dev/null)" ]; then
  (cd svcheck && go build -o ../bin/svcheck .) || { echo "svcheck build failed"; exit 2; }
fi
exec ./bin/svcheck -prop "$1" -tier "${2:-quick}" -repo "${REPO:-/repo}" -verif "$(pwd)"
