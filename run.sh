#!/bin/sh
# ./run.sh <property id> <quick|thorough>
# Builds svcheck if needed and analyses /repo's current working tree.
# thorough = quick's analysis at its deeper settings + the self-validation catalogue for that property
# (breaking and behaviour-preserving variants of /repo in scratch copies under /tmp, removed afterwards).
set -u
cd "$(dirname "$0")"
export GOFLAGS=-mod=mod GOPROXY=off GOSUMDB=off GOTOOLCHAIN=local GOWORK=off
unset GOOS GOARCH 2>/dev/null || true
if [ ! -x bin/svcheck ] || [ -n "$(find svcheck -newer bin/svcheck -name '*.go' -print -quit 2>/dev/null)" ]; then
  (cd svcheck && go build -o ../bin/svcheck .) || { echo "svcheck build failed"; exit 2; }
fi
tier="${2:-quick}"
if [ "$tier" = "thorough" ]; then
  REPO="${REPO:-/repo}" python3 tools/selfval.py --prop "$1" --jobs 8 | tail -3
fi
exec ./bin/svcheck -prop "$1" -tier "$tier" -repo "${REPO:-/repo}" -verif "$(pwd)"
