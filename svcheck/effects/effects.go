// Package effects is engine E2: interprocedural may-write / may-alias /
// freshness summaries over go/ssa.
//
// Abstract objects of a function: P<i> (everything reachable from parameter
// i, free variables are numbered after the parameters), G:<global>, and one
// local object per allocation site / fresh call result.  The analysis is
// flow-insensitive inside a function and iterates the module to a fixpoint,
// so it does not depend on statement order, naming or helper structure.
package effects

import (
	"fmt"
	"go/constant"
	"go/token"
	"go/types"
	"os"
	"sort"
	"strings"

	"golang.org/x/tools/go/ssa"

	"svcheck/load"
)

// Witness explains one effect: the instruction and, if the effect comes from
// a callee, the callee's own witness.
type Witness struct {
	Fn   *ssa.Function
	Pos  token.Pos
	What string
	Via  *Witness
	// Append: the write can only reach the spare capacity behind the operand's length (an append)
	Append bool
}

func (w *Witness) Chain(p *load.Prog) string {
	var parts []string
	for x := w; x != nil; x = x.Via {
		parts = append(parts, fmt.Sprintf("%s (%s: %s)", x.Fn.Name(), p.Pos(x.Pos), x.What))
	}
	return strings.Join(parts, " -> ")
}

// Leaf returns the innermost witness (the instruction that performs the effect).
func (w *Witness) Leaf() *Witness {
	x := w
	for x.Via != nil {
		x = x.Via
	}
	return x
}

type set map[string]bool

func (s set) addAll(o set) bool {
	ch := false
	for k := range o {
		if !s[k] {
			s[k] = true
			ch = true
		}
	}
	return ch
}
func (s set) keys() []string {
	var k []string
	for x := range s {
		k = append(k, x)
	}
	sort.Strings(k)
	return k
}

// Summary of one function, in terms of its own parameters.
type Summary struct {
	Fn *ssa.Function
	Wr map[string]*Witness // "P<i>" or "G:<name>" → how
	// OtherWr: keys of Wr with at least one write that is not an append into spare capacity
	OtherWr map[string]bool
	Ret     []set          // per result: "P<i>", "G:<name>", "Fresh"
	Esc     map[string]set // "P<i>"/"G:.." → objects whose pointers may be stored into it
	// Unmodelled external callees with pointer-like operands (fail closed).
	Unmodelled  map[string]*Witness
	GlobalsRead set
	// calls through function-typed parameters (resolved at this function's call sites)
	ParamCalls []ParamCall
}

// ParamCall: the function calls its parameter Param (free variables follow the parameters) with operands whose
// regions, in terms of the function's own parameters, are Args.
type ParamCall struct {
	Param int
	Args  []set
	Pos   token.Pos
}

func (s *Summary) addParamCall(pc ParamCall, changed *bool) {
	for i := range s.ParamCalls {
		q := &s.ParamCalls[i]
		if q.Param == pc.Param && q.Pos == pc.Pos {
			for j := range pc.Args {
				if j < len(q.Args) {
					if q.Args[j].addAll(pc.Args[j]) {
						*changed = true
					}
				}
			}
			return
		}
	}
	cp := ParamCall{Param: pc.Param, Pos: pc.Pos}
	for _, a := range pc.Args {
		n := set{}
		n.addAll(a)
		cp.Args = append(cp.Args, n)
	}
	s.ParamCalls = append(s.ParamCalls, cp)
	*changed = true
}

type Analysis struct {
	P    *load.Prog
	Sums map[*ssa.Function]*Summary
}

func pointerLike(t types.Type) bool {
	switch u := t.Underlying().(type) {
	case *types.Pointer, *types.Slice, *types.Map, *types.Chan, *types.Signature, *types.Interface:
		return true
	case *types.Struct:
		for i := 0; i < u.NumFields(); i++ {
			if pointerLike(u.Field(i).Type()) {
				return true
			}
		}
	case *types.Array:
		if u.Len() == 0 {
			return false
		}
		return pointerLike(u.Elem())
	case *types.Tuple:
		for i := 0; i < u.Len(); i++ {
			if pointerLike(u.At(i).Type()) {
				return true
			}
		}
	}
	return false
}

func isErrorType(t types.Type) bool {
	n, ok := t.(*types.Named)
	return ok && n.Obj().Pkg() == nil && n.Obj().Name() == "error"
}

// Run analyses every module function to a fixpoint.
func Run(p *load.Prog) *Analysis {
	a := &Analysis{P: p, Sums: map[*ssa.Function]*Summary{}}
	fns := p.ModFuncs()
	for _, f := range fns {
		nres := f.Signature.Results().Len()
		s := &Summary{Fn: f, OtherWr: map[string]bool{}, Wr: map[string]*Witness{}, Esc: map[string]set{}, Unmodelled: map[string]*Witness{}, GlobalsRead: set{}}
		for i := 0; i < nres; i++ {
			s.Ret = append(s.Ret, set{})
		}
		a.Sums[f] = s
	}
	for iter := 0; iter < 50; iter++ {
		changed := false
		for _, f := range fns {
			if a.analyse(f) {
				changed = true
			}
		}
		if !changed {
			break
		}
	}
	if dbg := os.Getenv("SVDEBUGEFF"); dbg != "" {
		for _, f := range fns {
			if !strings.Contains(f.String(), dbg) {
				continue
			}
			s := a.Sums[f]
			fmt.Fprintf(os.Stderr, "EFF %s\n", f)
			for k, w := range s.Wr {
				fmt.Fprintf(os.Stderr, "   Wr %s: %s\n", k, w.What)
			}
			for k, e := range s.Esc {
				fmt.Fprintf(os.Stderr, "   Esc %s <- %v\n", k, e)
			}
			for i, r := range s.Ret {
				fmt.Fprintf(os.Stderr, "   Ret %d: %v\n", i, r)
			}
			for _, pc := range s.ParamCalls {
				fmt.Fprintf(os.Stderr, "   ParamCall %d args %v\n", pc.Param, pc.Args)
			}
		}
	}
	return a
}

type fstate struct {
	a        *Analysis
	fn       *ssa.Function
	sum      *Summary
	roots    map[ssa.Value]set
	contents map[string]set
	changed  bool
	nsite    map[ssa.Value]string
	tuples   map[tupleKey]set
	escTo    map[string]set // local allocation site -> parameters into whose memory its address was stored
}

func (st *fstate) site(v ssa.Value, kind string) string {
	if s, ok := st.nsite[v]; ok {
		return s
	}
	s := fmt.Sprintf("%s%d", kind, len(st.nsite))
	st.nsite[v] = s
	return s
}

func globalKey(g *ssa.Global) string { return "G:" + g.Pkg.Pkg.Path() + "." + g.Name() }

func (st *fstate) get(v ssa.Value) set {
	switch x := v.(type) {
	case *ssa.Global:
		return set{globalKey(x): true}
	case *ssa.Const:
		return set{}
	case *ssa.Function, *ssa.Builtin:
		return set{}
	}
	if r, ok := st.roots[v]; ok {
		return r
	}
	r := set{}
	st.roots[v] = r
	return r
}

func (st *fstate) add(v ssa.Value, s set) {
	r := st.get(v)
	if _, isG := v.(*ssa.Global); isG {
		return
	}
	if r.addAll(s) {
		st.changed = true
	}
}

// region = objects reachable from s through stored pointers.
func (st *fstate) region(s set) set {
	out := set{}
	var walk func(k string)
	walk = func(k string) {
		if out[k] {
			return
		}
		out[k] = true
		if strings.HasPrefix(k, "P") {
			return // P<i> stands for everything reachable from the parameter already
		}
		for c := range st.contents[k] {
			walk(c)
		}
	}
	for k := range s {
		walk(k)
	}
	return out
}

func (st *fstate) cont(k string) set {
	c := st.contents[k]
	if c == nil {
		c = set{}
		st.contents[k] = c
	}
	return c
}

// write records a write to every object of the region of s.
func (st *fstate) write(s set, deep bool, w *Witness) {
	objs := s
	if deep {
		objs = st.region(s)
	}
	for k := range objs {
		if strings.HasPrefix(k, "P") || strings.HasPrefix(k, "G:") {
			if _, ok := st.sum.Wr[k]; !ok {
				st.sum.Wr[k] = w
				st.changed = true
			}
			if !w.Append && !st.sum.OtherWr[k] {
				st.sum.OtherWr[k] = true
				st.changed = true
			}
		}
	}
}

// store records that pointers to the objects of val may be stored in the objects of addr.
func (st *fstate) store(addr, val set) {
	for k := range addr {
		if strings.HasPrefix(k, "P") || strings.HasPrefix(k, "G:") {
			e := st.sum.Esc[k]
			if e == nil {
				e = set{}
				st.sum.Esc[k] = e
			}
			for v := range val {
				if v == k {
					continue
				}
				vv := v
				if !strings.HasPrefix(v, "P") && !strings.HasPrefix(v, "G:") {
					vv = "Fresh"
					if strings.HasPrefix(k, "P") {
						if st.escTo == nil {
							st.escTo = map[string]set{}
						}
						if st.escTo[v] == nil {
							st.escTo[v] = set{}
						}
						st.escTo[v][k] = true
					}
				}
				if !e[vv] {
					e[vv] = true
					st.changed = true
				}
			}
			if strings.HasPrefix(k, "P") {
				continue
			}
		}
		if st.cont(k).addAll(val) {
			st.changed = true
		}
	}
}

func (st *fstate) load(addr set) set {
	out := set{}
	for k := range addr {
		if strings.HasPrefix(k, "P") {
			out[k] = true // anything reachable from a parameter is labelled with it
			continue
		}
		if strings.HasPrefix(k, "G:") {
			// what a package-level variable holds was stored by another function (an initialiser): this function's
			// own contents map does not know it, so what is loaded is labelled with the variable itself
			out[k] = true
		}
		out.addAll(st.contents[k])
	}
	return out
}

func sameLen(a, b ssa.Value) bool {
	if a == nil || b == nil {
		return false
	}
	if a == b {
		return true
	}
	ca, ok1 := a.(*ssa.Const)
	cb, ok2 := b.(*ssa.Const)
	if ok1 && ok2 && ca.Value != nil && cb.Value != nil {
		return constant.Compare(ca.Value, token.EQL, cb.Value)
	}
	la, ok1 := a.(*ssa.Call)
	lb, ok2 := b.(*ssa.Call)
	if ok1 && ok2 {
		ba, ok3 := la.Call.Value.(*ssa.Builtin)
		bb, ok4 := lb.Call.Value.(*ssa.Builtin)
		if ok3 && ok4 && ba.Name() == "len" && bb.Name() == "len" && la.Call.Args[0] == lb.Call.Args[0] {
			return true
		}
	}
	return false
}

// capCapped reports whether v is a slice whose capacity equals its length by
// construction (a 3-index slice x[l:h:h]): appending to it must reallocate
// and never writes x's backing array.
func capCapped(v ssa.Value) bool {
	s, ok := v.(*ssa.Slice)
	return ok && s.Max != nil && sameLen(s.High, s.Max)
}

func (a *Analysis) analyse(f *ssa.Function) bool {
	sum := a.Sums[f]
	st := &fstate{a: a, fn: f, sum: sum, roots: map[ssa.Value]set{}, contents: map[string]set{}, nsite: map[ssa.Value]string{}, tuples: map[tupleKey]set{}}
	for i, p := range f.Params {
		if pointerLike(p.Type()) {
			st.roots[p] = set{fmt.Sprintf("P%d", i): true}
		}
	}
	for i, fv := range f.FreeVars {
		st.roots[fv] = set{fmt.Sprintf("P%d", len(f.Params)+i): true}
	}
	before := len(sum.Wr) + len(sum.Unmodelled) + len(sum.GlobalsRead)
	for _, r := range sum.Ret {
		before += len(r)
	}
	for _, e := range sum.Esc {
		before += len(e)
	}
	before += paramCallSize(sum)
	for round := 0; round < 100; round++ {
		st.changed = false
		for _, b := range f.Blocks {
			for _, in := range b.Instrs {
				st.instr(in)
			}
		}
		if !st.changed {
			break
		}
	}
	after := len(sum.Wr) + len(sum.Unmodelled) + len(sum.GlobalsRead)
	for _, r := range sum.Ret {
		after += len(r)
	}
	for _, e := range sum.Esc {
		after += len(e)
	}
	after += paramCallSize(sum)
	return after != before
}

func paramCallSize(sum *Summary) int {
	n := 0
	for _, pc := range sum.ParamCalls {
		n++
		for _, a := range pc.Args {
			n += len(a)
		}
	}
	return n
}

func (st *fstate) wit(in ssa.Instruction, what string) *Witness {
	return &Witness{Fn: st.fn, Pos: in.Pos(), What: what}
}

func (st *fstate) instr(in ssa.Instruction) {
	switch x := in.(type) {
	case *ssa.Alloc:
		st.add(x, set{st.site(x, "L"): true})
	case *ssa.MakeSlice:
		st.add(x, set{st.site(x, "L"): true})
	case *ssa.MakeMap:
		st.add(x, set{st.site(x, "L"): true})
	case *ssa.MakeChan:
		st.add(x, set{st.site(x, "L"): true})
	case *ssa.FieldAddr:
		st.add(x, st.get(x.X))
	case *ssa.IndexAddr:
		st.add(x, st.get(x.X))
	case *ssa.Slice:
		if _, isStr := x.X.Type().Underlying().(*types.Basic); isStr {
			return
		}
		st.add(x, st.get(x.X))
	case *ssa.ChangeType:
		st.add(x, st.get(x.X))
	case *ssa.Convert:
		// []byte(string) and string([]byte) allocate
		_, fromStr := x.X.Type().Underlying().(*types.Basic)
		_, toSlice := x.Type().Underlying().(*types.Slice)
		if fromStr && toSlice {
			st.add(x, set{st.site(x, "L"): true})
		} else if pointerLike(x.Type()) {
			st.add(x, st.get(x.X))
		}
	case *ssa.SliceToArrayPointer:
		st.add(x, st.get(x.X))
	case *ssa.ChangeInterface:
		st.add(x, st.get(x.X))
	case *ssa.MakeInterface:
		st.add(x, st.get(x.X))
	case *ssa.TypeAssert:
		st.add(x, st.get(x.X))
		if x.CommaOk {
			k := tupleKey{x, 0}
			if st.tuples[k] == nil {
				st.tuples[k] = set{}
			}
			if st.tuples[k].addAll(st.get(x.X)) {
				st.changed = true
			}
		}
	case *ssa.Field:
		st.add(x, st.get(x.X))
	case *ssa.Index:
		st.add(x, st.get(x.X))
	case *ssa.Lookup:
		st.add(x, st.load(st.get(x.X)))
	case *ssa.Phi:
		for _, e := range x.Edges {
			st.add(x, st.get(e))
		}
	case *ssa.Select, *ssa.Next, *ssa.Range:
		for _, op := range in.Operands(nil) {
			if *op != nil {
				if v, ok := in.(ssa.Value); ok {
					st.add(v, st.get(*op))
				}
			}
		}
	case *ssa.Extract:
		// roots of a tuple are kept per call in st.roots[tuple#k] via a synthetic key
		st.add(x, st.tuple(x.Tuple, x.Index))
	case *ssa.UnOp:
		if x.Op == token.MUL {
			if g, ok := x.X.(*ssa.Global); ok {
				if !st.sum.GlobalsRead[globalKey(g)] {
					st.sum.GlobalsRead[globalKey(g)] = true
					st.changed = true
				}
			}
			if pointerLike(x.Type()) {
				if g, ok := x.X.(*ssa.Global); ok {
					// the value stored in a global variable: label it with the global
					st.add(x, set{globalKey(g): true})
				} else {
					st.add(x, st.load(st.get(x.X)))
				}
			}
		} else if x.Op == token.ARROW {
			st.add(x, st.load(st.get(x.X)))
		}
	case *ssa.Store:
		st.write(st.get(x.Addr), false, st.wit(in, "store"))
		if pointerLike(x.Val.Type()) {
			st.store(st.get(x.Addr), st.get(x.Val))
		}
	case *ssa.MapUpdate:
		st.write(st.get(x.Map), false, st.wit(in, "map update"))
		st.store(st.get(x.Map), st.get(x.Value))
	case *ssa.Send:
		st.write(st.get(x.Chan), false, st.wit(in, "channel send"))
		st.store(st.get(x.Chan), st.get(x.X))
	case *ssa.MakeClosure:
		s := set{}
		for _, b := range x.Bindings {
			s.addAll(st.get(b))
		}
		st.add(x, s)
	case *ssa.Return:
		for i, r := range x.Results {
			if i >= len(st.sum.Ret) || !pointerLike(r.Type()) {
				continue
			}
			for k := range st.region(st.get(r)) {
				kk := k
				if !strings.HasPrefix(k, "P") && !strings.HasPrefix(k, "G:") {
					kk = "Fresh"
					// an object allocated here whose address was also stored into package-level state (an object
					// handed to a pool, a memo): the result shares memory with that state
					// likewise for an object whose address was also stored into memory reachable from a parameter (a memo
					// kept in the receiver): the result shares memory with what the parameter now holds
					for pk := range st.escTo[k] {
						if !st.sum.Ret[i][pk] {
							st.sum.Ret[i][pk] = true
							st.changed = true
						}
					}
					for g := range st.contents {
						if strings.HasPrefix(g, "G:") && st.region(set{g: true})[k] {
							if !st.sum.Ret[i][g] {
								st.sum.Ret[i][g] = true
								st.changed = true
							}
						}
					}
				}
				if !st.sum.Ret[i][kk] {
					st.sum.Ret[i][kk] = true
					st.changed = true
				}
			}
		}
	case ssa.CallInstruction:
		st.call(x)
	}
}

// tuple returns the roots of component idx of a tuple-valued instruction.
func (st *fstate) tuple(t ssa.Value, idx int) set {
	key := tupleKey{t, idx}
	if r, ok := st.tuples[key]; ok {
		return r
	}
	return st.get(t)
}

type tupleKey struct {
	v   ssa.Value
	idx int
}
