package effects

import (
	"fmt"
	"go/types"
	"strings"

	"golang.org/x/tools/go/ssa"
)

// model of an external (non-module) callee.
type model struct {
	writes   []int // argument indices (receiver = 0 for methods) whose pointee is written
	retAlias []int // arguments the pointer-like results may alias
	retFresh bool
	stores   [][2]int // {a, b}: what argument b points to is stored into the pointee of argument a (it escapes there)
}

var pure = &model{}
var fresh = &model{retFresh: true}

// externalModel returns the effect model of a statically resolved callee
// outside the module, or nil if there is none (fail closed).
func externalModel(fn *ssa.Function) *model {
	pkg := ""
	if fn.Pkg != nil {
		pkg = fn.Pkg.Pkg.Path()
	} else if o := fn.Origin(); o != nil && o.Pkg != nil {
		pkg = o.Pkg.Pkg.Path()
	}
	name := fn.Name()
	if o := fn.Origin(); o != nil {
		name = o.Name()
	}
	recv := ""
	if r := fn.Signature.Recv(); r != nil {
		t := r.Type()
		if p, ok := t.(*types.Pointer); ok {
			t = p.Elem()
		}
		if n, ok := t.(*types.Named); ok {
			recv = n.Obj().Name()
		}
	}
	switch pkg {
	case "math/bits", "math", "unicode/utf8", "strconv", "strings":
		if pkg == "strings" || pkg == "strconv" {
			return fresh
		}
		return pure
	case "encoding/binary":
		if strings.HasPrefix(name, "Put") {
			return &model{writes: []int{1}}
		}
		if strings.HasPrefix(name, "Uint") || name == "String" {
			return pure
		}
		if strings.HasPrefix(name, "Append") {
			return &model{writes: []int{1}, retAlias: []int{1}, retFresh: true}
		}
	case "crypto/subtle":
		switch name {
		case "ConstantTimeCopy":
			return &model{writes: []int{1}}
		case "XORBytes":
			return &model{writes: []int{0}}
		case "ConstantTimeSelect", "ConstantTimeCompare", "ConstantTimeEq", "ConstantTimeByteEq", "ConstantTimeLessOrEq":
			return pure
		}
	case "encoding/hex":
		switch name {
		case "EncodeToString", "DecodedLen", "EncodedLen":
			return pure
		case "DecodeString":
			return fresh
		case "Encode", "Decode":
			return &model{writes: []int{0}}
		case "AppendEncode", "AppendDecode":
			return &model{writes: []int{0}, retAlias: []int{0}, retFresh: true}
		}
	case "math/big":
		if recv == "Int" {
			switch name {
			case "Bytes", "String", "Text":
				return fresh
			case "Cmp", "CmpAbs", "Sign", "BitLen", "Bit", "IsInt64", "IsUint64", "Int64", "Uint64", "TrailingZeroBits", "ProbablyPrime":
				return pure
			case "FillBytes":
				return &model{writes: []int{1}, retAlias: []int{1}}
			}
			return &model{writes: []int{0}, retAlias: []int{0}}
		}
		if name == "NewInt" {
			return fresh
		}
	case "crypto":
		switch name {
		case "New":
			return fresh
		case "Size", "Available", "String", "HashFunc":
			return pure
		}
	case "crypto/sha256", "crypto/sha512", "crypto/sha1", "crypto/sha3":
		if strings.HasPrefix(name, "New") {
			return fresh
		}
		if strings.HasPrefix(name, "Sum") && recv == "" {
			return pure
		}
	case "crypto/rand":
		switch name {
		case "Read":
			return &model{writes: []int{0}}
		}
	case "io":
		switch name {
		case "ReadFull", "ReadAtLeast":
			return &model{writes: []int{1}}
		}
	case "errors":
		switch name {
		case "New":
			return fresh
		case "Is", "As", "Unwrap":
			return pure
		}
	case "fmt":
		switch name {
		case "Errorf", "Sprintf", "Sprint", "Sprintln":
			return fresh
		}
	case "sync/atomic":
		switch recv {
		case "Pointer", "Value":
			switch name {
			case "Load":
				return &model{retAlias: []int{0}}
			case "Store":
				return &model{writes: []int{0}, stores: [][2]int{{0, 1}}}
			case "Swap":
				return &model{writes: []int{0}, stores: [][2]int{{0, 1}}, retAlias: []int{0}}
			case "CompareAndSwap":
				return &model{writes: []int{0}, stores: [][2]int{{0, 2}}}
			}
		case "Int32", "Int64", "Uint32", "Uint64", "Uintptr", "Bool":
			if name == "Load" {
				return pure
			}
			return &model{writes: []int{0}}
		}
	case "encoding/json":
		switch name {
		case "Unmarshal":
			return &model{writes: []int{1}}
		case "Marshal", "MarshalIndent":
			return fresh
		case "Valid":
			return pure
		}
	case "slices":
		switch name {
		case "Grow", "Clip":
			return &model{retAlias: []int{0}, retFresh: true}
		case "Clone", "Concat", "Repeat":
			return fresh
		case "Equal", "Index", "Contains", "Compare":
			return pure
		}
	case "bytes":
		switch name {
		case "Clone", "Repeat", "Join", "ToUpper", "ToLower":
			return fresh
		case "Equal", "Compare", "Index", "IndexByte", "Contains", "HasPrefix", "HasSuffix":
			return pure
		}
	}
	return nil
}

// invokeModel models interface method calls on the few interfaces the
// module uses.
func invokeModel(c *ssa.CallCommon) *model {
	recv := c.Value.Type()
	n, _ := recv.(*types.Named)
	iface := ""
	if n != nil && n.Obj().Pkg() != nil {
		iface = n.Obj().Pkg().Path() + "." + n.Obj().Name()
	} else if n != nil {
		iface = n.Obj().Name()
	}
	m := c.Method.Name()
	switch iface {
	case "hash.Hash", "hash.Hash32", "hash.Hash64":
		switch m {
		case "Write": // invoke: Args exclude the receiver; index 0 below means the receiver, i+1 argument i
			return &model{writes: []int{0}}
		case "Reset":
			return &model{writes: []int{0}}
		case "Sum":
			return &model{writes: []int{1}, retAlias: []int{1}, retFresh: true}
		case "Size", "BlockSize":
			return pure
		}
	case "io.Reader":
		if m == "Read" {
			return &model{writes: []int{0, 1}}
		}
	case "io.Writer":
		if m == "Write" {
			return &model{writes: []int{0}}
		}
	case "encoding.BinaryUnmarshaler", "encoding.TextUnmarshaler":
		return &model{writes: []int{0}} // restores the receiver's state from the (read-only) argument
	case "encoding.BinaryMarshaler", "encoding.TextMarshaler":
		return fresh
	case "error":
		return pure
	case "fmt.Stringer":
		return pure
	}
	return nil
}

func (st *fstate) call(c ssa.CallInstruction) {
	cc := c.Common()
	var res ssa.Value // nil for go/defer (Value() returns a typed nil *ssa.Call there)
	if v := c.Value(); v != nil {
		res = v
	}
	in := c.(ssa.Instruction)
	setRes := func(idx int, s set) {
		if res == nil {
			return
		}
		if tup, ok := res.Type().(*types.Tuple); ok {
			if idx < tup.Len() && pointerLike(tup.At(idx).Type()) {
				k := tupleKey{res, idx}
				if st.tuples[k] == nil {
					st.tuples[k] = set{}
				}
				if st.tuples[k].addAll(s) {
					st.changed = true
				}
			}
			return
		}
		if idx == 0 && pointerLike(res.Type()) {
			st.add(res, s)
		}
	}
	nres := 1
	if res != nil {
		if tup, ok := res.Type().(*types.Tuple); ok {
			nres = tup.Len()
		}
	}
	if b, ok := cc.Value.(*ssa.Builtin); ok {
		switch b.Name() {
		case "append":
			s := st.get(cc.Args[0])
			out := set{st.site(res, "F"): true}
			if !capCapped(cc.Args[0]) {
				aw := st.wit(in, "append may write into the spare capacity of its first operand's backing array")
				aw.Append = true
				st.write(s, false, aw)
				out.addAll(s)
			}
			setRes(0, out)
			if len(cc.Args) > 1 {
				if sl, ok := cc.Args[1].Type().Underlying().(*types.Slice); ok && pointerLike(sl.Elem()) {
					st.store(out, st.load(st.get(cc.Args[1])))
				}
			}
		case "copy":
			st.write(st.get(cc.Args[0]), false, st.wit(in, "copy writes its destination"))
			if sl, ok := cc.Args[0].Type().Underlying().(*types.Slice); ok && pointerLike(sl.Elem()) {
				st.store(st.get(cc.Args[0]), st.load(st.get(cc.Args[1])))
			}
		case "clear", "delete":
			st.write(st.get(cc.Args[0]), false, st.wit(in, b.Name()))
		}
		return
	}
	callee := cc.StaticCallee()
	args := cc.Args
	if mc, ok := cc.Value.(*ssa.MakeClosure); ok {
		args = append(append([]ssa.Value{}, args...), mc.Bindings...)
	}
	if callee != nil {
		if sum, ok := st.a.Sums[callee]; ok {
			st.applySummary(in, callee, sum, args, setRes, res)
			return
		}
		// sync.Pool is synchronised internally: Get hands out an object that is not caller memory, Put stores its
		// operand's pointers in the pool (an escape, not an unsynchronised write)
		if callee.Pkg != nil && callee.Pkg.Pkg.Path() == "sync" && callee.Signature.Recv() != nil && strings.HasSuffix(callee.Signature.Recv().Type().String(), "sync.Pool") {
			switch callee.Name() {
			case "Get":
				setRes(0, set{st.site(res, "F"): true})
				return
			case "Put":
				if len(args) >= 2 {
					st.store(st.get(args[0]), st.get(args[1]))
				}
				return
			}
		}
		m := externalModel(callee)
		if m != nil {
			st.applyModel(in, m, args, 0, setRes, nres, res, "call "+callee.String())
			return
		}
		st.unmodelled(in, callee.String(), args, setRes, nres)
		return
	}
	if cc.IsInvoke() {
		m := invokeModel(cc)
		all := append([]ssa.Value{cc.Value}, cc.Args...)
		if m != nil {
			st.applyModel(in, m, all, 0, setRes, nres, res, "invoke "+cc.Method.FullName())
			return
		}
		st.unmodelled(in, "invoke "+cc.Method.FullName(), all, setRes, nres)
		return
	}
	// a call through a closure that a static callee returned (a constructor handing out its operations as closures)
	switch cc.Value.(type) {
	case *ssa.Extract, *ssa.Call:
		if g, binds := resolveFuncValue(cc.Value); g != nil {
			if sum, ok := st.a.Sums[g]; ok {
				st.applySummary(in, g, sum, append(append([]ssa.Value{}, cc.Args...), binds...), setRes, res)
				return
			}
		}
	}
	// a call through a function-typed parameter (or captured variable): deferred to the call sites of this function
	pidx := -1
	switch pv := cc.Value.(type) {
	case *ssa.Parameter:
		for i, q := range st.fn.Params {
			if q == pv {
				pidx = i
			}
		}
	case *ssa.FreeVar:
		for i, q := range st.fn.FreeVars {
			if q == pv {
				pidx = len(st.fn.Params) + i
			}
		}
	}
	if pidx >= 0 {
		pc := ParamCall{Param: pidx, Pos: in.Pos()}
		all := set{}
		for _, a := range cc.Args {
			r := set{}
			if pointerLike(a.Type()) {
				r = st.region(st.get(a))
			}
			pc.Args = append(pc.Args, r)
			all.addAll(r)
		}
		st.sum.addParamCall(pc, &st.changed)
		if v, ok := in.(ssa.Value); ok {
			all[st.site(v, "F")] = true
		}
		for i := 0; i < nres; i++ {
			setRes(i, all)
		}
		return
	}
	// a call through a function value read from a table kept in a package-level variable of the module: any of the
	// functions stored in that variable
	if g := rootGlobal(cc.Value); g != nil {
		if cands := st.a.P.GlobalFuncs()[g]; len(cands) > 0 {
			okAll := true
			for _, c := range cands {
				if st.a.Sums[c] == nil || len(c.FreeVars) > 0 {
					okAll = false
				}
			}
			if okAll {
				for _, c := range cands {
					st.applySummary(in, c, st.a.Sums[c], cc.Args, setRes, res)
				}
				return
			}
		}
	}
	st.unmodelled(in, "dynamic call "+cc.Value.String(), append([]ssa.Value{cc.Value}, cc.Args...), setRes, nres)
}

// rootGlobal: the module package-level variable a value is loaded from (through element and field addresses).
func rootGlobal(v ssa.Value) *ssa.Global {
	for i := 0; i < 8; i++ {
		switch x := v.(type) {
		case *ssa.UnOp:
			v = x.X
		case *ssa.IndexAddr:
			v = x.X
		case *ssa.FieldAddr:
			v = x.X
		case *ssa.Index:
			v = x.X
		case *ssa.Field:
			v = x.X
		case *ssa.ChangeType:
			v = x.X
		case *ssa.Global:
			return x
		default:
			return nil
		}
	}
	return nil
}

func (st *fstate) applyModel(in ssa.Instruction, m *model, args []ssa.Value, _ int, setRes func(int, set), nres int, res ssa.Value, what string) {
	for _, j := range m.writes {
		if j < len(args) {
			st.write(st.get(args[j]), true, st.wit(in, what+" writes its argument"))
		}
	}
	for _, ab := range m.stores {
		if ab[0] < len(args) && ab[1] < len(args) {
			st.store(st.get(args[ab[0]]), st.get(args[ab[1]]))
		}
	}
	out := set{}
	for _, j := range m.retAlias {
		if j < len(args) {
			out.addAll(st.region(st.get(args[j])))
		}
	}
	if (m.retFresh || len(m.retAlias) == 0) && res != nil {
		out[st.site(res, "F")] = true
	}
	for i := 0; i < nres; i++ {
		setRes(i, out)
	}
}

func (st *fstate) unmodelled(in ssa.Instruction, name string, args []ssa.Value, setRes func(int, set), nres int) {
	ptr := false
	all := set{}
	for _, a := range args {
		if pointerLike(a.Type()) {
			ptr = true
			all.addAll(st.region(st.get(a)))
		}
	}
	if !ptr {
		// no pointer-like operand: cannot touch caller memory through its arguments
		if v, ok := in.(ssa.Value); ok && pointerLike(v.Type()) {
			for i := 0; i < nres; i++ {
				setRes(i, set{st.site(v, "F"): true})
			}
		}
		return
	}
	if _, ok := st.sum.Unmodelled[name]; !ok {
		st.sum.Unmodelled[name] = st.wit(in, "unmodelled callee "+name+" with pointer-like operands")
		st.changed = true
	}
	st.write(all, true, st.wit(in, "unmodelled callee "+name+" (assumed to write every operand)"))
	// ... and to keep every operand: anything reachable from one operand may afterwards be reachable from another
	st.store(all, all)
	if v, ok := in.(ssa.Value); ok {
		all[st.site(v, "F")] = true
	}
	for i := 0; i < nres; i++ {
		setRes(i, all)
	}
}

// applySummary applies the summary of a module function to a call with the given operands (parameters first, then
// the bindings of its free variables).
func (st *fstate) applySummary(in ssa.Instruction, callee *ssa.Function, sum *Summary, args []ssa.Value, setRes func(int, set), res ssa.Value) {
	mapObj := func(k string) set {
		if strings.HasPrefix(k, "P") {
			var j int
			fmt.Sscanf(k, "P%d", &j)
			if j < len(args) {
				return st.region(st.get(args[j]))
			}
			return set{}
		}
		if k == "Fresh" {
			return set{st.site(res, "F"): true}
		}
		return set{k: true}
	}
	for k, w := range sum.Wr {
		// a callee's write to its parameter region may reach anything reachable from the argument; a write to
		// a package-level variable is a write to that variable only (what it points to is labelled separately)
		if strings.HasPrefix(k, "P") {
			st.write(mapObj(k), true, &Witness{Fn: st.fn, Pos: in.Pos(), What: "call " + callee.Name(), Via: w, Append: !sum.OtherWr[k]})
		} else {
			st.write(set{k: true}, false, &Witness{Fn: st.fn, Pos: in.Pos(), What: "call " + callee.Name(), Via: w})
		}
	}
	for i, r := range sum.Ret {
		s := set{}
		for k := range r {
			s.addAll(mapObj(k))
		}
		setRes(i, s)
	}
	for k, e := range sum.Esc {
		val := set{}
		for v := range e {
			if v == "Fresh" {
				val[st.site(res, "E")] = true
				continue
			}
			val.addAll(mapObj(v))
		}
		st.store(mapObj(k), val)
	}
	for g := range sum.GlobalsRead {
		if !st.sum.GlobalsRead[g] {
			st.sum.GlobalsRead[g] = true
			st.changed = true
		}
	}
	for k, w := range sum.Unmodelled {
		if _, ok := st.sum.Unmodelled[k]; !ok {
			st.sum.Unmodelled[k] = &Witness{Fn: st.fn, Pos: in.Pos(), What: "call " + callee.Name(), Via: w}
			st.changed = true
		}
	}

	// functions the callee calls through its function-typed parameters: resolved here, where the operand is known
	for _, pc := range sum.ParamCalls {
		var g *ssa.Function
		var binds []ssa.Value
		if pc.Param < len(args) {
			g, binds = resolveFuncValue(args[pc.Param])
		}
		gsum := st.a.Sums[g]
		if g == nil || gsum == nil {
			st.unmodelled(in, "function value passed to "+callee.Name(), args, setRes, 0)
			continue
		}
		target := func(k string) set {
			if strings.HasPrefix(k, "P") {
				var j int
				fmt.Sscanf(k, "P%d", &j)
				if j < len(g.Params) {
					out := set{}
					if j < len(pc.Args) {
						for kk := range pc.Args[j] {
							// the operand regions were recorded in the callee's name space: parameters, package-level
							// variables and fresh results translate; a local allocation site of the callee is memory
							// this function cannot see (what it points to is already part of the region), and its
							// name must not be read as one of this function's own sites
							if strings.HasPrefix(kk, "P") || strings.HasPrefix(kk, "G:") || kk == "Fresh" {
								out.addAll(mapObj(kk))
							}
						}
					}
					return out
				}
				if bi := j - len(g.Params); bi < len(binds) {
					return st.region(st.get(binds[bi]))
				}
				return set{}
			}
			if k == "Fresh" {
				return set{}
			}
			return set{k: true}
		}
		for k, w := range gsum.Wr {
			if strings.HasPrefix(k, "P") {
				st.write(target(k), true, &Witness{Fn: st.fn, Pos: in.Pos(), What: "call " + callee.Name() + " (calls its operand " + g.Name() + ")", Via: w})
			} else {
				st.write(set{k: true}, false, &Witness{Fn: st.fn, Pos: in.Pos(), What: "call " + callee.Name() + " (calls its operand " + g.Name() + ")", Via: w})
			}
		}
		for k, e := range gsum.Esc {
			val := set{}
			for v := range e {
				val.addAll(target(v))
			}
			st.store(target(k), val)
		}
		for k, w := range gsum.Unmodelled {
			if _, ok := st.sum.Unmodelled[k]; !ok {
				st.sum.Unmodelled[k] = &Witness{Fn: st.fn, Pos: in.Pos(), What: "call " + callee.Name(), Via: w}
				st.changed = true
			}
		}
		if len(gsum.ParamCalls) > 0 {
			st.unmodelled(in, "function value passed on by "+g.Name(), args, setRes, 0)
		}
	}
}

// resolveFuncValue: the function (and the bindings of its free variables) a function-typed operand denotes, when it is
// a function or a closure created at the call site.
func resolveFuncValue(v ssa.Value) (*ssa.Function, []ssa.Value) {
	for {
		switch x := v.(type) {
		case *ssa.Function:
			return x, nil
		case *ssa.MakeClosure:
			if f, ok := x.Fn.(*ssa.Function); ok {
				return f, x.Bindings
			}
			return nil, nil
		case *ssa.ChangeType:
			v = x.X
		case *ssa.Extract:
			if c, ok := x.Tuple.(*ssa.Call); ok {
				return returnedFunc(c, x.Index, v)
			}
			return nil, nil
		case *ssa.Call:
			return returnedFunc(x, 0, v)
		default:
			return nil, nil
		}
	}
}

// returnedFunc: result idx of the static call c is, on every return of the callee, a closure over (or a reference to) one
// and the same function.  The closure's bindings live in the callee's frame; what they point to is contained in the
// points-to set of the call's result (a closure value points to whatever its bindings point to), so the result value
// itself stands in for each binding.
func returnedFunc(c *ssa.Call, idx int, result ssa.Value) (*ssa.Function, []ssa.Value) {
	callee := c.Common().StaticCallee()
	if callee == nil || callee.Blocks == nil {
		return nil, nil
	}
	var fn *ssa.Function
	for _, b := range callee.Blocks {
		for _, in := range b.Instrs {
			ret, ok := in.(*ssa.Return)
			if !ok {
				continue
			}
			if idx >= len(ret.Results) {
				return nil, nil
			}
			var g *ssa.Function
			rv := ret.Results[idx]
			for {
				ct, ok := rv.(*ssa.ChangeType)
				if !ok {
					break
				}
				rv = ct.X
			}
			switch r := rv.(type) {
			case *ssa.Function:
				g = r
			case *ssa.MakeClosure:
				g, _ = r.Fn.(*ssa.Function)
			}
			if g == nil || (fn != nil && g != fn) {
				return nil, nil
			}
			fn = g
		}
	}
	if fn == nil {
		return nil, nil
	}
	binds := make([]ssa.Value, len(fn.FreeVars))
	for i := range binds {
		binds[i] = result
	}
	return fn, binds
}
