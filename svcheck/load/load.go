// Package load is engine E0: it loads and type-checks /repo's current working
// tree (non-test packages of the module and their dependency closure) and
// lowers it to go/ssa.  Everything else in svcheck works on its result.
package load

import (
	"fmt"
	"go/token"
	"go/types"
	"os"
	"sort"
	"strings"

	"golang.org/x/tools/go/packages"
	"golang.org/x/tools/go/ssa"
	"golang.org/x/tools/go/ssa/ssautil"
)

const (
	ModPath    = "github.com/bytemare/secp256k1"
	FieldPath  = ModPath + "/internal/field"
	ScalarPath = ModPath + "/internal/scalar"
)

// Prog is the loaded program.
type Prog struct {
	gfuncs    map[*ssa.Global][]*ssa.Function
	Dir       string
	ModPrefix string
	Fset      *token.FileSet
	Mod       []*packages.Package          // module packages with Go files, sorted by path
	All       map[string]*packages.Package // whole import closure
	SSA       *ssa.Program
	Root      *ssa.Package
	Field     *ssa.Package
	Scalar    *ssa.Package
	ModSSA    []*ssa.Package
	NFuncs    int
	NInstrs   int
}

// Env returns the environment used for every `go list` the loader spawns.
func Env(extra ...string) []string {
	env := []string{}
	for _, e := range os.Environ() {
		if strings.HasPrefix(e, "GOWORK=") || strings.HasPrefix(e, "GOFLAGS=") ||
			strings.HasPrefix(e, "GOPROXY=") || strings.HasPrefix(e, "GOSUMDB=") {
			continue
		}
		env = append(env, e)
	}
	env = append(env, "GOWORK=off", "GOFLAGS=-mod=mod", "GOPROXY=off", "GOSUMDB=off")
	return append(env, extra...)
}

// Load loads dir.  Any type error, a missing module package or an unresolved
// anchor fails the load (fail closed).
func Load(dir string, extraEnv ...string) (*Prog, error) {
	p, err := LoadModule(dir, ModPath, extraEnv...)
	if err != nil {
		return nil, err
	}
	if p.Root == nil || p.Field == nil || p.Scalar == nil {
		return nil, fmt.Errorf("load: expected packages %s, %s, %s; got %d module package(s)", ModPath, FieldPath, ScalarPath, len(p.Mod))
	}
	return p, nil
}

// LoadModule loads any module rooted at dir whose package paths start with modPrefix.
func LoadModule(dir, modPrefix string, extraEnv ...string) (*Prog, error) {
	fset := token.NewFileSet()
	cfg := &packages.Config{
		Mode:  packages.LoadAllSyntax,
		Dir:   dir,
		Tests: false,
		Fset:  fset,
		Env:   Env(extraEnv...),
	}
	pkgs, err := packages.Load(cfg, "./...")
	if err != nil {
		return nil, fmt.Errorf("load: %w", err)
	}
	p := &Prog{Dir: dir, ModPrefix: modPrefix, Fset: fset, All: map[string]*packages.Package{}}
	var errs []string
	packages.Visit(pkgs, nil, func(pk *packages.Package) {
		p.All[pk.PkgPath] = pk
		if strings.HasPrefix(pk.PkgPath, modPrefix) {
			for _, e := range pk.Errors {
				// A directory that holds only _test files is not a package of the build.
				if strings.Contains(e.Msg, "no non-test Go files") || strings.Contains(e.Msg, "build constraints exclude all Go files") {
					continue
				}
				errs = append(errs, e.Error())
			}
		}
	})
	if len(errs) > 0 {
		return nil, fmt.Errorf("load: %d error(s) in module packages: %s", len(errs), strings.Join(errs, "; "))
	}
	for _, pk := range pkgs {
		if len(pk.GoFiles) == 0 || pk.Types == nil {
			continue
		}
		p.Mod = append(p.Mod, pk)
	}
	sort.Slice(p.Mod, func(i, j int) bool { return p.Mod[i].PkgPath < p.Mod[j].PkgPath })
	prog, _ := ssautil.AllPackages(pkgs, ssa.InstantiateGenerics)
	prog.Build()
	p.SSA = prog
	for _, pk := range p.Mod {
		sp := prog.Package(pk.Types)
		if sp == nil {
			return nil, fmt.Errorf("load: no SSA for %s", pk.PkgPath)
		}
		p.ModSSA = append(p.ModSSA, sp)
		switch pk.PkgPath {
		case ModPath:
			p.Root = sp
		case FieldPath:
			p.Field = sp
		case ScalarPath:
			p.Scalar = sp
		}
	}
	for _, f := range p.ModFuncs() {
		p.NFuncs++
		for _, b := range f.Blocks {
			p.NInstrs += len(b.Instrs)
		}
	}
	return p, nil
}

// InModule reports whether fn is defined in one of the module's packages.
func (p *Prog) InModule(fn *ssa.Function) bool {
	if fn == nil {
		return false
	}
	if o := fn.Origin(); o != nil {
		fn = o
	}
	pk := fn.Package()
	if pk == nil {
		if fn.Parent() != nil {
			return p.InModule(fn.Parent())
		}
		if fn.Synthetic != "" && fn.Blocks != nil {
			// a wrapper (method expression, method value, promoted method): in the module iff what it forwards to is
			for _, b := range fn.Blocks {
				for _, in := range b.Instrs {
					if c, ok := in.(ssa.CallInstruction); ok {
						if cal := c.Common().StaticCallee(); cal != nil && cal != fn && cal.Synthetic == "" {
							return p.InModule(cal)
						}
					}
				}
			}
		}
		return false
	}
	return strings.HasPrefix(pk.Pkg.Path(), p.ModPrefix)
}

// ModFuncs returns every source-level function and method (including
// anonymous functions and init) of the module packages, sorted by name.
func (p *Prog) ModFuncs() []*ssa.Function {
	seen := map[*ssa.Function]bool{}
	var out []*ssa.Function
	var add func(f *ssa.Function)
	add = func(f *ssa.Function) {
		if f == nil || seen[f] || f.Blocks == nil {
			return
		}
		seen[f] = true
		out = append(out, f)
		for _, a := range f.AnonFuncs {
			add(a)
		}
	}
	for _, sp := range p.ModSSA {
		for _, m := range sp.Members {
			switch m := m.(type) {
			case *ssa.Function:
				add(m)
			case *ssa.Type:
				for _, t := range []types.Type{m.Type(), types.NewPointer(m.Type())} {
					ms := p.SSA.MethodSets.MethodSet(t)
					for i := 0; i < ms.Len(); i++ {
						fn := p.SSA.MethodValue(ms.At(i))
						if fn != nil && fn.Synthetic == "" {
							add(fn)
						}
					}
				}
			}
		}
	}
	// instantiations of the module's generic functions (created on demand, not package members); the generic
	// templates themselves are not analysable code and are left out
	for fn := range ssautil.AllFunctions(p.SSA) {
		if fn.Origin() != nil && fn.Origin() != fn && p.InModule(fn) {
			add(fn)
		}
	}
	var keep []*ssa.Function
	for _, f := range out {
		if f.TypeParams().Len() > 0 && len(f.TypeArgs()) == 0 {
			continue
		}
		keep = append(keep, f)
	}
	out = keep
	sort.Slice(out, func(i, j int) bool { return out[i].String() < out[j].String() })
	return out
}

// Func resolves a package-level function by name.
func (p *Prog) Func(pkg *ssa.Package, name string) *ssa.Function {
	return pkg.Func(name)
}

// Method resolves method name on *T or T (pointer receiver tried first).
func (p *Prog) Method(pkg *ssa.Package, typ, name string) *ssa.Function {
	t := pkg.Type(typ)
	if t == nil {
		return nil
	}
	for _, tt := range []types.Type{types.NewPointer(t.Type()), t.Type()} {
		ms := p.SSA.MethodSets.MethodSet(tt)
		if sel := ms.Lookup(pkg.Pkg, name); sel != nil {
			if fn := p.SSA.MethodValue(sel); fn != nil {
				if fn.Synthetic != "" {
					continue
				}
				return fn
			}
		}
	}
	return nil
}

// Pos renders a position relative to the repository root.
func (p *Prog) Pos(pos token.Pos) string {
	if !pos.IsValid() {
		return "-"
	}
	ps := p.Fset.Position(pos)
	f := strings.TrimPrefix(ps.Filename, p.Dir+"/")
	return fmt.Sprintf("%s:%d", f, ps.Line)
}

// ExportedAPI returns the exported functions and the exported methods of
// exported types of the root package.
func (p *Prog) ExportedAPI() []*ssa.Function { return p.ExportedAPIOf(p.Root) }

// ExportedAPIOf is ExportedAPI for an arbitrary package of the program.
func (p *Prog) ExportedAPIOf(pkg *ssa.Package) []*ssa.Function {
	var out []*ssa.Function
	for _, f := range p.ModFuncs() {
		if f.Package() != pkg || f.Parent() != nil {
			continue
		}
		obj, ok := f.Object().(*types.Func)
		if !ok || !obj.Exported() {
			continue
		}
		if recv := obj.Type().(*types.Signature).Recv(); recv != nil {
			t := recv.Type()
			if pt, ok := t.(*types.Pointer); ok {
				t = pt.Elem()
			}
			if n, ok := t.(*types.Named); !ok || !n.Obj().Exported() {
				continue
			}
		}
		out = append(out, f)
	}
	return out
}

// InModuleGlobal reports whether g is a package-level variable of the module.
func (p *Prog) InModuleGlobal(g *ssa.Global) bool {
	return g.Pkg != nil && strings.HasPrefix(g.Pkg.Pkg.Path(), p.ModPrefix)
}
