package load

import (
	"sort"

	"golang.org/x/tools/go/ssa"
)

// StaticCallees returns the statically resolved module callees of fn
// (including anonymous functions it creates), sorted.
func (p *Prog) StaticCallees(fn *ssa.Function) []*ssa.Function {
	seen := map[*ssa.Function]bool{}
	var out []*ssa.Function
	for _, b := range fn.Blocks {
		for _, in := range b.Instrs {
			switch x := in.(type) {
			case ssa.CallInstruction:
				if c := x.Common().StaticCallee(); c != nil && p.InModule(c) && !seen[c] {
					seen[c] = true
					out = append(out, c)
				}
			case *ssa.MakeClosure:
				if c, ok := x.Fn.(*ssa.Function); ok && !seen[c] {
					seen[c] = true
					out = append(out, c)
				}
			}
		}
	}
	sort.Slice(out, func(i, j int) bool { return out[i].String() < out[j].String() })
	return out
}

// Reachable returns the module functions reachable from root through
// statically resolved calls (root included).
func (p *Prog) Reachable(root *ssa.Function) map[*ssa.Function]bool {
	seen := map[*ssa.Function]bool{}
	var walk func(f *ssa.Function)
	walk = func(f *ssa.Function) {
		if seen[f] {
			return
		}
		seen[f] = true
		for _, c := range p.StaticCallees(f) {
			walk(c)
		}
	}
	walk(root)
	return seen
}

// UnresolvedCalls lists call sites in module code whose callee is not
// statically resolved (interface invokes and calls of function values).
func (p *Prog) UnresolvedCalls(fn *ssa.Function) []ssa.CallInstruction {
	var out []ssa.CallInstruction
	for _, b := range fn.Blocks {
		for _, in := range b.Instrs {
			if c, ok := in.(ssa.CallInstruction); ok {
				cc := c.Common()
				if cc.StaticCallee() == nil {
					if _, isBuiltin := cc.Value.(*ssa.Builtin); !isBuiltin {
						out = append(out, c)
					}
				}
			}
		}
	}
	return out
}
