package load

import (
	"sort"

	"golang.org/x/tools/go/ssa"
)

// StaticCallees returns the statically resolved module callees of fn
// (including anonymous functions it creates), sorted.
func (p *Prog) StaticCallees(fn *ssa.Function) []*ssa.Function {
	seen := map[*ssa.Function]bool{}
	var out []*ssa.Function
	for _, b := range fn.Blocks {
		for _, in := range b.Instrs {
			switch x := in.(type) {
			case ssa.CallInstruction:
				if c := x.Common().StaticCallee(); c != nil && p.InModule(c) && !seen[c] {
					seen[c] = true
					out = append(out, c)
				}
			case *ssa.MakeClosure:
				if c, ok := x.Fn.(*ssa.Function); ok && !seen[c] {
					seen[c] = true
					out = append(out, c)
				}
			}
			// function values used as operands, and the functions stored in the package-level variables this
			// function refers to (a constructor kept in a global, e.g. sync.Pool{New: func...}): they may be called
			// through the value
			for _, op := range in.Operands(nil) {
				if *op == nil {
					continue
				}
				switch v := (*op).(type) {
				case *ssa.Function:
					if p.InModule(v) && !seen[v] {
						seen[v] = true
						out = append(out, v)
					}
				case *ssa.Global:
					for _, c := range p.globalFuncs()[v] {
						if !seen[c] {
							seen[c] = true
							out = append(out, c)
						}
					}
				}
			}
		}
	}
	sort.Slice(out, func(i, j int) bool { return out[i].String() < out[j].String() })
	return out
}

// Reachable returns the module functions reachable from root through
// statically resolved calls (root included).
func (p *Prog) Reachable(root *ssa.Function) map[*ssa.Function]bool {
	seen := map[*ssa.Function]bool{}
	var walk func(f *ssa.Function)
	walk = func(f *ssa.Function) {
		if seen[f] {
			return
		}
		seen[f] = true
		for _, c := range p.StaticCallees(f) {
			walk(c)
		}
	}
	walk(root)
	return seen
}

// UnresolvedCalls lists call sites in module code whose callee is not
// statically resolved (interface invokes and calls of function values).
func (p *Prog) UnresolvedCalls(fn *ssa.Function) []ssa.CallInstruction {
	var out []ssa.CallInstruction
	for _, b := range fn.Blocks {
		for _, in := range b.Instrs {
			if c, ok := in.(ssa.CallInstruction); ok {
				cc := c.Common()
				if cc.StaticCallee() == nil {
					if _, isBuiltin := cc.Value.(*ssa.Builtin); !isBuiltin {
						out = append(out, c)
					}
				}
			}
		}
	}
	return out
}

// globalFuncs maps each module package-level variable to the module functions stored into it (or into one of its
// fields or elements) anywhere in the module, typically by a package initialiser.
// GlobalFuncs is globalFuncs for other packages.
func (p *Prog) GlobalFuncs() map[*ssa.Global][]*ssa.Function { return p.globalFuncs() }

func (p *Prog) globalFuncs() map[*ssa.Global][]*ssa.Function {
	if p.gfuncs != nil {
		return p.gfuncs
	}
	p.gfuncs = map[*ssa.Global][]*ssa.Function{}
	for _, fn := range p.ModFuncs() {
		for _, b := range fn.Blocks {
			for _, in := range b.Instrs {
				st, ok := in.(*ssa.Store)
				if !ok {
					continue
				}
				var f *ssa.Function
				sv := st.Val
				for {
					ct, isCT := sv.(*ssa.ChangeType)
					if !isCT {
						break
					}
					sv = ct.X
				}
				switch v := sv.(type) {
				case *ssa.Function:
					f = v
				case *ssa.MakeClosure:
					f, _ = v.Fn.(*ssa.Function)
				case *ssa.MakeInterface:
					if mc, isC := v.X.(*ssa.MakeClosure); isC {
						f, _ = mc.Fn.(*ssa.Function)
					} else if ff, isF := v.X.(*ssa.Function); isF {
						f = ff
					}
				}
				if f != nil && f.Synthetic != "" {
					// a method expression or method value wrapper: the method it forwards to
					var target *ssa.Function
					for _, bb := range f.Blocks {
						for _, ii := range bb.Instrs {
							if c, isC := ii.(ssa.CallInstruction); isC {
								if cal := c.Common().StaticCallee(); cal != nil && p.InModule(cal) {
									target = cal
								}
							}
						}
					}
					f = target
				}
				if f == nil || !p.InModule(f) {
					continue
				}
				addr := st.Addr
				for {
					switch a := addr.(type) {
					case *ssa.FieldAddr:
						addr = a.X
						continue
					case *ssa.IndexAddr:
						addr = a.X
						continue
					}
					break
				}
				if g, isG := addr.(*ssa.Global); isG {
					p.gfuncs[g] = append(p.gfuncs[g], f)
				}
				// a composite literal built in a temporary and then copied into the variable as a whole
				if al, isA := addr.(*ssa.Alloc); isA && al.Referrers() != nil {
					for _, ref := range *al.Referrers() {
						ld, isL := ref.(*ssa.UnOp)
						if !isL || ld.Referrers() == nil {
							continue
						}
						for _, r2 := range *ld.Referrers() {
							st2, isS := r2.(*ssa.Store)
							if !isS || st2.Val != ld {
								continue
							}
							a2 := st2.Addr
							for {
								switch a := a2.(type) {
								case *ssa.FieldAddr:
									a2 = a.X
									continue
								case *ssa.IndexAddr:
									a2 = a.X
									continue
								}
								break
							}
							if g, isG := a2.(*ssa.Global); isG {
								p.gfuncs[g] = append(p.gfuncs[g], f)
							}
						}
					}
				}
			}
		}
	}
	return p.gfuncs
}
