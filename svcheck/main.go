// svcheck decides the properties C01..C19 of bytemare/secp256k1 by static
// analysis of /repo's current source.  See /verif/DESIGN.md.
package main

import (
	"flag"
	"fmt"
	"os"
	"runtime/debug"
	"sort"

	"svcheck/load"
	"svcheck/props"
	"svcheck/report"
)

type check struct {
	level string
	run   func(p *load.Prog, r *report.Report)
}

var checks = map[string]check{}

func main() {
	prop := flag.String("prop", "", "property id (C01..C19)")
	tier := flag.String("tier", "quick", "quick or thorough")
	repo := flag.String("repo", "/repo", "repository working tree")
	verif := flag.String("verif", "/verif", "verification directory (evidence, known findings)")
	controls := flag.String("controls", "", "directory of the control packages (default <verif>/controls)")
	quiet := flag.Bool("q", false, "do not print discharged obligations")
	list := flag.Bool("list", false, "list implemented properties")
	flag.Parse()
	props.Register(func(id, level string, f func(*load.Prog, *report.Report)) { checks[id] = check{level, f} })
	if *list {
		var ids []string
		for id := range checks {
			ids = append(ids, id)
		}
		sort.Strings(ids)
		for _, id := range ids {
			fmt.Println(id, checks[id].level)
		}
		return
	}
	c, ok := checks[*prop]
	if !ok {
		fmt.Fprintf(os.Stderr, "unknown property %q\n", *prop)
		os.Exit(2)
	}
	r := report.New(*prop, *tier, c.level, *verif)
	r.Quiet = *quiet
	if *controls != "" {
		r.ControlsDir = *controls
	}
	code := func() (code int) {
		defer func() {
			if e := recover(); e != nil {
				// an analyser panic is a failed check, never a pass
				r.Undecided(*prop+".internal", "analyser panic", "", fmt.Sprintf("%v\n%s", e, debug.Stack()))
				code = r.Finish()
			}
		}()
		p, err := load.Load(*repo)
		if err != nil {
			r.Undecided(*prop+".load", "load /repo", "", err.Error())
			return r.Finish()
		}
		r.Analysed["module_packages"] = len(p.Mod)
		r.Analysed["module_functions"] = p.NFuncs
		r.Analysed["module_ssa_instructions"] = p.NInstrs
		if len(p.Mod) < 3 || p.NFuncs == 0 {
			r.Undecided(*prop+".load", "package count", "", fmt.Sprintf("only %d module packages / %d functions loaded", len(p.Mod), p.NFuncs))
			return r.Finish()
		}
		c.run(p, r)
		return r.Finish()
	}()
	os.Exit(code)
}
