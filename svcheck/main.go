// svcheck decides the properties C01..C19 of bytemare/secp256k1 by static
// analysis of /repo's current source.  See /verif/DESIGN.md.
package main

import (
	"runtime/pprof"
	"time"

	"encoding/json"
	"flag"
	"fmt"
	"os"
	"path/filepath"
	"runtime/debug"
	"sort"
	"svcheck/absint"

	"svcheck/load"
	"svcheck/props"
	"svcheck/report"
)

// selfValidation folds the result of tools/selfval.py (run by run.sh just before, thorough tier) into the report:
// every breaking variant of the catalogue that names this property must have raised an alarm, every
// behaviour-preserving variant must have left the check silent.
func selfValidation(r *report.Report, prop, verif string) {
	b, err := os.ReadFile(filepath.Join(verif, "evidence", "selfval-"+prop+".json"))
	if err != nil {
		r.Undecided(prop+".selfval", "catalogue", "", "self-validation results not found (run through ./run.sh "+prop+" thorough): "+err.Error())
		return
	}
	var sv struct {
		Entries int `json:"entries"`
		Results []struct {
			Entry   string            `json:"entry"`
			Expect  []string          `json:"expect"`
			Silent  []string          `json:"silent"`
			Results map[string]string `json:"results"`
			OK      bool              `json:"ok"`
			Error   string            `json:"error"`
			Suite   *bool             `json:"suite_passes"`
		} `json:"results"`
	}
	if json.Unmarshal(b, &sv) != nil {
		r.Undecided(prop+".selfval", "catalogue", "", "unreadable self-validation results")
		return
	}
	n := 0
	for _, e := range sv.Results {
		n++
		what := "must stay silent"
		for _, x := range e.Expect {
			if x == prop {
				what = "must raise an alarm"
			}
		}
		suite := ""
		if e.Suite != nil && *e.Suite {
			suite = "; the variant passes the repository's test suite"
		}
		if e.OK {
			r.OK(prop+".selfval", e.Entry, "variant of the source tree on which the check "+what+": it "+map[string]string{"alarm": "raised an alarm", "silent": "stayed silent"}[e.Results[prop]]+suite)
		} else {
			r.Fail(prop+".selfval", e.Entry, "", "the check itself is wrong: on this variant it "+what+" but "+e.Results[prop]+" "+e.Error)
		}
	}
	r.Analysed["selfval_variants"] = n
	r.RequireCount(prop+".selfval", "catalogue variants run against this check", n, 8)
}

type check struct {
	level string
	run   func(p *load.Prog, r *report.Report)
}

var checks = map[string]check{}

func main() {
	prop := flag.String("prop", "", "property id (C01..C19)")
	tier := flag.String("tier", "quick", "quick or thorough")
	repo := flag.String("repo", "/repo", "repository working tree")
	verif := flag.String("verif", "/verif", "verification directory (evidence, known findings)")
	controls := flag.String("controls", "", "directory of the control packages (default <verif>/controls)")
	quiet := flag.Bool("q", false, "do not print discharged obligations")
	list := flag.Bool("list", false, "list implemented properties")
	cpuprof := flag.String("cpuprofile", "", "write a CPU profile")
	flag.Parse()
	if *cpuprof != "" {
		f, _ := os.Create(*cpuprof)
		pprof.StartCPUProfile(f)
		go func() { time.Sleep(40 * time.Second); pprof.StopCPUProfile(); f.Close(); os.Exit(3) }()
	}
	props.Register(func(id, level string, f func(*load.Prog, *report.Report)) { checks[id] = check{level, f} })
	if *list {
		var ids []string
		for id := range checks {
			ids = append(ids, id)
		}
		sort.Strings(ids)
		for _, id := range ids {
			fmt.Println(id, checks[id].level)
		}
		return
	}
	if v := os.Getenv("SVCHECK_TICKS"); v != "" {
		var n int
		fmt.Sscanf(v, "%d", &n)
		if n > 0 {
			absint.TickLimit = n
		}
	}
	c, ok := checks[*prop]
	if !ok {
		fmt.Fprintf(os.Stderr, "unknown property %q\n", *prop)
		os.Exit(2)
	}
	r := report.New(*prop, *tier, c.level, *verif)
	r.Quiet = *quiet
	if *controls != "" {
		r.ControlsDir = *controls
	}
	code := func() (code int) {
		defer func() {
			if e := recover(); e != nil {
				// an analyser panic is a failed check, never a pass
				r.Undecided(*prop+".internal", "analyser panic", "", fmt.Sprintf("%v\n%s", e, debug.Stack()))
				code = r.Finish()
			}
		}()
		p, err := load.Load(*repo)
		if err != nil {
			r.Undecided(*prop+".load", "load /repo", "", err.Error())
			return r.Finish()
		}
		r.Analysed["module_packages"] = len(p.Mod)
		r.Analysed["module_functions"] = p.NFuncs
		r.Analysed["module_ssa_instructions"] = p.NInstrs
		if len(p.Mod) < 3 || p.NFuncs == 0 {
			r.Undecided(*prop+".load", "package count", "", fmt.Sprintf("only %d module packages / %d functions loaded", len(p.Mod), p.NFuncs))
			return r.Finish()
		}
		c.run(p, r)
		r.Analysed["algebra_ticks"] = absint.Ticks()
		if *tier == "thorough" {
			selfValidation(r, *prop, *verif)
		}
		return r.Finish()
	}()
	os.Exit(code)
}
