package absint

import (
	"golang.org/x/tools/go/ssa"
)

// cfgInfo caches immediate post-dominators and loop membership of a function.
type cfgInfo struct {
	ipdom  map[*ssa.BasicBlock]*ssa.BasicBlock // nil = virtual exit
	inLoop map[*ssa.BasicBlock]bool
	reach  map[*ssa.BasicBlock]map[*ssa.BasicBlock]bool
}

func (it *Interp) cfg(fn *ssa.Function) *cfgInfo {
	if c, ok := it.cfgs[fn]; ok {
		return c
	}
	c := &cfgInfo{ipdom: map[*ssa.BasicBlock]*ssa.BasicBlock{}, inLoop: map[*ssa.BasicBlock]bool{}, reach: map[*ssa.BasicBlock]map[*ssa.BasicBlock]bool{}}
	n := len(fn.Blocks)
	exit := n // virtual exit index
	// post-dominator sets by iterative dataflow (functions are small)
	pd := make([][]bool, n+1)
	for i := range pd {
		pd[i] = make([]bool, n+1)
		for j := range pd[i] {
			pd[i][j] = true
		}
	}
	for j := range pd[exit] {
		pd[exit][j] = j == exit
	}
	succs := func(b *ssa.BasicBlock) []int {
		if len(b.Succs) == 0 {
			return []int{exit}
		}
		var s []int
		for _, x := range b.Succs {
			s = append(s, x.Index)
		}
		return s
	}
	for changed := true; changed; {
		changed = false
		for i := n - 1; i >= 0; i-- {
			b := fn.Blocks[i]
			nw := make([]bool, n+1)
			for j := range nw {
				nw[j] = true
			}
			for _, s := range succs(b) {
				for j := range nw {
					nw[j] = nw[j] && pd[s][j]
				}
			}
			nw[i] = true
			for j := range nw {
				if nw[j] != pd[i][j] {
					changed = true
				}
			}
			pd[i] = nw
		}
	}
	// immediate post-dominator: the strict post-dominator that is post-dominated by all other strict post-dominators
	for i := 0; i < n; i++ {
		best := -1
		for j := 0; j <= n; j++ {
			if j == i || !pd[i][j] {
				continue
			}
			// j strictly post-dominates i; it is immediate if every other strict pdom k of i post-dominates j
			ok := true
			for k := 0; k <= n; k++ {
				if k == i || k == j || !pd[i][k] {
					continue
				}
				if !pd[j][k] {
					ok = false
					break
				}
			}
			if ok {
				best = j
				break
			}
		}
		if best >= 0 && best < n {
			c.ipdom[fn.Blocks[i]] = fn.Blocks[best]
		} else {
			c.ipdom[fn.Blocks[i]] = nil
		}
	}
	// loop membership: b is in a loop iff b reaches itself
	for i := 0; i < n; i++ {
		seen := make([]bool, n)
		var stack []int
		for _, s := range fn.Blocks[i].Succs {
			stack = append(stack, s.Index)
		}
		for len(stack) > 0 {
			x := stack[len(stack)-1]
			stack = stack[:len(stack)-1]
			if seen[x] {
				continue
			}
			seen[x] = true
			for _, s := range fn.Blocks[x].Succs {
				stack = append(stack, s.Index)
			}
		}
		c.inLoop[fn.Blocks[i]] = seen[i]
		rm := map[*ssa.BasicBlock]bool{}
		for j, ok := range seen {
			if ok {
				rm[fn.Blocks[j]] = true
			}
		}
		c.reach[fn.Blocks[i]] = rm
	}
	it.cfgs[fn] = c
	return c
}
