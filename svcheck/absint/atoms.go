package absint

import (
	"fmt"
	"math/big"
	"sort"
	"strconv"
	"strings"
)

func (a *Alg) internI(k string, mk func() *IAtom) *IAtom {
	if x, ok := a.iatoms[k]; ok {
		return x
	}
	x := mk()
	x.ID = a.id()
	x.key = k
	a.iatoms[k] = x
	return x
}

func (a *Alg) internP(k string, mk func() *PAtom) *PAtom {
	if x, ok := a.patoms[k]; ok {
		return x
	}
	x := mk()
	x.ID = a.id()
	x.key = k
	a.patoms[k] = x
	return x
}

// SymInt is a free integer symbol in [lo,hi].
func SymInt(name string, lo, hi *big.Int) *Term {
	return TAtom(A.internI("sym:"+name, func() *IAtom { return &IAtom{Kind: ISym, Name: name, Lo: lo, Hi: hi} }))
}

// SymWord is a free 64-bit word.
func SymWord(name string) *Term { return SymInt(name, bigZero, mask64) }

// SymByte is a free byte.
func SymByte(name string) *Term { return SymInt(name, bigZero, big.NewInt(255)) }

// SymBool is a free boolean (as a 0/1 term).
func SymBool(name string) *Term {
	return TPred(A.internP("bsym:"+name, func() *PAtom { return &PAtom{Kind: PSym, Name: name} }))
}

// CanonOf is the canonical integer in [0,m) of field value v.
func CanonOf(f *Field, v *Poly) *Term {
	if c, ok := v.IsConst(); ok {
		return TConst(c)
	}
	return TAtom(A.internI("canon:"+f.Name+":"+v.Key(), func() *IAtom {
		return &IAtom{Kind: ICanon, F: f, V: v, Lo: bigZero, Hi: f.M1}
	}))
}

// MontOf is the Montgomery representative v*R mod m of field value v.
func MontOf(f *Field, v *Poly) *Term {
	if c, ok := v.IsConst(); ok {
		x := new(big.Int).Mul(c, f.R)
		return TConst(x.Mod(x, f.M))
	}
	return TAtom(A.internI("mont:"+f.Name+":"+v.Key(), func() *IAtom {
		return &IAtom{Kind: IMont, F: f, V: v, Lo: bigZero, Hi: f.M1}
	}))
}

func pow2(n int) *big.Int { return new(big.Int).Lsh(big.NewInt(1), uint(n)) }

// digits tries to see t as non-overlapping bit-field pieces: every monomial
// is pure, has coefficient 2^s, and an atom (or constant) whose range fits
// below the next piece.  It returns the pieces sorted by shift.
type piece struct {
	shift int
	width int
	t     *Term // the piece's value (an atom term or a constant)
}

func (t *Term) digits() ([]piece, bool) {
	var ps []piece
	for _, m := range t.mons {
		if len(m.preds) > 0 || m.c.Sign() <= 0 {
			return nil, false
		}
		if m.atom == nil {
			// constant: one piece covering its bit length at shift 0
			ps = append(ps, piece{0, m.c.BitLen(), TConst(m.c)})
			continue
		}
		// coefficient must be a power of two
		if m.c.BitLen()-1 != int(m.c.TrailingZeroBits()) {
			return nil, false
		}
		if m.atom.Lo.Sign() < 0 {
			return nil, false
		}
		ps = append(ps, piece{int(m.c.TrailingZeroBits()), m.atom.Hi.BitLen(), TAtom(m.atom)})
	}
	sort.Slice(ps, func(i, j int) bool { return ps[i].shift < ps[j].shift })
	for i := 1; i < len(ps); i++ {
		if ps[i-1].shift+ps[i-1].width > ps[i].shift {
			return nil, false
		}
	}
	return ps, true
}

// window extracts bits [lo,lo+w) of t when t is a digit decomposition whose
// pieces do not straddle the window borders.
func (t *Term) window(lo, w int) (*Term, bool) {
	if c, ok := t.IsConst(); ok {
		x := new(big.Int).Rsh(c, uint(lo))
		return TConst(x.And(x, new(big.Int).Sub(pow2(w), bigOne))), c.Sign() >= 0
	}
	ps, ok := t.digits()
	if !ok {
		return nil, false
	}
	out := TInt(0)
	for _, p := range ps {
		if p.shift+p.width <= lo || p.shift >= lo+w {
			continue
		}
		if p.shift < lo || p.shift+p.width > lo+w {
			if c, isC := p.t.IsConst(); isC {
				x := new(big.Int).Rsh(c, uint(lo-p.shift))
				if p.shift >= lo {
					x = new(big.Int).Lsh(c, uint(p.shift-lo))
				}
				x.And(x, new(big.Int).Sub(pow2(w), bigOne))
				out = out.Add(TConst(x))
				continue
			}
			return nil, false
		}
		out = out.Add(p.t.Scale(pow2(p.shift - lo)))
	}
	return out, true
}

// LimbOf is the 64-bit limb i of integer term t (t must lie in [0,2^256)).
func LimbOf(t *Term, i int) *Term {
	if w, ok := t.window(64*i, 64); ok {
		return w
	}
	lo, hi := t.Bounds()
	if lo.Sign() < 0 || hi.Cmp(max256) > 0 {
		return WOp(64, "limb", t, TInt(int64(i)))
	}
	return TAtom(A.internI(fmt.Sprintf("limb:%d:%s", i, t.Key()), func() *IAtom {
		return &IAtom{Kind: ILimb, T: t, Idx: i, Lo: bigZero, Hi: mask64}
	}))
}

// ByteOf is byte j (little-endian position) of integer term t >= 0.
func ByteOf(t *Term, j int) *Term {
	if a := t.SingleAtom(); a != nil && a.Kind == ILimb && j < 8 {
		return ByteOf(a.T, 8*a.Idx+j)
	}
	if w, ok := t.window(8*j, 8); ok {
		return w
	}
	lo, _ := t.Bounds()
	if lo.Sign() < 0 {
		return WOp(8, "byte", t, TInt(int64(j)))
	}
	return TAtom(A.internI(fmt.Sprintf("byte:%d:%s", j, t.Key()), func() *IAtom {
		return &IAtom{Kind: IByte, T: t, Idx: j, Lo: bigZero, Hi: big.NewInt(255)}
	}))
}

// NzFold is a word that is zero iff the integer t is zero.
func NzFold(t *Term) *Term {
	if c, ok := t.IsConst(); ok {
		if c.Sign() == 0 {
			return TInt(0)
		}
		return TInt(1)
	}
	return TAtom(A.internI("nzfold:"+t.Key(), func() *IAtom {
		return &IAtom{Kind: INzFold, T: t, Lo: bigZero, Hi: mask64}
	}))
}

// WOp is an opaque word operation of the given bit width.
func WOp(width int, op string, args ...*Term) *Term {
	var ks []string
	for _, a := range args {
		ks = append(ks, a.Key())
	}
	if op == "or" || op == "xor" || op == "and" {
		sort.Strings(ks)
		sort.Slice(args, func(i, j int) bool { return args[i].Key() < args[j].Key() })
	}
	return TAtom(A.internI(fmt.Sprintf("wop:%d:%s:%s", width, op, strings.Join(ks, ",")), func() *IAtom {
		hi := new(big.Int).Sub(pow2(width), bigOne)
		// tighter upper bounds for the bitwise operations on non-negative operands
		nonneg := true
		var his []*big.Int
		for _, a := range args {
			lo, h := a.Bounds()
			if lo.Sign() < 0 {
				nonneg = false
			}
			his = append(his, h)
		}
		if nonneg && len(his) > 0 {
			switch op {
			case "and":
				for _, h := range his {
					if h.Cmp(hi) < 0 {
						hi = new(big.Int).Set(h)
					}
				}
			case "or", "xor":
				bl := 0
				for _, h := range his {
					if h.BitLen() > bl {
						bl = h.BitLen()
					}
				}
				if b := new(big.Int).Sub(pow2(bl), bigOne); b.Cmp(hi) < 0 {
					hi = b
				}
			case "mul64.hi":
				if len(his) == 2 {
					if b := new(big.Int).Rsh(new(big.Int).Mul(his[0], his[1]), 64); b.Cmp(hi) < 0 {
						hi = b
					}
				}
			case "shr":
				if len(args) == 2 {
					if k, ok := args[1].IsConst(); ok && k.IsInt64() && k.Int64() >= 0 && k.Int64() < 4096 {
						if b := new(big.Int).Rsh(his[0], uint(k.Int64())); b.Cmp(hi) < 0 {
							hi = b
						}
					}
				}
			}
		}
		return &IAtom{Kind: IWOp, Op: op, Args: args, Idx: width, Lo: bigZero, Hi: hi}
	}))
}

// ---------------------------------------------------------------------------
// interpolation over predicate atoms

// interp returns sum over assignments of ind(assignment)*f(assignment).
func interp(atoms []*PAtom, f func(assign map[*PAtom]bool) *Term) *Term {
	if len(atoms) > 10 {
		return nil
	}
	out := TInt(0)
	n := len(atoms)
	for mask := 0; mask < 1<<n; mask++ {
		as := map[*PAtom]bool{}
		ind := TInt(1)
		for i, a := range atoms {
			if mask>>i&1 == 1 {
				as[a] = true
				ind = ind.Mul(TPred(a))
			} else {
				as[a] = false
				ind = ind.Mul(PNot(TPred(a)))
			}
		}
		v := f(as)
		if v == nil {
			return nil
		}
		p := ind.Mul(v)
		if p == nil {
			return nil
		}
		out = out.Add(p)
	}
	return out
}

// evalPure evaluates a pure-predicate term under an assignment.
func (t *Term) evalPure(as map[*PAtom]bool) *big.Int {
	s := new(big.Int)
	for _, m := range t.mons {
		on := true
		for _, p := range m.preds {
			if !as[p] {
				on = false
				break
			}
		}
		if on {
			s.Add(s, m.c)
		}
	}
	return s
}

// substAll substitutes an assignment of predicate atoms.
func (t *Term) substAll(as map[*PAtom]bool) *Term {
	n := newTerm()
	for _, m := range t.mons {
		on := true
		var rest []*PAtom
		for _, p := range m.preds {
			if v, ok := as[p]; ok {
				if !v {
					on = false
					break
				}
			} else {
				rest = append(rest, p)
			}
		}
		if on {
			n.addMon(m.c, rest, m.atom)
		}
	}
	return n
}

func unionAtoms(ts ...*Term) []*PAtom {
	seen := map[*PAtom]bool{}
	var out []*PAtom
	for _, t := range ts {
		for _, p := range t.PredAtoms() {
			if !seen[p] {
				seen[p] = true
				out = append(out, p)
			}
		}
	}
	sort.Slice(out, func(i, j int) bool { return out[i].ID < out[j].ID })
	return out
}

// pureFunc applies an integer function to pure-predicate terms by interpolation.
func pureFunc(f func(xs []*big.Int) *big.Int, ts ...*Term) *Term {
	for _, t := range ts {
		if !t.IsPred() {
			return nil
		}
	}
	return interp(unionAtoms(ts...), func(as map[*PAtom]bool) *Term {
		xs := make([]*big.Int, len(ts))
		for i, t := range ts {
			xs[i] = t.evalPure(as)
		}
		return TConst(f(xs))
	})
}

// ---------------------------------------------------------------------------
// predicates (all return 0/1 terms)

func boolTerm(b bool) *Term {
	if b {
		return TInt(1)
	}
	return TInt(0)
}

// EQZ is the predicate t == 0.
func EQZ(t *Term) *Term {
	if c, ok := t.IsConst(); ok {
		return boolTerm(c.Sign() == 0)
	}
	lo, hi := t.Bounds()
	if lo.Sign() > 0 || hi.Sign() < 0 {
		return TInt(0)
	}
	if t.IsPred() {
		if r := pureFunc(func(x []*big.Int) *big.Int {
			if x[0].Sign() == 0 {
				return big.NewInt(1)
			}
			return new(big.Int)
		}, t); r != nil {
			return r
		}
	}
	// a term with selector predicates (ite(P, a, b) = 0): decide per truth assignment of the selectors
	if !t.IsPred() {
		var sel []*PAtom
		seen := map[*PAtom]bool{}
		for _, m := range t.mons {
			for _, p := range m.preds {
				if !seen[p] {
					seen[p] = true
					sel = append(sel, p)
				}
			}
		}
		if len(sel) > 0 && len(sel) <= 3 {
			if r := interp(sel, func(as map[*PAtom]bool) *Term {
				y := t
				for p, v := range as {
					y = y.SubstPred(p, v)
				}
				return EQZ(y)
			}); r != nil {
				return r
			}
		}
	}
	if r := eqzSmallSym(t); r != nil {
		return r
	}
	// a sum of non-negative word-operation atoms (xor/or/and results, limbs) with positive coefficients is zero iff
	// every one of them is: the product of the individual tests (which the limb grouping then reads as whole-value
	// equalities)
	if len(t.mons) >= 2 && len(t.mons) <= 8 && zeroSet(t) != nil && !symZeroSet(t) {
		out := TInt(1)
		for _, m := range t.sortedMons() {
			out = out.Mul(EQZ(TAtom(m.atom)))
		}
		return out
	}
	// a sum of non-negative atoms with positive coefficients is zero iff every atom is: unit coefficients
	if len(t.mons) >= 2 {
		if symZeroSet(t) {
			unit := true
			for _, m := range t.mons {
				if m.c.Cmp(bigOne) != 0 {
					unit = false
				}
			}
			if !unit {
				u := TInt(0)
				for _, m := range t.sortedMons() {
					u = u.Add(TAtom(m.atom))
				}
				return EQZ(u)
			}
		}
	}
	// normalise: divide by the gcd, make the first coefficient positive
	ms := t.sortedMons()
	g := new(big.Int)
	for _, m := range ms {
		g.GCD(nil, nil, g, new(big.Int).Abs(m.c))
	}
	if ms[0].c.Sign() < 0 {
		g.Neg(g)
	}
	if g.Cmp(bigOne) != 0 {
		n := newTerm()
		for _, m := range ms {
			n.addMon(new(big.Int).Quo(m.c, g), m.preds, m.atom)
		}
		t = n
	}
	// field-level equalities
	if a := t.SingleAtom(); a != nil {
		if a.Kind == IWOp && a.Op == "or" {
			// arguments that are selections ite(P, x, y): decide per truth assignment of the selectors
			var sel []*PAtom
			seenP := map[*PAtom]bool{}
			for _, x := range a.Args {
				for _, m := range x.mons {
					for _, p := range m.preds {
						if !seenP[p] {
							seenP[p] = true
							sel = append(sel, p)
						}
					}
				}
			}
			if len(sel) > 0 && len(sel) <= 3 {
				if r := interp(sel, func(as map[*PAtom]bool) *Term {
					args := make([]*Term, len(a.Args))
					for i, x := range a.Args {
						y := x
						for p, v := range as {
							y = y.SubstPred(p, v)
						}
						args[i] = y
					}
					o := args[0]
					for _, y := range args[1:] {
						o = wOr(o, y, a.Idx)
					}
					return EQZ(o)
				}); r != nil {
					return r
				}
			}
			if ch := completeChain(a.Args); ch != nil {
				return EQZ(ch.A.Sub(ch.B))
			}
			out := TInt(1)
			for _, x := range a.Args {
				out = out.Mul(EQZ(x))
			}
			return out
		}
		if a.Kind == IWOp && a.Op == "xor" && len(a.Args) == 2 {
			return EQZ(a.Args[0].Sub(a.Args[1]))
		}
		switch a.Kind {
		case ICanon, IMont:
			return ISZ(a.V)
		case INzFold:
			return EQZ(a.T)
		}
	}
	if len(t.mons) == 2 {
		var fa []*mon
		var k *big.Int
		for _, m := range t.mons {
			if len(m.preds) > 0 {
				fa = nil
				break
			}
			if m.atom == nil {
				k = m.c
			} else if (m.atom.Kind == ICanon || m.atom.Kind == IMont) && m.c.CmpAbs(bigOne) == 0 {
				fa = append(fa, m)
			}
		}
		if len(fa) == 2 && fa[0].c.Sign() != fa[1].c.Sign() && fa[0].atom.Kind == fa[1].atom.Kind && fa[0].atom.F == fa[1].atom.F {
			return ISZ(fa[0].atom.V.Sub(fa[1].atom.V))
		}
		if len(fa) == 1 && k != nil {
			// ±atom + k == 0  <=> atom == ∓k
			v := new(big.Int).Set(k)
			if fa[0].c.Sign() > 0 {
				v.Neg(v)
			}
			f := fa[0].atom.F
			if v.Sign() < 0 || v.Cmp(f.M) >= 0 {
				return TInt(0)
			}
			if fa[0].atom.Kind == IMont {
				v.Mul(v, f.RInv).Mod(v, f.M)
			}
			return ISZ(fa[0].atom.V.Sub(PolyConst(f, v)))
		}
	}
	return TPred(A.internP("eqz:"+t.Key(), func() *PAtom { return &PAtom{Kind: PEQZ, A: t} }))
}

// EQ is a == b.
func EQ(a, b *Term) *Term { return EQZ(a.Sub(b)) }

// NZ is t != 0.
func NZ(t *Term) *Term { return PNot(EQZ(t)) }

// LT is a < b (as integers).
func LT(a, b *Term) *Term {
	if a.Equal(b) {
		return TInt(0)
	}
	_, ahi := a.Bounds()
	alo, _ := a.Bounds()
	blo, bhi := b.Bounds()
	if ahi.Cmp(blo) < 0 {
		return TInt(1)
	}
	if alo.Cmp(bhi) >= 0 {
		return TInt(0)
	}
	// 0 < b for b >= 0 is "b != 0"; a < 1 for a >= 0 is "a = 0"
	if c, ok := a.IsConst(); ok && c.Sign() == 0 && blo.Sign() >= 0 {
		if _, isC := b.IsConst(); !isC {
			return TInt(1).Sub(EQZ(b))
		}
	}
	if c, ok := b.IsConst(); ok && c.Cmp(bigOne) == 0 && alo.Sign() >= 0 {
		if _, isC := a.IsConst(); !isC {
			return EQZ(a)
		}
	}
	if a.IsPred() && b.IsPred() {
		if r := pureFunc(func(x []*big.Int) *big.Int {
			if x[0].Cmp(x[1]) < 0 {
				return big.NewInt(1)
			}
			return new(big.Int)
		}, a, b); r != nil {
			return r
		}
	}
	return TPred(A.internP("lt:"+a.Key()+":"+b.Key(), func() *PAtom { return &PAtom{Kind: PLT, A: a, B: b} }))
}

// BIT is bit k of t (t >= 0).
func BIT(t *Term, k int) *Term {
	if c, ok := t.IsConst(); ok && c.Sign() >= 0 {
		return TInt(int64(c.Bit(k)))
	}
	if a := t.SingleAtom(); a != nil && a.Kind == ILimb && k < 64 {
		return BIT(a.T, 64*a.Idx+k)
	}
	if a := t.SingleAtom(); a != nil && a.Kind == IByte && k < 8 {
		return BIT(a.T, 8*a.Idx+k)
	}
	if a := t.SingleAtom(); a != nil && a.Kind == IWOp && a.Op == "shl" {
		if s, ok := a.Args[1].IsConst(); ok && k < a.Idx {
			if k < int(s.Int64()) {
				return TInt(0)
			}
			return BIT(a.Args[0], k-int(s.Int64()))
		}
	}
	if a := t.SingleAtom(); a != nil && a.Kind == IWOp && a.Op == "shr" {
		if s, ok := a.Args[1].IsConst(); ok && int(s.Int64())+k < a.Idx {
			return BIT(a.Args[0], int(s.Int64())+k)
		}
	}
	if w, ok := t.window(k, 1); ok {
		if _, isC := w.IsConst(); isC || w.IsPred() {
			return w
		}
		if a := w.SingleAtom(); a != nil && a.Hi.Cmp(bigOne) <= 0 {
			return w
		}
	}
	if t.IsPred() {
		if r := pureFunc(func(x []*big.Int) *big.Int { return big.NewInt(int64(x[0].Bit(k))) }, t); r != nil {
			return r
		}
	}
	_, hi := t.Bounds()
	if hi.BitLen() <= k {
		return TInt(0)
	}
	return TPred(A.internP(fmt.Sprintf("bit:%d:%s", k, t.Key()), func() *PAtom { return &PAtom{Kind: PBit, A: t, K: k} }))
}

// ---------------------------------------------------------------------------
// borrow chains

func newChain(prev *Chain, x, y *Term) *Chain {
	pk := ""
	n := 1
	a, b := x, y
	if prev != nil {
		pk = prev.key
		n = prev.N + 1
		a = prev.A.Add(x.Scale(pow2(64 * prev.N))).Recompose()
		b = prev.B.Add(y.Scale(pow2(64 * prev.N))).Recompose()
	}
	k := "chain(" + pk + ";" + x.Key() + ";" + y.Key() + ")"
	if c, ok := A.chains[k]; ok {
		return c
	}
	c := &Chain{Prev: prev, X: x, Y: y, N: n, A: a, B: b, key: k}
	A.chains[k] = c
	return c
}

// Sub64 models bits.Sub64(x, y, borrow): it returns the difference word and the borrow-out (0/1 term).
func Sub64(x, y, bin *Term) (diff, bout *Term) {
	var prev *Chain
	ok := false
	if c, isC := bin.IsConst(); isC && c.Sign() == 0 {
		ok = true
	} else if p := bin.SinglePred(); p != nil {
		if ch, has := A.borrow[p]; has {
			prev, ok = ch, true
		}
	}
	if !ok {
		if r := pureFunc(func(v []*big.Int) *big.Int {
			d := new(big.Int).Sub(v[0], v[1])
			d.Sub(d, v[2])
			return d.Mod(d, two64)
		}, x, y, bin); r != nil {
			b := pureFunc(func(v []*big.Int) *big.Int {
				d := new(big.Int).Sub(v[0], v[1])
				d.Sub(d, v[2])
				if d.Sign() < 0 {
					return big.NewInt(1)
				}
				return new(big.Int)
			}, x, y, bin)
			return r, b
		}
		d := WOp(64, "sub64.diff", x, y, bin)
		return d, BIT(WOp(64, "sub64.borrow", x, y, bin), 0)
	}
	ch := newChain(prev, x, y)
	bout = LT(ch.A, ch.B)
	if p := bout.SinglePred(); p != nil {
		A.borrow[p] = ch
	}
	// difference word: exact when no borrow can occur and there is no borrow-in
	if c, isC := ch.A.Sub(ch.B).IsConst(); isC {
		d := new(big.Int).Mod(c, pow2(64*ch.N))
		return LimbOf(TConst(d), ch.N-1), bout
	}
	diff = TAtom(A.internI("cdiff:"+ch.key, func() *IAtom {
		return &IAtom{Kind: ICDiff, Chain: ch, Lo: bigZero, Hi: mask64}
	}))
	return diff, bout
}

// Recompose merges complete groups of limb / byte / chain-difference atoms
// of one base into the base itself.  It is applied where four words are read
// as one integer and where eight bytes are read as one word.
func (t *Term) Recompose() *Term {
	changed := true
	for iter := 0; changed && iter < 64; iter++ {
		changed = false
		type grp struct {
			preds []*PAtom
			items map[int]*mon
			base  *Term
			chain *Chain
			kind  IKind
		}
		groups := map[string]*grp{}
		for _, m := range t.mons {
			if m.atom == nil {
				continue
			}
			var gk string
			var idx int
			g := &grp{preds: m.preds, items: map[int]*mon{}, kind: m.atom.Kind}
			switch m.atom.Kind {
			case ILimb:
				gk = "L" + monKey(m.preds, nil) + "|" + m.atom.T.Key()
				idx = m.atom.Idx
				g.base = m.atom.T
			case IByte:
				gk = fmt.Sprintf("B%d%s|%s", m.atom.Idx/8, monKey(m.preds, nil), m.atom.T.Key())
				idx = m.atom.Idx % 8
				g.base = m.atom.T
			case IWOp:
				// limb i of a value whose static bounds could not be shown to lie in [0, 2^256) although the value
				// does (LimbOf's contract): the four limbs recompose to the value
				if m.atom.Op != "limb" {
					continue
				}
				ix, isC := m.atom.Args[1].IsConst()
				if !isC {
					continue
				}
				gk = "W" + monKey(m.preds, nil) + "|" + m.atom.Args[0].Key()
				idx = int(ix.Int64())
				g.base = m.atom.Args[0]
				g.kind = ILimb
			case ICDiff:
				// family = root chain
				root := m.atom.Chain
				for root.Prev != nil {
					root = root.Prev
				}
				gk = "C" + monKey(m.preds, nil) + "|" + root.key
				idx = m.atom.Chain.N - 1
			default:
				continue
			}
			if groups[gk] == nil {
				groups[gk] = g
			}
			groups[gk].items[idx] = m
		}
		var gks []string
		for k := range groups {
			gks = append(gks, k)
		}
		sort.Strings(gks)
		for _, gk := range gks {
			g := groups[gk]
			switch g.kind {
			case IByte:
				if len(g.items) != 8 {
					continue
				}
				c0 := g.items[0].c
				ok := true
				for j := 0; j < 8; j++ {
					if g.items[j] == nil || new(big.Int).Mul(c0, pow2(8*j)).Cmp(g.items[j].c) != 0 {
						ok = false
					}
				}
				if !ok {
					continue
				}
				limb := g.items[0].atom.Idx / 8
				n := t.clone()
				for j := 0; j < 8; j++ {
					delete(n.mons, monKey(g.preds, g.items[j].atom))
				}
				add := LimbOf(g.base, limb)
				for _, am := range add.mons {
					n.addMon(new(big.Int).Mul(am.c, c0), mergePreds(g.preds, am.preds), am.atom)
				}
				t, changed = n, true
			case ILimb:
				if len(g.items) != 4 {
					continue
				}
				c0 := g.items[0]
				if c0 == nil {
					continue
				}
				ok := true
				for j := 0; j < 4; j++ {
					if g.items[j] == nil || new(big.Int).Mul(c0.c, pow2(64*j)).Cmp(g.items[j].c) != 0 {
						ok = false
					}
				}
				if !ok {
					continue
				}
				n := t.clone()
				for j := 0; j < 4; j++ {
					delete(n.mons, monKey(g.preds, g.items[j].atom))
				}
				for _, am := range g.base.mons {
					n.addMon(new(big.Int).Mul(am.c, c0.c), mergePreds(g.preds, am.preds), am.atom)
				}
				t, changed = n, true
			case ICDiff:
				// need a complete family 0..N-1 where item k is the chain of length k+1 and each is the prefix of the next
				nl := len(g.items)
				top := g.items[nl-1]
				if top == nil || g.items[0] == nil {
					continue
				}
				ok := true
				ch := top.atom.Chain
				for j := nl - 1; j >= 0; j-- {
					it := g.items[j]
					if it == nil || it.atom.Chain != ch || new(big.Int).Mul(g.items[0].c, pow2(64*j)).Cmp(it.c) != 0 {
						ok = false
						break
					}
					ch = ch.Prev
				}
				if !ok || ch != nil {
					continue
				}
				full := top.atom.Chain
				c0 := g.items[0].c
				n := t.clone()
				for j := 0; j < nl; j++ {
					delete(n.mons, monKey(g.preds, g.items[j].atom))
				}
				// A - B + 2^(64N) * LT(A,B)
				ws := full.A.Sub(full.B).Add(LT(full.A, full.B).Scale(pow2(64 * full.N)))
				for _, am := range ws.mons {
					n.addMon(new(big.Int).Mul(am.c, c0), mergePreds(g.preds, am.preds), am.atom)
				}
				t, changed = n.norm(), true
			}
			if changed {
				break
			}
		}
	}
	return t
}

// LiftLimbs reads words w[0..n) as the integer sum w[i]*2^(64i).
func LiftLimbs(w []*Term) *Term {
	t := TInt(0)
	for i, x := range w {
		t = t.Add(x.Scale(pow2(64 * i)))
	}
	return t.Recompose()
}

// norm applies the canonicalising rewrites on predicate monomials:
// idempotence is structural; here complete groups of limb equalities are
// merged into one whole-value equality.
func (t *Term) norm() *Term {
	t = t.dropLtEq()
	need := false
	for _, m := range t.mons {
		n := 0
		for _, p := range m.preds {
			if p.Kind == PEQZ {
				n++
			}
		}
		if n >= 2 {
			need = true
			break
		}
	}
	if !need {
		return t
	}
	out := newTerm()
	for _, m := range t.mons {
		ps, extra := groupLimbEqs(m.preds)
		// thirty-two equalities name[i] = c_i of the bytes of one 32-byte input: the equality of its big-endian value
		if ps3, extra3 := groupSymByteEqs(ps); extra3 != nil {
			ps = ps3
			if extra == nil {
				extra = extra3
			} else {
				extra = extra.Mul(extra3)
			}
		}
		// thirty-two byte equalities of the same pair of 256-bit integers (a byte-wise comparison of serialised values)
		if ps2, extra2 := groupEqs(ps, IByte, 32, 8); extra2 != nil {
			ps = ps2
			if extra == nil {
				extra = extra2
			} else {
				extra = extra.Mul(extra2)
			}
		}
		if extra == nil {
			out.addMon(m.c, m.preds, m.atom)
			continue
		}
		// monomial = c * ps * extra(0/1 term) * atom
		base := newTerm()
		base.addMon(m.c, ps, m.atom)
		prod := base.Mul(extra)
		for _, pm := range prod.mons {
			out.addMon(pm.c, pm.preds, pm.atom)
		}
	}
	return out
}

// limbEq decomposes an EQZ atom of the form limb_i(I) - limb_i(J) (J may be
// constant) and returns (I, J-or-nil, constant limb, i).
func limbEq(p *PAtom) (base *Term, other *Term, k *big.Int, idx int, ok bool) {
	return unitEq(p, ILimb)
}

// unitEq is limbEq for limbs (ILimb) or bytes (IByte).
func unitEq(p *PAtom, kind IKind) (base *Term, other *Term, k *big.Int, idx int, ok bool) {
	if p.Kind != PEQZ {
		return
	}
	var limbs []*mon
	for _, m := range p.A.mons {
		if len(m.preds) > 0 {
			return
		}
		if m.atom == nil {
			k = m.c
			continue
		}
		if kind == ILimb && m.atom.Kind == IWOp && m.atom.Op == "limb" && len(p.A.mons) == 1 && m.c.CmpAbs(bigOne) == 0 {
			// limb i of an integer that may be negative (two's complement, 256 bits): only "all four limbs are
			// zero" is grouped, and only when |T| < 2^256 (then T = 0 mod 2^256 means T = 0)
			t := m.atom.Args[0]
			lo, hi := t.Bounds()
			ix, isC := m.atom.Args[1].IsConst()
			if isC && lo.CmpAbs(pow2(256)) < 0 && hi.CmpAbs(pow2(256)) < 0 {
				return t, nil, new(big.Int), int(ix.Int64()), true
			}
			return
		}
		if m.atom.Kind != kind || m.c.CmpAbs(bigOne) != 0 {
			return
		}
		limbs = append(limbs, m)
	}
	switch {
	case len(limbs) == 1 && len(p.A.mons) <= 2:
		kk := new(big.Int)
		if k != nil {
			kk.Set(k)
		}
		if limbs[0].c.Sign() > 0 {
			kk.Neg(kk)
		}
		if kk.Sign() < 0 {
			return
		}
		return limbs[0].atom.T, nil, kk, limbs[0].atom.Idx, true
	case len(limbs) == 2 && len(p.A.mons) == 2 && limbs[0].c.Sign() != limbs[1].c.Sign() && limbs[0].atom.Idx == limbs[1].atom.Idx:
		a, b := limbs[0].atom, limbs[1].atom
		if a.T.Key() > b.T.Key() {
			a, b = b, a
		}
		return a.T, b.T, nil, a.Idx, true
	}
	return
}

// groupLimbEqs finds four limb equalities of the same pair of 256-bit
// integers among preds and replaces them by EQZ(I-J).
func groupLimbEqs(preds []*PAtom) (rest []*PAtom, extra *Term) {
	return groupEqs(preds, ILimb, 4, 64)
}

// groupEqs finds n unit (limb or byte) equalities of the same pair of integers of n·width bits among preds and
// replaces them by the equality of the integers.
func groupEqs(preds []*PAtom, kind IKind, n int, width uint) (rest []*PAtom, extra *Term) {
	type fam struct {
		idx   map[int]*PAtom
		base  *Term
		other *Term
		ks    map[int]*big.Int
	}
	fams := map[string]*fam{}
	for _, p := range preds {
		b, o, k, i, ok := unitEq(p, kind)
		if !ok {
			continue
		}
		key := b.Key() + "|"
		if o != nil {
			key += o.Key()
		} else {
			key += "const"
		}
		f := fams[key]
		if f == nil {
			f = &fam{idx: map[int]*PAtom{}, base: b, other: o, ks: map[int]*big.Int{}}
			fams[key] = f
		}
		f.idx[i] = p
		f.ks[i] = k
	}
	var keys []string
	for k := range fams {
		keys = append(keys, k)
	}
	sort.Strings(keys)
	for _, key := range keys {
		f := fams[key]
		if len(f.idx) != n {
			continue
		}
		complete := true
		for i := 0; i < n; i++ {
			if f.idx[i] == nil {
				complete = false
			}
		}
		if !complete {
			continue
		}
		drop := map[*PAtom]bool{}
		for _, p := range f.idx {
			drop[p] = true
		}
		for _, p := range preds {
			if !drop[p] {
				rest = append(rest, p)
			}
		}
		other := f.other
		if other == nil {
			kk := new(big.Int)
			for i := 0; i < n; i++ {
				kk.Add(kk, new(big.Int).Lsh(f.ks[i], width*uint(i)))
			}
			other = TConst(kk)
		}
		e := EQZ(f.base.Sub(other))
		// there may be another complete family among the rest
		r2, e2 := groupEqs(rest, kind, n, width)
		if e2 != nil {
			return r2, e.Mul(e2)
		}
		return rest, e
	}
	return preds, nil
}

// completeChain reports whether args are exactly the difference words of all
// prefixes of one borrow chain (the whole multi-limb difference) and returns that chain.
func completeChain(args []*Term) *Chain {
	byN := map[int]*Chain{}
	for _, x := range args {
		a := x.SingleAtom()
		if a == nil || a.Kind != ICDiff {
			return nil
		}
		if _, dup := byN[a.Chain.N]; dup {
			return nil
		}
		byN[a.Chain.N] = a.Chain
	}
	top := byN[len(args)]
	if top == nil {
		return nil
	}
	ch := top
	for n := len(args); n >= 1; n-- {
		if byN[n] != ch {
			return nil
		}
		ch = ch.Prev
	}
	if ch != nil {
		return nil
	}
	return top
}

// zeroSet returns the atoms that [e = 0] forces to zero when e is a sum of non-negative atoms with positive
// coefficients (nil otherwise).
func zeroSet(e *Term) map[*IAtom]bool {
	zs := map[*IAtom]bool{}
	for _, m := range e.mons {
		if m.atom == nil || len(m.preds) > 0 || m.c.Sign() <= 0 || m.atom.Lo.Sign() < 0 {
			return nil
		}
		zs[m.atom] = true
	}
	if len(zs) == 0 {
		return nil
	}
	return zs
}

// symZeroSet: e is a positive combination of plain non-negative symbols.
func symZeroSet(e *Term) bool {
	if zeroSet(e) == nil {
		return false
	}
	for _, m := range e.mons {
		if m.atom.Kind != ISym {
			return false
		}
	}
	return true
}

// valueUnder returns the constant value of d where [e = 0] holds, if that determines it: either e forces every atom
// of d to zero, or d = α·e + β.
func valueUnder(d, e *Term) (*big.Int, bool) {
	if zs := zeroSet(e); zs != nil {
		r := new(big.Int)
		for _, m := range d.mons {
			if m.atom == nil && len(m.preds) == 0 {
				r.Add(r, m.c)
				continue
			}
			if m.atom != nil && zs[m.atom] {
				continue
			}
			return residueUnder(d, e)
		}
		return r, true
	}
	return residueUnder(d, e)
}

// dropLtEq applies the relations between comparison atoms inside one monomial: [A < B]·[A = B] = 0; under [E = 0] a
// test [E' = 0] or [A < B] whose operand is determined (valueUnder) is replaced by its value.
func (t *Term) dropLtEq() *Term {
	has := false
	for _, m := range t.mons {
		if len(m.preds) >= 2 {
			for _, p := range m.preds {
				if p.Kind == PLT || p.Kind == PEQZ {
					has = true
				}
			}
		}
	}
	if !has {
		return t
	}
	out := newTerm()
	changed := false
	for _, m := range t.mons {
		drop := false
		keep := append([]*PAtom{}, m.preds...)
		remove := func(q *PAtom) {
			for i, k := range keep {
				if k == q {
					keep = append(append([]*PAtom{}, keep[:i]...), keep[i+1:]...)
					return
				}
			}
		}
		for _, p := range m.preds {
			if drop {
				break
			}
			switch p.Kind {
			case PLT:
				eq := EQ(p.A, p.B).SinglePred()
				if eq == nil {
					continue
				}
				for _, q := range m.preds {
					if q == eq {
						drop = true
					}
				}
			case PEQZ:
				for _, q := range m.preds {
					if q == p {
						continue
					}
					switch q.Kind {
					case PEQZ:
						if v, ok := valueUnder(q.A, p.A); ok {
							if v.Sign() != 0 {
								drop = true
							} else {
								remove(q)
								changed = true
							}
						}
					case PLT:
						if beta, ok := valueUnder(q.B.Sub(q.A), p.A); ok {
							if beta.Sign() > 0 {
								remove(q)
								changed = true
							} else {
								drop = true
							}
						}
					}
				}
			}
		}
		if drop {
			changed = true
			continue
		}
		out.addMon(m.c, keep, m.atom)
	}
	if !changed {
		return t
	}
	return out
}

// residueUnder returns β when d = α·e + β for constants α, β (the value of d where e = 0).
func residueUnder(d, e *Term) (*big.Int, bool) {
	var lead *mon
	for _, m := range e.sortedMons() {
		if m.atom != nil || len(m.preds) > 0 {
			lead = m
			break
		}
	}
	if lead == nil {
		return nil, false
	}
	var dc *big.Int
	for _, m := range d.mons {
		if m.atom == lead.atom && len(m.preds) == len(lead.preds) {
			same := true
			for i := range m.preds {
				if m.preds[i] != lead.preds[i] {
					same = false
				}
			}
			if same {
				dc = m.c
			}
		}
	}
	if dc == nil {
		return nil, false
	}
	alpha, rem := new(big.Int).QuoRem(dc, lead.c, new(big.Int))
	if rem.Sign() != 0 {
		return nil, false
	}
	r := d.Sub(e.Scale(alpha))
	return r.IsConst()
}

// TrichoNorm rewrites every top-level [A < B] whose operands are in non-canonical order as 1 - [B < A] - [A = B]
// (exactly one of the three holds), so that two spellings of one comparison have one normal form.
func TrichoNorm(t *Term) *Term {
	out := TInt(0)
	for _, m := range t.mons {
		q := TConst(m.c)
		for _, p := range m.preds {
			f := TPred(p)
			if p.Kind == PLT && p.A.Key() > p.B.Key() {
				_, c1 := p.A.IsConst()
				_, c2 := p.B.IsConst()
				if !c1 && !c2 {
					f = TInt(1).Sub(LT(p.B, p.A)).Sub(EQ(p.A, p.B))
				}
			}
			q = q.Mul(f)
		}
		if m.atom != nil {
			q = q.Mul(TAtom(m.atom))
		}
		out = out.Add(q)
	}
	return out.norm()
}

// eqzSmallSym decides [t = 0] for a term built with word operations over ONE symbol of small range (a byte) by
// evaluating t at every value of the symbol: the result is the disjunction of the (mutually exclusive) [sym = v].
func eqzSmallSym(t *Term) *Term {
	var sym *IAtom
	hasOp := false
	ok := true
	var scanT func(t *Term)
	scanA := func(a *IAtom) {
		switch a.Kind {
		case ISym:
			if sym != nil && sym != a {
				ok = false
			}
			sym = a
		case IWOp:
			hasOp = true
			switch a.Op {
			case "and", "or", "xor", "shr", "shl", "trunc":
				for _, x := range a.Args {
					scanT(x)
				}
			default:
				ok = false
			}
		default:
			ok = false
		}
	}
	scanT = func(t *Term) {
		for _, m := range t.mons {
			if len(m.preds) > 0 {
				ok = false
			}
			if m.atom != nil && ok {
				scanA(m.atom)
			}
		}
	}
	scanT(t)
	if !ok || !hasOp || sym == nil || !sym.Hi.IsInt64() || !sym.Lo.IsInt64() || sym.Hi.Int64()-sym.Lo.Int64() > 255 {
		return nil
	}
	var eval func(t *Term, v *big.Int) *big.Int
	eval = func(t *Term, v *big.Int) *big.Int {
		sum := new(big.Int)
		for _, m := range t.mons {
			x := new(big.Int).Set(m.c)
			if a := m.atom; a != nil {
				var y *big.Int
				if a.Kind == ISym {
					y = v
				} else {
					var args []*big.Int
					for _, g := range a.Args {
						args = append(args, eval(g, v))
					}
					mask := new(big.Int).Sub(pow2(a.Idx), bigOne)
					switch a.Op {
					case "and":
						y = new(big.Int).Set(mask)
						for _, g := range args {
							y.And(y, new(big.Int).And(g, mask))
						}
					case "or":
						y = new(big.Int)
						for _, g := range args {
							y.Or(y, new(big.Int).And(g, mask))
						}
					case "xor":
						y = new(big.Int)
						for _, g := range args {
							y.Xor(y, new(big.Int).And(g, mask))
						}
					case "shr":
						y = new(big.Int).Rsh(new(big.Int).And(args[0], mask), uint(args[1].Int64()))
					case "shl":
						y = new(big.Int).And(new(big.Int).Lsh(args[0], uint(args[1].Int64())), mask)
					case "trunc":
						y = new(big.Int).And(args[0], mask)
					}
				}
				x.Mul(x, y)
			}
			sum.Add(sum, x)
		}
		return sum
	}
	var zeros []int64
	for v := sym.Lo.Int64(); v <= sym.Hi.Int64(); v++ {
		if eval(t, big.NewInt(v)).Sign() == 0 {
			zeros = append(zeros, v)
		}
	}
	if len(zeros) > 4 {
		return nil
	}
	out := TInt(0)
	for _, v := range zeros {
		out = out.Add(EQ(TAtom(sym), TInt(v)))
	}
	return out
}

// Syms collects the plain symbols a term mentions, also inside its comparison atoms and word operations.
func (t *Term) Syms() map[*IAtom]bool {
	out := map[*IAtom]bool{}
	var walkT func(t *Term)
	var walkA func(a *IAtom)
	seenT := map[*Term]bool{}
	walkA = func(a *IAtom) {
		switch a.Kind {
		case ISym:
			out[a] = true
		case ILimb, IByte, INzFold:
			walkT(a.T)
		case IWOp:
			for _, x := range a.Args {
				walkT(x)
			}
		}
	}
	walkT = func(t *Term) {
		if t == nil || seenT[t] {
			return
		}
		seenT[t] = true
		for _, m := range t.mons {
			if m.atom != nil {
				walkA(m.atom)
			}
			for _, p := range m.preds {
				walkT(p.A)
				walkT(p.B)
			}
		}
	}
	walkT(t)
	return out
}

// groupSymByteEqs: among preds, the tests [name[i] = c_i] for all 32 bytes of one named 32-byte input are replaced
// by [OS2IP(name) = OS2IP(c)] (big-endian, the reading the drivers use for 32-byte inputs).
func groupSymByteEqs(preds []*PAtom) (rest []*PAtom, extra *Term) {
	type ent struct {
		p    *PAtom
		atom *IAtom
		c    *big.Int
	}
	fams := map[string]map[int]ent{}
	for _, p := range preds {
		if p.Kind != PEQZ || len(p.A.mons) == 0 || len(p.A.mons) > 2 {
			continue
		}
		var at *IAtom
		c := new(big.Int)
		coef := new(big.Int)
		ok := true
		for _, m := range p.A.mons {
			if len(m.preds) > 0 {
				ok = false
			}
			if m.atom == nil {
				c = m.c
			} else if m.atom.Kind == ISym && at == nil && m.c.CmpAbs(bigOne) == 0 {
				at, coef = m.atom, m.c
			} else {
				ok = false
			}
		}
		if !ok || at == nil || at.Hi == nil || at.Hi.Cmp(big.NewInt(255)) != 0 {
			continue
		}
		name := BaseSym(at).Name
		lb := strings.LastIndex(name, "[")
		if lb < 0 || !strings.HasSuffix(name, "]") {
			continue
		}
		idx, err := strconv.Atoi(name[lb+1 : len(name)-1])
		if err != nil || idx < 0 || idx > 31 {
			continue
		}
		// coef*sym + c = 0  =>  sym = -c/coef
		val := new(big.Int).Neg(c)
		if coef.Sign() < 0 {
			val = new(big.Int).Set(c)
		}
		if val.Sign() < 0 || val.Cmp(big.NewInt(255)) > 0 {
			continue
		}
		fam := name[:lb]
		if fams[fam] == nil {
			fams[fam] = map[int]ent{}
		}
		fams[fam][idx] = ent{p, at, val}
	}
	var names []string
	for n := range fams {
		names = append(names, n)
	}
	sort.Strings(names)
	for _, n := range names {
		f := fams[n]
		if len(f) != 32 {
			continue
		}
		x := TInt(0)
		k := new(big.Int)
		drop := map[*PAtom]bool{}
		for i := 0; i < 32; i++ {
			e := f[i]
			w := pow2(8 * (31 - i))
			x = x.Add(TAtom(e.atom).Scale(w))
			k.Add(k, new(big.Int).Mul(e.c, w))
			drop[e.p] = true
		}
		for _, p := range preds {
			if !drop[p] {
				rest = append(rest, p)
			}
		}
		e := EQZ(x.Sub(TConst(k)))
		r2, e2 := groupSymByteEqs(rest)
		if e2 != nil {
			return r2, e.Mul(e2)
		}
		return rest, e
	}
	return preds, nil
}

// SameLex decides got = want as Boolean functions of the eight limb comparisons of the 256-bit integers a and b:
// every predicate atom of either term must be a limb comparison [a_i < b_i], [b_i < a_i], [a_i = b_i], the
// whole-value equality eq, or the whole-value comparison [a < b] / [b < a]; both terms are evaluated under all
// consistent outcomes of the limb comparisons.
func SameLex(got, want, a, b, eq *Term) bool {
	if !got.IsPred() || !want.IsPred() {
		return false
	}
	type role struct {
		kind string // "lt", "gt", "eq", "EQ", "LT", "GT"
		i    int
	}
	roles := map[*PAtom]role{}
	for i := 0; i < 4; i++ {
		la, lb := LimbOf(a, i), LimbOf(b, i)
		if p := LT(la, lb).SinglePred(); p != nil {
			roles[p] = role{"lt", i}
		}
		if p := LT(lb, la).SinglePred(); p != nil {
			roles[p] = role{"gt", i}
		}
		if p := EQ(la, lb).SinglePred(); p != nil {
			roles[p] = role{"eq", i}
		}
	}
	if eq != nil {
		if p := eq.SinglePred(); p != nil {
			roles[p] = role{"EQ", 0}
		}
	}
	if p := LT(a, b).SinglePred(); p != nil {
		roles[p] = role{"LT", 0}
	}
	if p := LT(b, a).SinglePred(); p != nil {
		roles[p] = role{"GT", 0}
	}
	atoms := append(got.PredAtoms(), want.PredAtoms()...)
	for _, p := range atoms {
		if _, ok := roles[p]; !ok {
			return false
		}
	}
	// outcome of limb i: 0 less, 1 equal, 2 greater
	for code := 0; code < 81; code++ {
		var o [4]int
		c := code
		for i := 0; i < 4; i++ {
			o[i] = c % 3
			c /= 3
		}
		allEq := true
		lex := 1 // whole outcome, decided by the most significant differing limb
		for i := 3; i >= 0; i-- {
			if o[i] != 1 {
				allEq = false
				lex = o[i]
				break
			}
		}
		as := map[*PAtom]bool{}
		for p, rl := range roles {
			switch rl.kind {
			case "lt":
				as[p] = o[rl.i] == 0
			case "gt":
				as[p] = o[rl.i] == 2
			case "eq":
				as[p] = o[rl.i] == 1
			case "EQ":
				as[p] = allEq
			case "LT":
				as[p] = lex == 0
			case "GT":
				as[p] = lex == 2
			}
		}
		if got.evalPure(as).Cmp(want.evalPure(as)) != 0 {
			return false
		}
	}
	return true
}
