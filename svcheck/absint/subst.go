package absint

import "math/big"

// Subst substitutes a truth value for a predicate atom everywhere, also
// inside the arguments of atoms (Canon(·), BIT(·,k), ISZ(·), FE(·) …),
// re-normalising on the way up.
type Subst struct {
	Atom   *PAtom
	Val    bool
	Var    *FVar // optional: a free field symbol replaced by the constant VarVal
	VarVal *Poly
	IBind  map[*IAtom]*Term // optional: integer atoms replaced by terms (bindings of symbolic integers)
	PBind  map[*PAtom]*Term // optional: free boolean symbols replaced by 0/1 terms (renaming)
	Assume map[*PAtom]bool  // optional: several atoms fixed at once (all the assumptions of a path in one pass)
	Chains bool             // also rebuild borrow-chain difference words (renaming)
	tm     map[*Term]*Term
	pm     map[*Poly]*Poly
	am     map[*PAtom]*Term
	im     map[*IAtom]*Term
}

func NewSubst(atom *PAtom, val bool) *Subst {
	return &Subst{Atom: atom, Val: val, tm: map[*Term]*Term{}, pm: map[*Poly]*Poly{}, am: map[*PAtom]*Term{}, im: map[*IAtom]*Term{}}
}

// SubstAtomOf returns the single predicate atom of a 0/1 term (nil if it is not one atom).
func SubstAtomOf(t *Term) *PAtom { return t.SinglePred() }

func (s *Subst) Term(t *Term) *Term {
	if r, ok := s.tm[t]; ok {
		return r
	}
	out := TInt(0)
	tickN(len(t.mons))
	for _, m := range t.mons {
		q := TConst(m.c)
		for _, p := range m.preds {
			q = q.Mul(s.patom(p))
		}
		if m.atom != nil {
			r := q.Mul(s.iatom(m.atom))
			if r == nil {
				r = q // cannot happen: q is pure
			}
			q = r
		}
		out = out.Add(q)
	}
	s.tm[t] = out
	return out
}

func (s *Subst) patom(p *PAtom) *Term {
	if p == s.Atom {
		return boolTerm(s.Val)
	}
	if r, ok := s.am[p]; ok {
		return r
	}
	var r *Term
	if b, ok := s.PBind[p]; ok {
		s.am[p] = b
		return b
	}
	if v, ok := s.Assume[p]; ok {
		r = boolTerm(v)
		s.am[p] = r
		return r
	}
	defer func() {
		// an atom that, rebuilt from its substituted arguments, is itself one of the fixed atoms
		if r != nil && len(s.Assume) > 0 {
			if pa := r.SinglePred(); pa != nil {
				if v, ok := s.Assume[pa]; ok {
					s.am[p] = boolTerm(v)
				}
			}
		}
	}()
	switch p.Kind {
	case PLT:
		r = LT(s.Term(p.A), s.Term(p.B))
	case PEQZ:
		r = EQZ(s.Term(p.A))
	case PISZ:
		r = ISZ(s.Poly(p.V))
	case PBit:
		r = BIT(s.Term(p.A), p.K)
	default:
		r = TPred(p)
	}
	s.am[p] = r
	return r
}

func (s *Subst) iatom(a *IAtom) *Term {
	if r, ok := s.im[a]; ok {
		return r
	}
	var r *Term
	if b, ok := s.IBind[a]; ok && b.SingleAtom() != a {
		r = s.Term(b)
		s.im[a] = r
		return r
	}
	switch a.Kind {
	case ICanon:
		r = CanonOf(a.F, s.Poly(a.V))
	case IMont:
		r = MontOf(a.F, s.Poly(a.V))
	case ILimb:
		r = LimbOf(s.Term(a.T), a.Idx)
	case IByte:
		r = ByteOf(s.Term(a.T), a.Idx)
	case ICDiff:
		if s.Chains {
			var links []*Chain
			for c := a.Chain; c != nil; c = c.Prev {
				links = append([]*Chain{c}, links...)
			}
			bin := TInt(0)
			for _, l := range links {
				r, bin = Sub64(s.Term(l.X), s.Term(l.Y), bin)
			}
		} else {
			r = TAtom(a)
		}
	case INzFold:
		r = NzFold(s.Term(a.T))
	case IWOp:
		args := make([]*Term, len(a.Args))
		for i, x := range a.Args {
			args[i] = s.Term(x)
		}
		r = WOp(a.Idx, a.Op, args...)
	default:
		r = TAtom(a)
	}
	s.im[a] = r
	return r
}

func (s *Subst) Poly(p *Poly) *Poly {
	if r, ok := s.pm[p]; ok {
		return r
	}
	out := newPoly(p.F)
	tickN(len(p.mons))
	for _, m := range p.mons {
		tickN(1 + out.NumTerms()/64)
		q := PolyConst(p.F, m.c)
		for _, x := range m.vars {
			var b *Poly
			switch x.v.Kind {
			case FDef:
				b = s.Poly(x.v.Q).Pow(x.e)
			case FEmb:
				b = EmbTerm(p.F, s.Term(x.v.T)).Pow(x.e)
			case FPV:
				b = EmbPred(p.F, s.patom(x.v.P))
			case FExp:
				b = ExpVar(p.F, s.Poly(x.v.Q), s.Term(x.v.T)).Pow(x.e)
			default:
				if s.Var != nil && x.v == s.Var {
					b = s.VarVal.Pow(x.e)
				} else {
					b = varPow(p.F, x.v, x.e)
				}
			}
			q = q.Mul(b)
		}
		for _, qm := range q.mons {
			out.addMon(qm.c, qm.vars)
		}
	}
	s.pm[p] = out
	return out
}

var _ = big.NewInt

// NewVarSubst substitutes the constant c for the free field symbol v.
func NewVarSubst(v *FVar, c *Poly) *Subst {
	s := NewSubst(nil, false)
	s.Var, s.VarVal = v, c
	return s
}

// linearVarEq recognises q = c1*x + c0 (x a free symbol) and returns x and the root -c0/c1.
func linearVarEq(q *Poly) (*FVar, *Poly) {
	if len(q.mons) == 0 || len(q.mons) > 2 {
		return nil, nil
	}
	var v *FVar
	var c1 *big.Int
	c0 := new(big.Int)
	for _, m := range q.mons {
		switch len(m.vars) {
		case 0:
			c0 = m.c
		case 1:
			if m.vars[0].v.Kind != FSym || m.vars[0].e.Cmp(bigOne) != 0 || v != nil {
				return nil, nil
			}
			v, c1 = m.vars[0].v, m.c
		default:
			return nil, nil
		}
	}
	if v == nil {
		return nil, nil
	}
	r := new(big.Int).Mul(new(big.Int).Neg(c0), new(big.Int).ModInverse(c1, q.F.M))
	return v, PolyConst(q.F, r)
}
