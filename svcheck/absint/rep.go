package absint

import (
	"math/big"
)

// limbOfRep returns limb i of a representation value.
func (it *Interp) limbOfRep(r *Rep, i int) Value {
	return termValue(LimbOf(r.T, i))
}

// materialise replaces the whole-array value of c by its four limbs.
func (it *Interp) materialise(c *Cell) {
	if c.Rep == nil {
		return
	}
	r := c.Rep
	for i, k := range c.Kids {
		it.setCell(k, it.limbOfRep(r, i))
	}
	it.setRep(c, nil)
}

// readInt reads a [n]uint64 cell as the integer sum limb_i 2^(64i).
func (it *Interp) readInt(c *Cell) (*Term, bool) {
	if c.Rep != nil {
		return c.Rep.T, true
	}
	var ws []*Term
	for _, k := range c.Kids {
		v := k.Val
		if k.Rep != nil {
			return nil, false
		}
		t, ok := asTerm(v)
		if !ok {
			return nil, false
		}
		ws = append(ws, t)
	}
	return ExpandWords(LiftLimbs(ws)), true
}

// provenBelow reports whether 0 <= t < m on every assignment of its predicate atoms.
func provenBelow(t *Term, m *big.Int) bool {
	lo, hi := t.Bounds()
	if lo.Sign() >= 0 && hi.Cmp(m) < 0 {
		return true
	}
	atoms := t.PredAtoms()
	if exclusiveSelect(t, m) {
		return true
	}
	if len(atoms) == 0 || len(atoms) > 8 {
		return false
	}
	for mask := 0; mask < 1<<len(atoms); mask++ {
		as := map[*PAtom]bool{}
		for i, p := range atoms {
			as[p] = mask>>i&1 == 1
		}
		s := t.substAll(as)
		lo, hi := s.Bounds()
		lo, hi = new(big.Int).Set(lo), new(big.Int).Set(hi)
		for p, v := range as {
			if p.Kind != PLT {
				continue
			}
			// s = A + k ?
			if k, ok := s.Sub(p.A).IsConst(); ok {
				blo, bhi := p.B.Bounds()
				if v { // A < B
					if x := new(big.Int).Add(new(big.Int).Sub(bhi, bigOne), k); x.Cmp(hi) < 0 {
						hi = x
					}
				} else { // A >= B
					if x := new(big.Int).Add(blo, k); x.Cmp(lo) > 0 {
						lo = x
					}
				}
			}
			// s = B + k ?
			if k, ok := s.Sub(p.B).IsConst(); ok {
				alo, ahi := p.A.Bounds()
				if v { // B > A
					if x := new(big.Int).Add(new(big.Int).Add(alo, bigOne), k); x.Cmp(lo) > 0 {
						lo = x
					}
				} else { // B <= A
					if x := new(big.Int).Add(ahi, k); x.Cmp(hi) < 0 {
						hi = x
					}
				}
			}
		}
		if lo.Cmp(hi) > 0 {
			continue // infeasible assignment
		}
		if lo.Sign() < 0 || hi.Cmp(m) >= 0 {
			return false
		}
	}
	return true
}

// readMont reads a cell as a Montgomery-domain field element: the value is I * R^-1 mod m.
func (it *Interp) readMont(f *Field, c *Cell) (*Poly, string) {
	t, ok := it.readInt(c)
	if !ok {
		return nil, "operand is not a known integer"
	}
	t = it.ApplyTerm(t)
	if a := t.SingleAtom(); a != nil && a.Kind == IMont && a.F == f {
		return a.V, ""
	}
	if len(t.mons) > 16 {
		t = CompleteFamilies(t)
	}
	if !provenBelow(t, f.M) {
		return nil, "operand " + t.String() + " is not provably below the modulus (Fiat precondition)"
	}
	return EmbTerm(f, t).ScaleC(f.RInv), ""
}

// ReadMont is readMont for drivers.
func (it *Interp) ReadMont(f *Field, c *Cell) (*Poly, string) { return it.readMont(f, c) }

// ReadInt is readInt for drivers.
func (it *Interp) ReadInt(c *Cell) (*Term, bool) {
	t, ok := it.readInt(c)
	if ok {
		t = it.ApplyTerm(t)
	}
	return t, ok
}

// SetMont initialises a limb-array cell with the Montgomery representation of v (driver set-up; not journaled).
func (it *Interp) SetMont(f *Field, c *Cell, v *Poly) { c.Rep = &Rep{MontOf(f, v)} }

// SetInt initialises a limb-array cell with the integer term t.
func (it *Interp) SetInt(c *Cell, t *Term) { c.Rep = &Rep{t} }

// Mark returns the current journal position.
func (it *Interp) Mark() int { return len(it.journal) }

// StoreMont stores the Montgomery representation of v into a limb-array cell (journaled: usable inside joins).
func (it *Interp) StoreMont(f *Field, c *Cell, v *Poly) {
	if c.Up != nil && c.Up.Rep != nil {
		it.materialise(c.Up)
	}
	it.setRep(c, &Rep{MontOf(f, v)})
}

// Abort stops the analysis of the current path with a reason.
func (it *Interp) Abort(reason string) { panic(&abort{reason}) }

// LoadAgg returns the content of a cell as an aggregate value (a by-value argument).
func (it *Interp) LoadAgg(c *Cell) Value { return Agg{it.snapshot(c)} }

// eqFamily describes the equality tests [D = c] of one term D with constants that occur in a term.
type eqFamily struct {
	d     *IAtom
	atoms map[int64]*PAtom
}

// eqFamilies groups the top-level equality tests of t by the (single-atom) term they test.
func eqFamilies(t *Term) []*eqFamily {
	byD := map[*IAtom]*eqFamily{}
	var order []*eqFamily
	for _, p := range t.PredAtoms() {
		if p.Kind != PEQZ || len(p.A.mons) > 2 {
			continue
		}
		var d *IAtom
		k := new(big.Int)
		sign := 0
		ok := true
		for _, am := range p.A.mons {
			switch {
			case len(am.preds) > 0:
				ok = false
			case am.atom == nil:
				k = am.c
			case d == nil && new(big.Int).Abs(am.c).Cmp(bigOne) == 0:
				d, sign = am.atom, am.c.Sign()
			default:
				ok = false
			}
		}
		if !ok || d == nil {
			continue
		}
		v := new(big.Int).Neg(k) // k + D = 0
		if sign < 0 {
			v = k // k - D = 0
		}
		if !v.IsInt64() {
			continue
		}
		f := byD[d]
		if f == nil {
			f = &eqFamily{d: d, atoms: map[int64]*PAtom{}}
			byD[d] = f
			order = append(order, f)
		}
		f.atoms[v.Int64()] = p
	}
	return order
}

// CompleteFamilies: when t tests one small-range term D against every value of its range (a constant-time table
// look-up over a window of bits: one masked move per table entry), exactly one of the tests holds.  The test of the
// largest value is replaced by the complement of the others, which makes "the previous content survives if no entry
// matches" vanish.
func CompleteFamilies(t *Term) *Term {
	var sub *Subst
	for _, f := range eqFamilies(t) {
		if !f.d.Lo.IsInt64() || !f.d.Hi.IsInt64() {
			continue
		}
		lo, hi := f.d.Lo.Int64(), f.d.Hi.Int64()
		if hi-lo < 1 || hi-lo > 31 {
			continue
		}
		// D takes exactly one value of its range: the test of the largest one, where present, is the complement of
		// all the others (whether or not those occur in t)
		if f.atoms[hi] == nil {
			continue
		}
		rest := TInt(1)
		for v := lo; v < hi; v++ {
			rest = rest.Sub(EQZ(TInt(v).Sub(TAtom(f.d))))
		}
		if sub == nil {
			sub = NewSubst(nil, false)
			sub.PBind = map[*PAtom]*Term{}
		}
		sub.PBind[f.atoms[hi]] = rest
	}
	if sub == nil {
		return t
	}
	return sub.Term(t)
}

// exclusiveSelect: t is a table look-up over the tests [D = c_j] of one term D (at most one of them holds): in every
// case - exactly one test true, or none - the remaining value lies in [0, m).
func exclusiveSelect(t *Term, m *big.Int) bool {
	fams := eqFamilies(t)
	if len(fams) != 1 || len(fams[0].atoms) < 2 || len(fams[0].atoms) > 64 {
		return false
	}
	f := fams[0]
	// every predicate of t must belong to the family
	inFam := map[*PAtom]bool{}
	for _, p := range f.atoms {
		inFam[p] = true
	}
	for _, p := range t.PredAtoms() {
		if !inFam[p] {
			return false
		}
	}
	cases := []*PAtom{nil}
	for _, p := range f.atoms {
		cases = append(cases, p)
	}
	for _, on := range cases {
		as := map[*PAtom]bool{}
		for _, p := range f.atoms {
			as[p] = p == on
		}
		lo, hi := t.substAll(as).Bounds()
		if lo.Sign() < 0 || hi.Cmp(m) >= 0 {
			return false
		}
	}
	return true
}

// DigitBasis rewrites the bit atoms BIT(X, i) of want into the basis of the digit tests that occur in coef: where coef
// tests a window D = (limb_q(X) >> s) & (2^w - 1) of X against constants, BIT(X, 64q+s+b) = Σ_{v with bit b} [D = v],
// with the test of the window's largest value written as the complement of the others (exactly one value holds).
func DigitBasis(want, coef *Term) *Term {
	sub := NewSubst(nil, false)
	sub.PBind = map[*PAtom]*Term{}
	for _, f := range eqFamilies(coef) {
		d := f.d
		if d.Kind != IWOp || !d.Hi.IsInt64() || d.Lo.Sign() != 0 {
			continue
		}
		hi := d.Hi.Int64()
		w := 0
		for (int64(1)<<uint(w))-1 < hi {
			w++
		}
		if w < 1 || w > 5 || (int64(1)<<uint(w))-1 != hi {
			continue
		}
		// D = and(inner, 2^w-1) or inner itself when the shift leaves exactly w bits
		inner := TAtom(d)
		if d.Op == "and" && len(d.Args) == 2 {
			var other *Term
			for i, a := range d.Args {
				if k, ok := a.IsConst(); ok && k.IsInt64() && k.Int64() == hi {
					other = d.Args[1-i]
				}
			}
			if other == nil {
				continue
			}
			inner = other
		}
		shift := 0
		base := inner
		if a := inner.SingleAtom(); a != nil && a.Kind == IWOp && a.Op == "shr" && len(a.Args) == 2 {
			k, ok := a.Args[1].IsConst()
			if !ok || !k.IsInt64() {
				continue
			}
			shift = int(k.Int64())
			base = a.Args[0]
		}
		la := base.SingleAtom()
		if la == nil || (la.Kind != ILimb && la.Kind != IByte) {
			continue
		}
		unit, at := 64, 64*la.Idx
		if la.Kind == IByte {
			unit, at = 8, 8*la.Idx
		}
		if d.Op == "shr" && shift+w != unit {
			continue // an unmasked shift is a window only at the top of the limb / byte
		}
		if d.Op != "shr" && d.Op != "and" {
			continue
		}
		if shift+w > unit {
			continue
		}
		pos := at + shift
		ev := func(v int64) *Term { return EQZ(TInt(v).Sub(TAtom(d))) }
		top := TInt(1)
		for v := int64(0); v < hi; v++ {
			top = top.Sub(ev(v))
		}
		for b := 0; b < w; b++ {
			bit := BIT(la.T, pos+b)
			pa := bit.SinglePred()
			if pa == nil {
				continue
			}
			r := TInt(0)
			for v := int64(0); v <= hi; v++ {
				if v>>uint(b)&1 == 0 {
					continue
				}
				if v == hi {
					r = r.Add(top)
				} else {
					r = r.Add(ev(v))
				}
			}
			sub.PBind[pa] = r
		}
	}
	if len(sub.PBind) == 0 {
		return want
	}
	return sub.Term(want)
}

// ExpandWords rewrites the word results of hand-written limb arithmetic by their defining identities,
//
//	mul64.lo(a, k)     = a·k − 2^64·mul64.hi(a, k)              (k a constant)
//	add64.sum(a, b, c) = a + b + c − 2^64·carry(a, b, c)
//
// recursively, so that an integer recomposed from such words (Σ w_i·2^(64i)) telescopes: the atoms for high words and
// carries cancel when the code is a correct multi-word product or sum, and what is left is the exact integer.
func ExpandWords(t *Term) *Term {
	bind := map[*IAtom]*Term{}
	seen := map[*IAtom]bool{}
	var scanT func(t *Term)
	scanA := func(a *IAtom) {
		if seen[a] {
			return
		}
		seen[a] = true
		if a.Kind != IWOp {
			return
		}
		for _, x := range a.Args {
			scanT(x)
		}
		switch a.Op {
		case "add64.sum":
			if len(a.Args) == 3 {
				carry := BIT(WOp(64, "add64.carry", a.Args[0], a.Args[1], a.Args[2]), 0)
				bind[a] = a.Args[0].Add(a.Args[1]).Add(a.Args[2]).Sub(carry.Scale(pow2(64)))
			}
		case "mul64.lo":
			if len(a.Args) == 2 {
				x, k := a.Args[0], a.Args[1]
				if _, isC := x.IsConst(); isC {
					x, k = k, x
				}
				if kc, isC := k.IsConst(); isC {
					bind[a] = x.Scale(kc).Sub(WOp(64, "mul64.hi", a.Args[0], a.Args[1]).Scale(pow2(64)))
				}
			}
		}
	}
	scanT = func(t *Term) {
		for _, m := range t.mons {
			if m.atom != nil {
				scanA(m.atom)
			}
		}
	}
	scanT(t)
	if len(bind) == 0 {
		return t
	}
	s := NewSubst(nil, false)
	s.IBind = bind
	return s.Term(t)
}
