package absint

import (
	"math/big"
)

// limbOfRep returns limb i of a representation value.
func (it *Interp) limbOfRep(r *Rep, i int) Value {
	return termValue(LimbOf(r.T, i))
}

// materialise replaces the whole-array value of c by its four limbs.
func (it *Interp) materialise(c *Cell) {
	if c.Rep == nil {
		return
	}
	r := c.Rep
	for i, k := range c.Kids {
		it.setCell(k, it.limbOfRep(r, i))
	}
	it.setRep(c, nil)
}

// readInt reads a [n]uint64 cell as the integer sum limb_i 2^(64i).
func (it *Interp) readInt(c *Cell) (*Term, bool) {
	if c.Rep != nil {
		return c.Rep.T, true
	}
	var ws []*Term
	for _, k := range c.Kids {
		v := k.Val
		if k.Rep != nil {
			return nil, false
		}
		t, ok := asTerm(v)
		if !ok {
			return nil, false
		}
		ws = append(ws, t)
	}
	return LiftLimbs(ws), true
}

// provenBelow reports whether 0 <= t < m on every assignment of its predicate atoms.
func provenBelow(t *Term, m *big.Int) bool {
	lo, hi := t.Bounds()
	if lo.Sign() >= 0 && hi.Cmp(m) < 0 {
		return true
	}
	atoms := t.PredAtoms()
	if exclusiveSelect(t, m) {
		return true
	}
	if len(atoms) == 0 || len(atoms) > 8 {
		return false
	}
	for mask := 0; mask < 1<<len(atoms); mask++ {
		as := map[*PAtom]bool{}
		for i, p := range atoms {
			as[p] = mask>>i&1 == 1
		}
		s := t.substAll(as)
		lo, hi := s.Bounds()
		lo, hi = new(big.Int).Set(lo), new(big.Int).Set(hi)
		for p, v := range as {
			if p.Kind != PLT {
				continue
			}
			// s = A + k ?
			if k, ok := s.Sub(p.A).IsConst(); ok {
				blo, bhi := p.B.Bounds()
				if v { // A < B
					if x := new(big.Int).Add(new(big.Int).Sub(bhi, bigOne), k); x.Cmp(hi) < 0 {
						hi = x
					}
				} else { // A >= B
					if x := new(big.Int).Add(blo, k); x.Cmp(lo) > 0 {
						lo = x
					}
				}
			}
			// s = B + k ?
			if k, ok := s.Sub(p.B).IsConst(); ok {
				alo, ahi := p.A.Bounds()
				if v { // B > A
					if x := new(big.Int).Add(new(big.Int).Add(alo, bigOne), k); x.Cmp(lo) > 0 {
						lo = x
					}
				} else { // B <= A
					if x := new(big.Int).Add(ahi, k); x.Cmp(hi) < 0 {
						hi = x
					}
				}
			}
		}
		if lo.Cmp(hi) > 0 {
			continue // infeasible assignment
		}
		if lo.Sign() < 0 || hi.Cmp(m) >= 0 {
			return false
		}
	}
	return true
}

// readMont reads a cell as a Montgomery-domain field element: the value is I * R^-1 mod m.
func (it *Interp) readMont(f *Field, c *Cell) (*Poly, string) {
	t, ok := it.readInt(c)
	if !ok {
		return nil, "operand is not a known integer"
	}
	t = it.ApplyTerm(t)
	if a := t.SingleAtom(); a != nil && a.Kind == IMont && a.F == f {
		return a.V, ""
	}
	if !provenBelow(t, f.M) {
		return nil, "operand " + t.String() + " is not provably below the modulus (Fiat precondition)"
	}
	return EmbTerm(f, t).ScaleC(f.RInv), ""
}

// ReadMont is readMont for drivers.
func (it *Interp) ReadMont(f *Field, c *Cell) (*Poly, string) { return it.readMont(f, c) }

// ReadInt is readInt for drivers.
func (it *Interp) ReadInt(c *Cell) (*Term, bool) {
	t, ok := it.readInt(c)
	if ok {
		t = it.ApplyTerm(t)
	}
	return t, ok
}

// SetMont initialises a limb-array cell with the Montgomery representation of v (driver set-up; not journaled).
func (it *Interp) SetMont(f *Field, c *Cell, v *Poly) { c.Rep = &Rep{MontOf(f, v)} }

// SetInt initialises a limb-array cell with the integer term t.
func (it *Interp) SetInt(c *Cell, t *Term) { c.Rep = &Rep{t} }

// Mark returns the current journal position.
func (it *Interp) Mark() int { return len(it.journal) }

// StoreMont stores the Montgomery representation of v into a limb-array cell (journaled: usable inside joins).
func (it *Interp) StoreMont(f *Field, c *Cell, v *Poly) {
	if c.Up != nil && c.Up.Rep != nil {
		it.materialise(c.Up)
	}
	it.setRep(c, &Rep{MontOf(f, v)})
}

// Abort stops the analysis of the current path with a reason.
func (it *Interp) Abort(reason string) { panic(&abort{reason}) }

// LoadAgg returns the content of a cell as an aggregate value (a by-value argument).
func (it *Interp) LoadAgg(c *Cell) Value { return Agg{it.snapshot(c)} }


// exclusiveSelect: t is a table look-up Σ_j [D = c_j]·v_j - every monomial carries an equality test of one and the same
// term D with a constant, the constants are pairwise different (so at most one monomial is non-zero), coefficients are
// non-negative and every v_j lies in [0, m).
func exclusiveSelect(t *Term, m *big.Int) bool {
	if len(t.mons) < 2 {
		return false
	}
	type ent struct {
		k   string
		hi  *big.Int
		key string
	}
	byConst := map[string]*big.Int{} // selector constant -> largest value selected under it
	rest := ""
	for _, mo := range t.mons {
		if mo.c.Sign() < 0 {
			return false
		}
		var sel *PAtom
		for _, p := range mo.preds {
			if p.Kind == PEQZ {
				sel = p
			}
		}
		if sel == nil {
			return false
		}
		k := new(big.Int)
		r := TInt(0)
		for _, am := range sel.A.mons {
			if am.atom == nil && len(am.preds) == 0 {
				k = am.c
			}
		}
		r = sel.A.Sub(TConst(k))
		// normalise the sign of the non-constant part so that c - D and D - c give the same key
		neg := false
		for _, am := range r.sortedMons() {
			neg = am.c.Sign() < 0
			break
		}
		if neg {
			r = r.Scale(big.NewInt(-1))
			k = new(big.Int).Neg(k)
		}
		if rest == "" {
			rest = r.Key()
		} else if rest != r.Key() {
			return false
		}
		hi := new(big.Int).Set(mo.c)
		if mo.atom != nil {
			if mo.atom.Lo.Sign() < 0 {
				return false
			}
			hi.Mul(hi, mo.atom.Hi)
		}
		ks := k.String()
		if old, ok := byConst[ks]; ok {
			// several monomials under the same selector value add up
			hi.Add(hi, old)
		}
		byConst[ks] = hi
	}
	for _, hi := range byConst {
		if hi.Cmp(m) >= 0 {
			return false
		}
	}
	return true
}
