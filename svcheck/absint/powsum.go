package absint

import (
	"fmt"
	"go/types"
	"math/big"
	"os"
	"strings"

	"golang.org/x/tools/go/ssa"
)

// Power-function summaries.  A "heavy" function of the internal packages (an
// addition chain: a loop or dozens of calls) cannot be inlined on a
// multi-term polynomial.  It is analysed once on fresh symbols α_i standing
// for the field values reachable from its arguments (with the same aliasing
// as the call); if every value it writes is a monomial c·Π α_i^e_i, that
// monomial is the summary and is applied to the actual values (a power of a
// multi-term polynomial becomes an atom, p^(m-2) the inverse).  The exponent
// is therefore computed from the chain's own code on every run.

type powOut struct {
	cell int // index of the written limb cell in walk order
	c    *big.Int
	exps map[int]*big.Int // α index -> exponent
}

type powSummary struct {
	ok   bool
	outs []powOut
	f    *Field
	// which argument the function returns (-1: none / not a pointer argument)
	retArg int
	why    string
}

func isHeavy(fn *ssa.Function, it *Interp) bool {
	if isHeavyBody(fn, it) {
		return true
	}
	// a function built on a heavy one (the chain evaluated by a table interpreter or a helper): returning nothing or a
	// pointer, one of whose callees is heavy
	if !IsInternalPkg(fn) || IsFiatLeaf(fn) || fn.Blocks == nil {
		return false
	}
	res := fn.Signature.Results()
	if res.Len() > 1 {
		return false
	}
	if res.Len() == 1 {
		if _, isP := res.At(0).Type().Underlying().(*types.Pointer); !isP {
			return false
		}
	}
	// (also a chain written with a repeated-squaring helper: the helper's loop makes it heavy, the chain calls it)
	for _, b := range fn.Blocks {
		for _, in := range b.Instrs {
			c, ok := in.(*ssa.Call)
			if !ok {
				continue
			}
			if cal := c.Call.StaticCallee(); cal != nil && cal != fn && isHeavyBody(cal, it) {
				return true
			}
		}
	}
	return false
}

func isHeavyBody(fn *ssa.Function, it *Interp) bool {
	if !IsInternalPkg(fn) || IsFiatLeaf(fn) || fn.Blocks == nil {
		return false
	}
	calls := 0
	info := it.cfg(fn)
	for _, b := range fn.Blocks {
		if info.inLoop[b] {
			return true
		}
		for _, in := range b.Instrs {
			if _, ok := in.(*ssa.Call); ok {
				calls++
			}
		}
	}
	return calls >= 30
}

func isLimbArray(t types.Type) bool {
	a, ok := t.Underlying().(*types.Array)
	if !ok || a.Len() != 4 {
		return false
	}
	b, ok := a.Elem().Underlying().(*types.Basic)
	return ok && b.Kind() == types.Uint64
}

// walker enumerates the limb-array cells reachable from argument values.
type walker struct {
	seen  map[*Cell]bool
	limbs []*Cell
	other bool // something that is not a limb array / struct / pointer was found
}

func (w *walker) cell(c *Cell) {
	if w.seen[c] {
		return
	}
	w.seen[c] = true
	if isLimbArray(c.Typ) {
		w.limbs = append(w.limbs, c)
		return
	}
	if len(c.Kids) > 0 {
		for _, k := range c.Kids {
			w.cell(k)
		}
		return
	}
	switch v := c.Val.(type) {
	case Ptr:
		w.cell(v.C)
	case Nil:
	case KInt:
		if v.V.Sign() != 0 {
			w.other = true
		}
	default:
		if _, isArr := c.Typ.Underlying().(*types.Array); isArr {
			return // zero-length array
		}
		w.other = true
	}
}

func (w *walker) value(v Value) {
	switch x := v.(type) {
	case Ptr:
		w.cell(x.C)
	case Agg:
		w.cell(x.C)
	case Nil:
	default:
		w.other = true
	}
}

// cloner deep-copies the cells reachable from argument values into fresh objects of interpreter dst.
type cloner struct {
	dst  *Interp
	memo map[*Cell]*Cell
}

func cellRoot(c *Cell) *Cell {
	r := c
	for r.Up != nil {
		r = r.Up
	}
	return r
}

func (cl *cloner) cell(c *Cell) *Cell {
	if n, ok := cl.memo[c]; ok {
		return n
	}
	root := cellRoot(c)
	if _, ok := cl.memo[root]; !ok {
		o := cl.dst.NewObject(root.Typ, "arg", true)
		cl.pair(root, o.Root)
		cl.fill(root)
	}
	if n, ok := cl.memo[c]; ok {
		return n
	}
	// a view cell (array window): clone its kids individually
	n := &Cell{Typ: c.Typ}
	cl.memo[c] = n
	for _, k := range c.Kids {
		n.Kids = append(n.Kids, cl.cell(k))
	}
	return n
}

func (cl *cloner) pair(src, dst *Cell) {
	cl.memo[src] = dst
	for i := range src.Kids {
		if i < len(dst.Kids) {
			cl.pair(src.Kids[i], dst.Kids[i])
		}
	}
}

func (cl *cloner) fill(src *Cell) {
	dst := cl.memo[src]
	if dst == nil {
		return
	}
	for i := range src.Kids {
		cl.fill(src.Kids[i])
	}
	if len(src.Kids) == 0 {
		switch v := src.Val.(type) {
		case Ptr:
			dst.Val = Ptr{cl.cell(v.C)}
		default:
			dst.Val = src.Val
		}
	}
}

func (cl *cloner) value(v Value) Value {
	switch x := v.(type) {
	case Ptr:
		return Ptr{cl.cell(x.C)}
	case Agg:
		return Agg{cl.cell(x.C)}
	}
	return v
}

// tryPowSummary applies (computing it if needed) the power summary of fn.
func (it *Interp) tryPowSummary(fn *ssa.Function, args []Value) (Value, bool) {
	if it.Cfg.Opaque || !isHeavy(fn, it) {
		return nil, false
	}
	w := &walker{seen: map[*Cell]bool{}}
	for _, a := range args {
		w.value(a)
	}
	if w.other || len(w.limbs) == 0 {
		return nil, false
	}
	f := fieldOf(fn)
	vals := make([]*Poly, len(w.limbs))
	trivial := true
	for i, c := range w.limbs {
		v, _ := it.readMont(f, c)
		if v == nil {
			return nil, false
		}
		vals[i] = v
		if v.NumTerms() > 1 {
			trivial = false
		}
	}
	if trivial {
		return nil, false // symbols and constants: inlining is exact and cheap
	}
	key := fmt.Sprintf("%p|%d|", fn, len(w.limbs))
	ids := map[*Cell]int{}
	for _, a := range args {
		key += structKey(a, ids) + ";"
	}
	sum, ok := powCache[key]
	if !ok {
		sum = it.computePowSummary(fn, args, f, len(w.limbs))
		powCache[key] = sum
	}
	if !sum.ok {
		if debugCalls {
			fmt.Fprintf(os.Stderr, "no power summary for %s: %s\n", fn, sum.why)
		}
		return nil, false
	}
	for _, o := range sum.outs {
		r := PolyConst(f, o.c)
		for ai, e := range o.exps {
			r = r.Mul(vals[ai].Pow(e))
		}
		c := w.limbs[o.cell]
		if c.Up != nil && c.Up.Rep != nil {
			it.materialise(c.Up)
		}
		it.setRep(c, &Rep{MontOf(f, r)})
	}
	it.PowApplied = append(it.PowApplied, fn)
	if sum.retArg >= 0 {
		return args[sum.retArg], true
	}
	return nil, true
}

var powCache = map[string]*powSummary{}

// PowSummaries reports the summaries computed so far.
func PowSummaries() []string {
	var out []string
	for _, s := range powCache {
		if s.ok {
			out = append(out, s.why)
		}
	}
	return out
}

func structKey(v Value, ids map[*Cell]int) string {
	switch x := v.(type) {
	case Ptr:
		return "&" + cellKey(x.C, ids)
	case Agg:
		return "v" + cellKey(x.C, ids)
	case Nil:
		return "nil"
	}
	return "?"
}

func cellKey(c *Cell, ids map[*Cell]int) string {
	if id, ok := ids[c]; ok {
		return fmt.Sprintf("#%d", id)
	}
	ids[c] = len(ids)
	if isLimbArray(c.Typ) {
		return "L"
	}
	var sb strings.Builder
	sb.WriteString("{")
	for _, k := range c.Kids {
		sb.WriteString(cellKey(k, ids))
	}
	if len(c.Kids) == 0 {
		if p, ok := c.Val.(Ptr); ok {
			sb.WriteString("&" + cellKey(p.C, ids))
		}
	}
	sb.WriteString("}")
	return sb.String()
}

func (it *Interp) computePowSummary(fn *ssa.Function, args []Value, f *Field, nlimbs int) *powSummary {
	sum := &powSummary{f: f, retArg: -1}
	sub := New(it.P, Config{Summaries: it.Cfg.Summaries})
	cl := &cloner{dst: sub, memo: map[*Cell]*Cell{}}
	targs := make([]Value, len(args))
	for i, a := range args {
		targs[i] = cl.value(a)
	}
	tw := &walker{seen: map[*Cell]bool{}}
	for _, a := range targs {
		tw.value(a)
	}
	if len(tw.limbs) != nlimbs {
		sum.why = fmt.Sprintf("argument shape could not be cloned (%d vs %d limb arrays)", len(tw.limbs), nlimbs)
		return sum
	}
	alphas := make([]*Poly, nlimbs)
	avars := make([]*FVar, nlimbs)
	for i, c := range tw.limbs {
		name := fmt.Sprintf("α%d", i)
		alphas[i] = FieldSym(f, name)
		avars[i] = SymVar(f, name)
		c.Rep = &Rep{MontOf(f, alphas[i])}
	}
	var ret Value
	failed := ""
	func() {
		defer func() {
			if e := recover(); e != nil {
				failed = DescribePanic(e)
				if failed == "" {
					panic(e)
				}
			}
		}()
		ret = sub.CallFn(fn, targs)
	}()
	if failed != "" || len(sub.Guards) > 0 {
		sum.why = "not straight-line: " + failed
		return sum
	}
	for _, e := range sub.Events {
		switch e.Kind {
		case "precond", "selector", "unmodelled", "top-branch", "bounds":
			sum.why = e.Kind + ": " + e.Msg
			return sum
		}
	}
	var desc []string
	for i, c := range tw.limbs {
		v, _ := sub.readMont(f, c)
		if v == nil {
			sum.why = "result unknown"
			return sum
		}
		if v.Equal(alphas[i]) {
			continue
		}
		if len(v.mons) != 1 {
			sum.why = "result is not a monomial in the arguments"
			return sum
		}
		for _, m := range v.mons {
			o := powOut{cell: i, c: m.c, exps: map[int]*big.Int{}}
			for _, x := range m.vars {
				idx := -1
				for ai, av := range avars {
					if av == x.v {
						idx = ai
					}
				}
				if idx < 0 {
					sum.why = "result mentions something other than the arguments"
					return sum
				}
				o.exps[idx] = x.e
				desc = append(desc, fmt.Sprintf("out%d = %s·α%d^0x%s", i, cstr(m.c), idx, x.e.Text(16)))
			}
			sum.outs = append(sum.outs, o)
		}
	}
	if len(sum.outs) == 0 {
		sum.why = "writes nothing"
		return sum
	}
	if pr, ok := ret.(Ptr); ok {
		for i, a := range targs {
			if pa, ok := a.(Ptr); ok && pa.C == pr.C {
				sum.retArg = i
			}
		}
		if sum.retArg < 0 {
			sum.why = "returns a pointer that is not an argument"
			return sum
		}
	} else if fn.Signature.Results().Len() > 0 {
		sum.why = "returns something other than one of its pointer arguments"
		return sum
	}
	sum.ok = true
	sum.why = fn.String() + ": " + strings.Join(desc, ", ")
	return sum
}

// IsHeavy reports whether fn would be summarised as a power function (an addition chain).
func IsHeavy(fn *ssa.Function) bool {
	it := &Interp{cfgs: map[*ssa.Function]*cfgInfo{}}
	return isHeavy(fn, it)
}
