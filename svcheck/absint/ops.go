package absint

import (
	"go/token"
	"go/types"
	"math"
	"math/big"

	"golang.org/x/tools/go/ssa"
)

func allOnes(w int) *big.Int { return new(big.Int).Sub(pow2(w), bigOne) }

// wNot is bitwise complement of a w-bit word: exact and linear.
func wNot(t *Term, w int) *Term { return TConst(allOnes(w)).Sub(t) }

// wNeg is two's-complement negation of a w-bit word: (x != 0)*2^w - x.
func wNeg(t *Term, w int) *Term {
	if w == 0 {
		return t.Neg()
	}
	if r := pureFunc(func(x []*big.Int) *big.Int {
		r := new(big.Int).Neg(x[0])
		return r.Mod(r, pow2(w))
	}, t); r != nil {
		return r
	}
	return NZ(t).Scale(pow2(w)).Sub(t)
}

func inRange(t *Term, w int) bool {
	lo, hi := t.Bounds()
	return lo.Sign() >= 0 && hi.Cmp(pow2(w)) < 0
}

// isMask reports whether pure-predicate term t only takes the values 0 and all-ones, and returns the 0/1 term "t is all ones".
func isMask(t *Term, w int) (*Term, bool) {
	if !t.IsPred() {
		return nil, false
	}
	ok := true
	ones := allOnes(w)
	q := interp(t.PredAtoms(), func(as map[*PAtom]bool) *Term {
		v := t.evalPure(as)
		switch {
		case v.Sign() == 0:
			return TInt(0)
		case v.Cmp(ones) == 0:
			return TInt(1)
		}
		ok = false
		return TInt(0)
	})
	if q == nil || !ok {
		return nil, false
	}
	return q, true
}

// disjoint reports whether for every assignment of the predicate atoms at least one of a, b is identically zero.
func disjoint(a, b *Term) bool {
	atoms := unionAtoms(a, b)
	if len(atoms) > 10 {
		return false
	}
	for mask := 0; mask < 1<<len(atoms); mask++ {
		as := map[*PAtom]bool{}
		for i, p := range atoms {
			as[p] = mask>>i&1 == 1
		}
		if len(a.substAll(as).mons) != 0 && len(b.substAll(as).mons) != 0 {
			return false
		}
	}
	return true
}

func bitwisePure(op token.Token, a, b *Term, w int) *Term {
	return pureFunc(func(x []*big.Int) *big.Int {
		r := new(big.Int)
		switch op {
		case token.AND:
			r.And(x[0], x[1])
		case token.OR:
			r.Or(x[0], x[1])
		case token.XOR:
			r.Xor(x[0], x[1])
		case token.AND_NOT:
			r.AndNot(x[0], x[1])
		}
		return r
	}, a, b)
}

func flatten(op string, ts ...*Term) []*Term {
	var out []*Term
	for _, t := range ts {
		if a := t.SingleAtom(); a != nil && a.Kind == IWOp && a.Op == op {
			out = append(out, a.Args...)
		} else {
			out = append(out, t)
		}
	}
	return out
}

func wAnd(a, b *Term, w int) *Term {
	if r := bitwisePure(token.AND, a, b, w); r != nil {
		return r
	}
	for i := 0; i < 2; i++ {
		if k, ok := b.IsConst(); ok {
			if k.Sign() == 0 {
				return TInt(0)
			}
			if k.Cmp(allOnes(w)) == 0 {
				return a
			}
			if k.Cmp(bigOne) == 0 {
				// x & 1, also (x >> s) & 1
				if at := a.SingleAtom(); at != nil && at.Kind == IWOp && at.Op == "shr" {
					if s, ok := at.Args[1].IsConst(); ok {
						return BIT(at.Args[0], int(s.Int64()))
					}
				}
				return BIT(a, 0)
			}
			// low-bit mask 2^k-1 of a value already in range
			if _, hi := a.Bounds(); hi.Cmp(k) <= 0 && new(big.Int).And(k, new(big.Int).Add(k, bigOne)).Sign() == 0 {
				if lo, _ := a.Bounds(); lo.Sign() >= 0 {
					return a
				}
			}
		}
		if q, ok := isMask(b, w); ok {
			if r := q.Mul(a); r != nil {
				return r
			}
		}
		a, b = b, a
	}
	if a.Equal(b) {
		return a
	}
	return WOp(w, "and", flatten("and", a, b)...)
}

func wOr(a, b *Term, w int) *Term {
	if r := bitwisePure(token.OR, a, b, w); r != nil {
		return r
	}
	if k, ok := a.IsConst(); ok && k.Sign() == 0 {
		return b
	}
	if k, ok := b.IsConst(); ok && k.Sign() == 0 {
		return a
	}
	if a.Equal(b) {
		return a
	}
	if disjoint(a, b) {
		return a.Add(b)
	}
	// bit-fields that do not overlap: or is addition
	if pa, ok := a.digits(); ok {
		if pb, ok := b.digits(); ok {
			overlap := false
			for _, x := range pa {
				for _, y := range pb {
					if x.shift < y.shift+y.width && y.shift < x.shift+x.width {
						overlap = true
					}
				}
			}
			if !overlap {
				return a.Add(b).Recompose()
			}
		}
	}
	return WOp(w, "or", flatten("or", a, b)...)
}

func wXor(a, b *Term, w int) *Term {
	if r := bitwisePure(token.XOR, a, b, w); r != nil {
		return r
	}
	if k, ok := a.IsConst(); ok && k.Sign() == 0 {
		return b
	}
	if k, ok := b.IsConst(); ok && k.Sign() == 0 {
		return a
	}
	if a.Equal(b) {
		return TInt(0)
	}
	if k, ok := b.IsConst(); ok && k.Cmp(allOnes(w)) == 0 {
		return wNot(a, w)
	}
	if k, ok := a.IsConst(); ok && k.Cmp(allOnes(w)) == 0 {
		return wNot(b, w)
	}
	// a ^ (P·(a ^ b)) with P a 0/1 predicate factor: the masked-xor form of a conditional select
	for i := 0; i < 2; i++ {
		x, m := a, b
		if i == 1 {
			x, m = b, a
		}
		// x ^ (P·x): the same form when the other operand of the swap is zero (x ^ 0 = x): P ? 0 : x
		if pf, inner := predTimesAtom(m); inner != nil && TAtom(inner).Equal(x) {
			if lo, hi := pf.Bounds(); lo.Sign() >= 0 && hi.Cmp(bigOne) <= 0 {
				if r := Ite(pf, TInt(0), x); r != nil {
					return r
				}
			}
		}
		if pf, inner := predTimesAtom(m); inner != nil && inner.Kind == IWOp && inner.Op == "xor" && len(inner.Args) == 2 {
			if lo, hi := pf.Bounds(); lo.Sign() >= 0 && hi.Cmp(bigOne) <= 0 {
				var other *Term
				if inner.Args[0].Equal(x) {
					other = inner.Args[1]
				} else if inner.Args[1].Equal(x) {
					other = inner.Args[0]
				}
				if other != nil {
					if r := Ite(pf, other, x); r != nil {
						return r
					}
				}
			}
		}
	}
	// bit ^ bit of 0/1 values
	if inRange(a, 1) && inRange(b, 1) {
		if r := PXor(a, b); r != nil {
			return r
		}
	}
	return WOp(w, "xor", a, b)
}

func wShr(a, s *Term, w int) *Term {
	k, ok := s.IsConst()
	if !ok {
		return WOp(w, "shr", a, s)
	}
	n := int(k.Int64())
	if n == 0 {
		return a
	}
	if r := pureFunc(func(x []*big.Int) *big.Int { return new(big.Int).Rsh(x[0], uint(n)) }, a); r != nil {
		return r
	}
	// (x >> k1) >> k2 = x >> (k1+k2)
	if at := a.SingleAtom(); at != nil && at.Kind == IWOp && at.Op == "shr" {
		if k1, ok := at.Args[1].IsConst(); ok {
			return wShr(at.Args[0], TInt(k1.Int64()+int64(n)), w)
		}
	}
	if n >= w {
		return TInt(0)
	}
	if n == w-1 {
		// top bit.  (u | (^u & -u)) >> 63  and  (u | -u) >> 63  are "u != 0"
		if at := a.SingleAtom(); at != nil && at.Kind == IWOp && at.Op == "or" {
			if u := nonZeroIdiom(at.Args, w); u != nil {
				return NZ(u)
			}
		}
		// (^u & (u-1)) >> 63 is "u = 0"
		if at := a.SingleAtom(); at != nil && at.Kind == IWOp && at.Op == "and" && len(at.Args) == 2 {
			for i := 0; i < 2; i++ {
				u := wNot(at.Args[i], w)
				if inRange(u, w) {
					dec := u.Sub(TInt(1)).Add(LT(u, TInt(1)).Scale(pow2(w)))
					if at.Args[1-i].Equal(dec) {
						return EQZ(u)
					}
				}
			}
		}
		return BIT(a, w-1)
	}
	if win, ok := a.window(n, w-n); ok {
		return win
	}
	// the top byte of a word: byte n/8 of the value (the conversion to uint8 that usually follows is the identity
	// on it, so this is where the byte is recognised)
	if n%8 == 0 && w-n == 8 && inRange(a, w) {
		return ByteOf(a, n/8)
	}
	return WOp(w, "shr", a, s)
}

// nonZeroIdiom recognises the operands of u | -u and u | (^u & -u); since
// or-operands are flattened, u is the or of all operands but one.
func nonZeroIdiom(args []*Term, w int) *Term {
	if len(args) < 2 {
		return nil
	}
	for i := range args {
		var rest []*Term
		for j, a := range args {
			if j != i {
				rest = append(rest, a)
			}
		}
		u := rest[0]
		if len(rest) > 1 {
			u = WOp(w, "or", rest...)
		}
		o := args[i]
		neg := wNeg(u, w)
		if o.Equal(neg) {
			return u
		}
		if at := o.SingleAtom(); at != nil && at.Kind == IWOp && at.Op == "and" && len(at.Args) == 2 {
			not := wNot(u, w)
			if (at.Args[0].Equal(not) && at.Args[1].Equal(neg)) || (at.Args[1].Equal(not) && at.Args[0].Equal(neg)) {
				return u
			}
		}
	}
	return nil
}

func wShl(a, s *Term, w int) *Term {
	k, ok := s.IsConst()
	if !ok {
		return WOp(w, "shl", a, s)
	}
	n := uint(k.Int64())
	if n == 0 {
		return a
	}
	// (x << a) << b = x << (a+b)
	if at := a.SingleAtom(); at != nil && at.Kind == IWOp && at.Op == "shl" {
		if k1, ok := at.Args[1].IsConst(); ok {
			return wShl(at.Args[0], TInt(k1.Int64()+int64(n)), w)
		}
	}
	if w > 0 && int(n) >= w {
		return TInt(0)
	}
	r := a.Scale(pow2(int(n)))
	if w == 0 || inRange(r, w) {
		return r
	}
	if p := pureFunc(func(x []*big.Int) *big.Int {
		v := new(big.Int).Lsh(x[0], n)
		return v.Mod(v, pow2(w))
	}, a); p != nil {
		return p
	}
	return WOp(w, "shl", a, s)
}

func wrapPure(t *Term, w int, signed bool) *Term {
	return pureFunc(func(x []*big.Int) *big.Int {
		r := new(big.Int).Mod(x[0], pow2(w))
		if signed && r.Cmp(pow2(w-1)) >= 0 {
			r.Sub(r, pow2(w))
		}
		return r
	}, t)
}

func fits(t *Term, w int, signed bool) bool {
	if w == 0 {
		return true
	}
	lo, hi := t.Bounds()
	if signed {
		return lo.Cmp(new(big.Int).Neg(pow2(w-1))) >= 0 && hi.Cmp(pow2(w-1)) < 0
	}
	return lo.Sign() >= 0 && hi.Cmp(pow2(w)) < 0
}

// arith normalises the exact integer result r of an arithmetic operation to the w-bit type.
func arith(r *Term, op string, w int, signed bool, a, b *Term) *Term {
	if r != nil && fits(r, w, signed) {
		return r
	}
	if r != nil {
		if p := wrapPure(r, w, signed); p != nil {
			return p
		}
	}
	return WOp(w, op, a, b)
}

func toTerm(v Value) (*Term, bool) { return asTerm(v) }

func (it *Interp) binop(op token.Token, a, b Value, operandT, resT types.Type, fn *ssa.Function, pos token.Pos) Value {
	// Top
	ta, aTop := a.(Top)
	tb, bTop := b.(Top)
	if aTop || bTop {
		r := Top{Taint: ta.Taint || tb.Taint, Why: "op on unknown"}
		_, aConst := a.(KInt)
		_, bConst := b.(KInt)
		_, aB := a.(KBool)
		_, bB := b.(KBool)
		if aTop && (bConst || bB) {
			r.Origin, r.Why = ta.Origin, ta.Why
		}
		if bTop && (aConst || aB) {
			r.Origin, r.Why = tb.Origin, tb.Why
		}
		return r
	}
	switch x := a.(type) {
	case KFloat:
		y, ok := b.(KFloat)
		if !ok {
			break
		}
		switch op {
		case token.ADD:
			return x + y
		case token.SUB:
			return x - y
		case token.MUL:
			return x * y
		case token.QUO:
			return x / y
		case token.LSS:
			return KBool(x < y)
		case token.LEQ:
			return KBool(x <= y)
		case token.GTR:
			return KBool(x > y)
		case token.GEQ:
			return KBool(x >= y)
		case token.EQL:
			return KBool(x == y)
		case token.NEQ:
			return KBool(x != y)
		}
	case KStr:
		y, ok := b.(KStr)
		if !ok {
			break
		}
		switch op {
		case token.ADD:
			return x + y
		case token.EQL:
			return KBool(x == y)
		case token.NEQ:
			return KBool(x != y)
		}
	case KBool:
		if y, ok := b.(KBool); ok {
			switch op {
			case token.EQL:
				return KBool(x == y)
			case token.NEQ:
				return KBool(x != y)
			}
		}
	}
	// arrays of words compared as a whole: equality of the integers they hold
	if op == token.EQL || op == token.NEQ {
		if aa, ok := a.(Agg); ok {
			if ba, ok := b.(Agg); ok && len(aa.C.Kids) == len(ba.C.Kids) && len(aa.C.Kids) > 0 {
				ta, ok1 := it.readInt(aa.C)
				tb, ok2 := it.readInt(ba.C)
				if ok1 && ok2 {
					r := EQ(ta, tb)
					if op == token.NEQ {
						r = PNot(r)
					}
					return predValue(r)
				}
			}
		}
	}
	// a symbolic string against the empty string is a test of its length
	if op == token.EQL || op == token.NEQ {
		for i := 0; i < 2; i++ {
			ss, k := a, b
			if i == 1 {
				ss, k = b, a
			}
			if s, ok := ss.(SymStr); ok {
				if ks, ok := k.(KStr); ok && ks == "" {
					r := EQZ(SymInt("len("+s.Name+")", bigZero, big.NewInt(math.MaxInt64)))
					if op == token.NEQ {
						r = PNot(r)
					}
					return predValue(r)
				}
			}
		}
	}
	// pointer-like comparisons
	if op == token.EQL || op == token.NEQ {
		if r, ok := it.refEq(a, b); ok {
			if op == token.NEQ {
				return notValue(r)
			}
			return r
		}
	}
	// booleans as predicates
	_, aP := a.(PredV)
	_, bP := b.(PredV)
	if aP || bP {
		x, ok1 := asTerm(a)
		y, ok2 := asTerm(b)
		if ok1 && ok2 {
			switch op {
			case token.EQL:
				return predValue(PNot(PXor(x, y)))
			case token.NEQ:
				return predValue(PXor(x, y))
			}
		}
	}
	x, ok1 := asTerm(a)
	y, ok2 := asTerm(b)
	if !ok1 || !ok2 {
		return Top{Why: "binary " + op.String() + " on " + show(a) + ", " + show(b)}
	}
	w, signed := typeWidth(operandT)
	switch op {
	case token.EQL:
		return predValue(EQ(x, y))
	case token.NEQ:
		return predValue(PNot(EQ(x, y)))
	case token.LSS:
		return predValue(LT(x, y))
	case token.GTR:
		return predValue(LT(y, x))
	case token.LEQ:
		return predValue(PNot(LT(y, x)))
	case token.GEQ:
		return predValue(PNot(LT(x, y)))
	}
	rw, rsigned := typeWidth(resT)
	var r *Term
	switch op {
	case token.ADD:
		r = arith(x.Add(y), "add", rw, rsigned, x, y)
	case token.SUB:
		r = arith(x.Sub(y), "sub", rw, rsigned, x, y)
		// unsigned x - c wraps exactly when x < c
		if at := r.SingleAtom(); at != nil && at.Kind == IWOp && at.Op == "sub" && !rsigned && inRange(x, rw) {
			if c, isC := y.IsConst(); isC && c.Sign() > 0 && c.BitLen() <= rw {
				r = x.Sub(y).Add(LT(x, y).Scale(pow2(rw)))
			}
		}
	case token.MUL:
		r = arith(x.Mul(y), "mul", rw, rsigned, x, y)
	case token.QUO, token.REM:
		kx, okx := x.IsConst()
		ky, oky := y.IsConst()
		if okx && oky && ky.Sign() != 0 {
			if op == token.QUO {
				r = TConst(new(big.Int).Quo(kx, ky))
			} else {
				r = TConst(new(big.Int).Rem(kx, ky))
			}
		} else {
			r = WOp(rw, op.String(), x, y)
		}
	case token.AND:
		if signed && !(fits(x, w-1, false) && fits(y, w-1, false)) {
			r = WOp(rw, "and", x, y)
		} else {
			r = wAnd(x, y, w)
		}
	case token.OR:
		r = wOr(x, y, w)
	case token.XOR:
		r = wXor(x, y, w)
	case token.AND_NOT:
		r = wAnd(x, wNot(y, w), w)
	case token.SHL:
		r = wShl(x, y, w)
	case token.SHR:
		if signed && !fits(x, w-1, false) {
			r = WOp(rw, "sar", x, y)
		} else {
			r = wShr(x, y, w)
		}
	default:
		return Top{Why: "binary " + op.String()}
	}
	if k, ok := r.IsConst(); ok {
		return KInt{wrapInt(k, resT)}
	}
	return TermV{r}
}

func predValue(p *Term) Value {
	if k, ok := p.IsConst(); ok {
		return KBool(k.Sign() != 0)
	}
	return PredV{p}
}

func notValue(v Value) Value {
	switch x := v.(type) {
	case KBool:
		return KBool(!x)
	case PredV:
		return predValue(PNot(x.P))
	}
	return v
}

// refEq compares pointer-like values.
func (it *Interp) refEq(a, b Value) (Value, bool) {
	isRef := func(v Value) bool {
		switch v.(type) {
		case Ptr, Nil, SliceV, AbsSlice, Iface, SymIface, FuncV:
			return true
		}
		return false
	}
	if !isRef(a) || !isRef(b) {
		return nil, false
	}
	_, an := a.(Nil)
	_, bn := b.(Nil)
	if an && bn {
		return KBool(true), true
	}
	if an {
		a, b = b, a
		bn = true
	}
	if bn {
		switch x := a.(type) {
		case Ptr, Iface, FuncV:
			return KBool(false), true
		case SymIface:
			return predValue(x.IsNil), true
		case SliceV:
			return KBool(false), true
		case AbsSlice:
			return Top{Why: "nil-ness of a symbolic slice"}, true
		}
	}
	switch x := a.(type) {
	case Ptr:
		if y, ok := b.(Ptr); ok {
			return KBool(x.C == y.C), true
		}
	case Iface:
		if y, ok := b.(Iface); ok {
			r, ok := it.refEq(x.Dyn, y.Dyn)
			return r, ok
		}
	}
	return Top{Why: "reference comparison"}, true
}

func (it *Interp) convert(v Value, from, to types.Type, fn *ssa.Function, pos token.Pos) Value {
	if t, ok := v.(Top); ok {
		return t
	}
	fb, _ := from.Underlying().(*types.Basic)
	tb, _ := to.Underlying().(*types.Basic)
	switch {
	case fb != nil && tb != nil && fb.Info()&types.IsInteger != 0 && tb.Info()&types.IsInteger != 0:
		w, signed := intWidth(tb)
		switch x := v.(type) {
		case KInt:
			return KInt{wrapInt(x.V, to)}
		case TermV, PredV:
			t, _ := asTerm(x)
			t = it.ApplyTerm(t)
			if fits(t, w, signed) {
				return termValue(t)
			}
			if p := wrapPure(t, w, signed); p != nil {
				return termValue(p)
			}
			if !signed && w%8 == 0 {
				// truncation keeps the low w/8 bytes: byte(x >> 8k) is byte k of x
				lo, _ := t.Bounds()
				base, sh := t, 0
				if at := t.SingleAtom(); at != nil && at.Kind == IWOp && at.Op == "shr" {
					if k, ok := at.Args[1].IsConst(); ok && k.Int64()%8 == 0 {
						base, sh = at.Args[0], int(k.Int64()/8)
						lo, _ = base.Bounds()
					}
				}
				if lo.Sign() >= 0 {
					r := TInt(0)
					for j := 0; j < w/8; j++ {
						r = r.Add(ByteOf(base, sh+j).Scale(pow2(8 * j)))
					}
					return termValue(r.Recompose())
				}
			}
			return TermV{WOp(w, "trunc", t)}
		}
	case fb != nil && tb != nil && fb.Info()&types.IsInteger != 0 && tb.Info()&types.IsFloat != 0:
		if x, ok := v.(KInt); ok {
			f, _ := new(big.Float).SetInt(x.V).Float64()
			return KFloat(f)
		}
	case fb != nil && tb != nil && fb.Info()&types.IsFloat != 0 && tb.Info()&types.IsInteger != 0:
		if x, ok := v.(KFloat); ok {
			return KInt{wrapInt(big.NewInt(int64(math.Trunc(float64(x)))), to)}
		}
	case fb != nil && tb != nil && fb.Info()&types.IsFloat != 0 && tb.Info()&types.IsFloat != 0:
		return v
	case fb != nil && fb.Info()&types.IsString != 0:
		if _, ok := to.Underlying().(*types.Slice); ok {
			if s, ok := v.(KStr); ok {
				o := it.NewArrayObject(types.Typ[types.Uint8], len(s), "bytes("+string(s)+")", false)
				for i := range o.Root.Kids {
					o.Root.Kids[i].Val = KInt{big.NewInt(int64(s[i]))}
				}
				return SliceV{Arr: o.Root, Lo: 0, Len: TInt(int64(len(s))), Cap: len(s)}
			}
			if s, ok := v.(AbsSlice); ok {
				return s
			}
			if s, ok := v.(SymStr); ok {
				return AbsSlice{Segs: []Seg{{Name: "str:" + s.Name, Len: SymInt("len("+s.Name+")", bigZero, big.NewInt(math.MaxInt64))}}}
			}
		}
	}
	if tb != nil && tb.Info()&types.IsString != 0 {
		// string(b) of a buffer filled by hex.Encode
		if sv, ok := it.asSlice(v); ok {
			if _, isC := it.ApplyTerm(sv.Len).IsConst(); !isC {
				// symbolic length (twice the length of a source of symbolic length): all pairs up to the bound
				ln := it.ApplyTerm(sv.Len)
				half := newTerm()
				even := true
				for _, m := range ln.mons {
					if m.c.Bit(0) != 0 {
						even = false
					}
					half.addMon(new(big.Int).Rsh(m.c, 1), m.preds, m.atom)
				}
				_, hi := ln.Bounds()
				if even && hi.IsInt64() && sv.Lo+int(hi.Int64()) <= len(sv.Arr.Kids) {
					var src []*Term
					good := true
					for i := 0; i+1 < int(hi.Int64()); i += 2 {
						hv, ok1 := asTerm(it.loadValue(sv.Arr.Kids[sv.Lo+i]))
						lv, ok2 := asTerm(it.loadValue(sv.Arr.Kids[sv.Lo+i+1]))
						if !ok1 || !ok2 {
							good = false
							break
						}
						ah, al := hv.SingleAtom(), lv.SingleAtom()
						if ah == nil || al == nil || ah.Kind != IWOp || al.Kind != IWOp || ah.Op != "hexhi" || al.Op != "hexlo" || !ah.Args[0].Equal(al.Args[0]) {
							good = false
							break
						}
						src = append(src, ah.Args[0])
					}
					if good {
						return HexStr{Bytes: src, Len: half.norm()}
					}
				}
			}
			if l, isC := it.ApplyTerm(sv.Len).IsConst(); isC && l.Int64()%2 == 0 {
				var src []*Term
				good := true
				for i := 0; i < int(l.Int64()); i += 2 {
					hi, ok1 := asTerm(it.loadValue(sv.Arr.Kids[sv.Lo+i]))
					lo, ok2 := asTerm(it.loadValue(sv.Arr.Kids[sv.Lo+i+1]))
					if !ok1 || !ok2 {
						good = false
						break
					}
					ah, al := hi.SingleAtom(), lo.SingleAtom()
					if ah == nil || al == nil || ah.Kind != IWOp || al.Kind != IWOp || ah.Op != "hexhi" || al.Op != "hexlo" || !ah.Args[0].Equal(al.Args[0]) {
						good = false
						break
					}
					src = append(src, ah.Args[0])
				}
				if good {
					return HexStr{Bytes: src, Len: TInt(int64(len(src)))}
				}
			}
		}
	}
	switch to.Underlying().(type) {
	case *types.Pointer, *types.Slice:
		return v
	}
	if types.Identical(from.Underlying(), to.Underlying()) {
		return v
	}
	return Top{Why: "conversion " + from.String() + " -> " + to.String()}
}

// WXor is the bytewise/word xor of the analysis (exported for reference constructions).
func WXor(a, b *Term, width int) *Term { return wXor(a, b, width) }

// predTimesAtom decomposes t = P·atom where P is a pure-predicate term and atom an integer atom shared by all monomials.
func predTimesAtom(t *Term) (*Term, *IAtom) {
	var atom *IAtom
	pf := newTerm()
	for _, m := range t.mons {
		if m.atom == nil || (atom != nil && m.atom != atom) {
			return nil, nil
		}
		atom = m.atom
		pf.addMon(m.c, m.preds, nil)
	}
	if atom == nil {
		return nil, nil
	}
	return pf, atom
}
