package absint

import (
	"fmt"
	"math/big"
	"os"
	"sort"
	"strings"
)

// FKind is the kind of a polynomial variable.
type FKind int

const (
	FSym FKind = iota // free field element
	FDef              // stands for the multi-term polynomial Q (appears only with a large exponent: inverse, power)
	FEmb              // integer term T embedded in the field (T mod m)
	FPV               // predicate atom as a 0/1 field value (idempotent)
	FExp              // Q raised to the integer term T (a power with a symbolic exponent, see fexp.go)
)

type FVar struct {
	ID   int
	Kind FKind
	F    *Field
	Name string
	Q    *Poly
	T    *Term
	P    *PAtom
	key  string
}

func (v *FVar) String() string {
	switch v.Kind {
	case FSym:
		return v.Name
	case FDef:
		return "(" + v.Q.String() + ")"
	case FEmb:
		return "FE(" + v.T.String() + ")"
	case FPV:
		return "[" + v.P.String() + "]"
	case FExp:
		return "(" + v.Q.String() + ")^[" + v.T.String() + "]"
	}
	return "?"
}

func (a *Alg) internF(k string, mk func() *FVar) *FVar {
	if x, ok := a.fvars[k]; ok {
		return x
	}
	x := mk()
	x.ID = a.id()
	x.key = k
	a.fvars[k] = x
	return x
}

type pv struct {
	v *FVar
	e *big.Int
}

type pmon struct {
	c    *big.Int
	vars []pv // sorted by var ID
}

// Poly is a polynomial over the prime field F in normal form.
type Poly struct {
	F    *Field
	mons map[string]*pmon
	key  string
}

func pmonKey(vars []pv) string {
	var sb strings.Builder
	for _, x := range vars {
		fmt.Fprintf(&sb, "%d^%s.", x.v.ID, x.e.String())
	}
	return sb.String()
}

func newPoly(f *Field) *Poly { return &Poly{F: f, mons: map[string]*pmon{}} }

func PolyConst(f *Field, c *big.Int) *Poly {
	p := newPoly(f)
	x := new(big.Int).Mod(c, f.M)
	if x.Sign() != 0 {
		p.mons[""] = &pmon{c: x}
	}
	return p
}

func PolyInt(f *Field, c int64) *Poly { return PolyConst(f, big.NewInt(c)) }

func PolyVar(v *FVar) *Poly {
	p := newPoly(v.F)
	vs := []pv{{v, bigOne}}
	p.mons[pmonKey(vs)] = &pmon{c: big.NewInt(1), vars: vs}
	return p
}

// FieldSym is a free field element.
func FieldSym(f *Field, name string) *Poly {
	return PolyVar(A.internF("fsym:"+f.Name+":"+name, func() *FVar { return &FVar{Kind: FSym, F: f, Name: name} }))
}

func predVar(f *Field, p *PAtom) *FVar {
	return A.internF(fmt.Sprintf("fpv:%s:%d", f.Name, p.ID), func() *FVar { return &FVar{Kind: FPV, F: f, P: p} })
}

func (p *Poly) addMon(c *big.Int, vars []pv) {
	c = new(big.Int).Mod(c, p.F.M)
	if c.Sign() == 0 {
		return
	}
	k := pmonKey(vars)
	if m, ok := p.mons[k]; ok {
		s := new(big.Int).Add(m.c, c)
		s.Mod(s, p.F.M)
		if s.Sign() == 0 {
			delete(p.mons, k)
		} else {
			m.c = s
		}
		return
	}
	p.mons[k] = &pmon{c: c, vars: vars}
}

func (p *Poly) clone() *Poly {
	n := newPoly(p.F)
	for k, m := range p.mons {
		n.mons[k] = &pmon{c: m.c, vars: m.vars}
	}
	return n
}

func (p *Poly) Add(q *Poly) *Poly {
	n := p.clone()
	for _, m := range q.mons {
		n.addMon(m.c, m.vars)
	}
	return n
}

func (p *Poly) Neg() *Poly {
	n := newPoly(p.F)
	for _, m := range p.mons {
		n.addMon(new(big.Int).Neg(m.c), m.vars)
	}
	return n
}

func (p *Poly) Sub(q *Poly) *Poly { return p.Add(q.Neg()) }

func (p *Poly) ScaleC(c *big.Int) *Poly {
	n := newPoly(p.F)
	for _, m := range p.mons {
		n.addMon(new(big.Int).Mul(m.c, c), m.vars)
	}
	return n
}

func (p *Poly) IsConst() (*big.Int, bool) {
	if len(p.mons) == 0 {
		return new(big.Int), true
	}
	if len(p.mons) == 1 {
		if m, ok := p.mons[""]; ok {
			return m.c, true
		}
	}
	return nil, false
}

func (p *Poly) IsZero() bool { return len(p.mons) == 0 }

func (p *Poly) NumTerms() int { return len(p.mons) }

func (p *Poly) Key() string {
	if p.key != "" {
		return p.key
	}
	ks := make([]string, 0, len(p.mons))
	for k, m := range p.mons {
		ks = append(ks, m.c.Text(16)+"*"+k)
	}
	sort.Strings(ks)
	p.key = p.F.Name + "{" + strings.Join(ks, "+") + "}"
	return p.key
}

func (p *Poly) Equal(q *Poly) bool { return p.F == q.F && p.Key() == q.Key() }

func (p *Poly) sorted() []*pmon {
	ks := make([]string, 0, len(p.mons))
	for k := range p.mons {
		ks = append(ks, k)
	}
	sort.Strings(ks)
	out := make([]*pmon, len(ks))
	for i, k := range ks {
		out[i] = p.mons[k]
	}
	return out
}

func (p *Poly) coefStr(c *big.Int) string {
	// show small negatives as such
	neg := new(big.Int).Sub(p.F.M, c)
	if neg.BitLen() < 40 && neg.Sign() > 0 {
		return "-" + neg.String()
	}
	return cstr(c)
}

func (p *Poly) expStr(e *big.Int) string {
	if e.Cmp(p.F.M2) == 0 {
		return "^-1"
	}
	if e.BitLen() > 40 {
		return "^0x" + e.Text(16)
	}
	if e.Cmp(bigOne) == 0 {
		return ""
	}
	return "^" + e.String()
}

func (p *Poly) String() string {
	if len(p.mons) == 0 {
		return "0"
	}
	var parts []string
	for i, m := range p.sorted() {
		if i >= 8 {
			parts = append(parts, fmt.Sprintf("…(%d terms)", len(p.mons)))
			break
		}
		var f []string
		if m.c.Cmp(bigOne) != 0 || len(m.vars) == 0 {
			f = append(f, p.coefStr(m.c))
		}
		for _, x := range m.vars {
			f = append(f, x.v.String()+p.expStr(x.e))
		}
		parts = append(parts, strings.Join(f, "·"))
	}
	return strings.Join(parts, " + ")
}

// reduceExp applies Fermat: x^m = x, so exponents live in [1, m-1].
func (f *Field) reduceExp(e *big.Int) *big.Int {
	if e.Cmp(f.M) < 0 {
		return e
	}
	r := new(big.Int).Sub(e, bigOne)
	r.Mod(r, f.M1)
	return r.Add(r, bigOne)
}

// mulMon multiplies two monomials; the result may be a polynomial because
// x^(m-1) = 1 - [x == 0].
func (p *Poly) mulMon(a, b *pmon) *Poly {
	f := p.F
	c := new(big.Int).Mul(a.c, b.c)
	var vars []pv
	i, j := 0, 0
	var split []*FVar // variables whose exponent became m-1
	for i < len(a.vars) || j < len(b.vars) {
		switch {
		case j >= len(b.vars) || (i < len(a.vars) && a.vars[i].v.ID < b.vars[j].v.ID):
			vars = append(vars, a.vars[i])
			i++
		case i >= len(a.vars) || b.vars[j].v.ID < a.vars[i].v.ID:
			vars = append(vars, b.vars[j])
			j++
		default:
			v := a.vars[i].v
			if v.Kind == FPV {
				vars = append(vars, a.vars[i])
			} else {
				e := f.reduceExp(new(big.Int).Add(a.vars[i].e, b.vars[j].e))
				if e.Cmp(f.M1) == 0 {
					split = append(split, v)
				} else {
					vars = append(vars, pv{v, e})
				}
			}
			i++
			j++
		}
	}
	// annihilation: [x == 0] * x^k = 0
	for _, x := range vars {
		if x.v.Kind != FPV || x.v.P.Kind != PISZ {
			continue
		}
		for _, y := range vars {
			if y.v.Kind == FPV {
				continue
			}
			if x.v.P.V.isVar(y.v) || (y.v.Kind == FDef && x.v.P.V.Equal(y.v.Q)) {
				return newPoly(f)
			}
		}
	}
	out := newPoly(f)
	out.addMon(c, vars)
	for _, v := range split {
		nz := EmbPred(f, PNot(varIsZero2(v)))
		out = out.Mul(nz)
	}
	return out
}

func (p *Poly) isVar(v *FVar) bool {
	if len(p.mons) != 1 {
		return false
	}
	for _, m := range p.mons {
		return len(m.vars) == 1 && m.vars[0].v == v && m.vars[0].e.Cmp(bigOne) == 0 && m.c.Cmp(bigOne) == 0
	}
	return false
}

// Mul returns p*q.
// Work counts monomial products; WorkLimit bounds the algebraic work of one process (a computation that
// exceeds it is outside the forms the polynomial domain can follow: the check reports UNDECIDED instead of hanging).
var (
	Work      int64
	WorkLimit int64 = 60_000_000
)

// foldDef: a mentions the formal power D^e of a multi-term polynomial Q (D = FDef(Q)), and b is Q itself up to a
// constant and a monomial factor: the product raises the exponent instead of expanding Q (u^((p-3)/4)·u is u^((p+1)/4),
// the same value an implementation with a dedicated chain for (p+1)/4 produces).  Monomials of a without D are
// multiplied out as usual.  nil when the rule does not apply.
func foldDef(a, b *Poly) *Poly {
	if len(b.mons) < 2 || len(a.mons) == 0 {
		return nil
	}
	var defs []*FVar
	seen := map[*FVar]bool{}
	for _, m := range a.mons {
		for _, x := range m.vars {
			if x.v.Kind == FDef && !seen[x.v] {
				seen[x.v] = true
				defs = append(defs, x.v)
			}
		}
	}
	if len(defs) == 0 {
		return nil
	}
	c, mono, prim := b.content()
	if len(prim.mons) < 2 {
		return nil
	}
	var d *FVar
	for _, v := range defs {
		if v.Q.Key() == prim.Key() {
			d = v
		}
	}
	if d == nil {
		return nil
	}
	f := a.F
	factor := PolyConst(f, c)
	for _, x := range mono {
		factor = factor.Mul(varPow(f, x.v, x.e))
	}
	factor = factor.Mul(varPow(f, d, big.NewInt(1)))
	out := newPoly(f)
	for _, m := range a.mons {
		single := newPoly(f)
		single.addMon(m.c, m.vars)
		has := false
		for _, x := range m.vars {
			if x.v == d {
				has = true
			}
		}
		if has {
			out = out.Add(single.Mul(factor))
		} else {
			out = out.Add(single.Mul(b))
		}
	}
	return out
}

func (p *Poly) Mul(q *Poly) *Poly {
	if len(q.mons) >= 2 || len(p.mons) >= 2 {
		if r := foldDef(p, q); r != nil {
			return r
		}
		if r := foldDef(q, p); r != nil {
			return r
		}
	}
	out := newPoly(p.F)
	Work += int64(len(p.mons)) * int64(len(q.mons))
	tick()
	if Work > WorkLimit {
		panic(&abort{"analysis budget exceeded: the polynomial computation grows beyond what the domain can follow (a data-dependent loop over field arithmetic, or a formula of very high degree)"})
	}
	if len(p.mons)*len(q.mons) > 4_000_000 {
		panic(&abort{fmt.Sprintf("polynomial blow-up (%d x %d terms): a computation outside the forms the polynomial domain can follow", len(p.mons), len(q.mons))})
	}
	for _, a := range p.mons {
		for _, b := range q.mons {
			r := p.mulMon(a, b)
			for _, m := range r.mons {
				out.addMon(m.c, m.vars)
			}
		}
	}
	return out
}

func (p *Poly) Square() *Poly { return p.Mul(p) }

// EmbPred embeds a pure-predicate term into the field.
func EmbPred(f *Field, t *Term) *Poly {
	out := newPoly(f)
	for _, m := range t.mons {
		q := PolyConst(f, m.c)
		for _, a := range m.preds {
			q = q.Mul(PolyVar(predVar(f, a)))
		}
		if m.atom != nil {
			q = q.Mul(embAtom(f, m.atom))
		}
		out = out.Add(q)
	}
	return out
}

func embAtom(f *Field, a *IAtom) *Poly {
	switch a.Kind {
	case ICanon:
		if a.F == f {
			return a.V
		}
	case IMont:
		if a.F == f {
			return a.V.ScaleC(f.R)
		}
	}
	t := TAtom(a)
	return PolyVar(A.internF("femb:"+f.Name+":"+t.Key(), func() *FVar { return &FVar{Kind: FEmb, F: f, T: t} }))
}

// EmbTerm embeds the integer term t into the field (t mod m).  A long pure
// linear part is kept as one variable FE(L); ExpandEmb expands it on demand.
func EmbTerm(f *Field, t *Term) *Poly {
	pure := newTerm()
	rest := newTerm()
	for _, m := range t.mons {
		if len(m.preds) == 0 && m.atom != nil && m.atom.Kind != ICanon && m.atom.Kind != IMont {
			pure.addMon(m.c, nil, m.atom)
		} else {
			rest.addMon(m.c, m.preds, m.atom)
		}
	}
	out := EmbPred(f, rest)
	if len(pure.mons) > 4 {
		v := A.internF("femb:"+f.Name+":"+pure.Key(), func() *FVar { return &FVar{Kind: FEmb, F: f, T: pure} })
		return out.Add(PolyVar(v))
	}
	return out.Add(EmbPred(f, pure))
}

// expandAtom embeds an integer atom at byte granularity: a 256-bit whole
// value or a 64-bit limb is written as the sum of its bytes, so that values
// assembled limb-wise and values assembled whole compare equal.
func expandAtom(f *Field, a *IAtom) *Poly {
	byteSum := func(base *Term, lo, n int) *Poly {
		out := newPoly(f)
		for j := 0; j < n; j++ {
			b := ByteOf(base, lo+j)
			out = out.Add(EmbPred(f, b).ScaleC(pow2(8 * j)))
		}
		return out
	}
	switch {
	case a.Kind == ISym && a.Hi.Cmp(max256) == 0:
		return byteSum(TAtom(a), 0, 32)
	case a.Kind == ILimb:
		return byteSum(a.T, 8*a.Idx, 8)
	}
	return embAtom(f, a)
}

func expandTerm(f *Field, t *Term) *Poly {
	out := newPoly(f)
	for _, m := range t.mons {
		q := PolyConst(f, m.c)
		for _, a := range m.preds {
			q = q.Mul(PolyVar(predVar(f, a)))
		}
		if m.atom != nil {
			q = q.Mul(expandAtom(f, m.atom))
		}
		out = out.Add(q)
	}
	return out
}

// ExpandEmb expands every embedded integer FE(T) into the linear combination
// of its atoms at byte granularity (used as a fallback when comparing).
func (p *Poly) ExpandEmb() *Poly {
	out := newPoly(p.F)
	for _, m := range p.mons {
		q := PolyConst(p.F, m.c)
		for _, x := range m.vars {
			var base *Poly
			if x.v.Kind == FEmb {
				base = expandTerm(p.F, x.v.T)
			} else {
				base = PolyVar(x.v)
			}
			if x.e.Cmp(bigOne) != 0 {
				if x.e.BitLen() > 8 {
					base = PolyVar(x.v)
				}
				base = base.Pow(x.e)
			}
			q = q.Mul(base)
		}
		out = out.Add(q)
	}
	return out
}

// EqualMod compares p and q, expanding embedded linear forms if needed.
func (p *Poly) EqualMod(q *Poly) bool {
	if p.Equal(q) {
		return true
	}
	return p.ExpandEmb().Equal(q.ExpandEmb())
}

// content splits p = c * mono * q with q primitive (no common monomial
// factor, leading coefficient 1 in the canonical order).
func (p *Poly) content() (c *big.Int, mono []pv, q *Poly) {
	ms := p.sorted()
	if len(ms) == 0 {
		return new(big.Int), nil, p
	}
	// common monomial factor
	common := map[*FVar]*big.Int{}
	for _, x := range ms[0].vars {
		common[x.v] = x.e
	}
	for _, m := range ms[1:] {
		seen := map[*FVar]*big.Int{}
		for _, x := range m.vars {
			seen[x.v] = x.e
		}
		for v, e := range common {
			e2, ok := seen[v]
			if !ok {
				delete(common, v)
				continue
			}
			if e2.Cmp(e) < 0 {
				common[v] = e2
			}
		}
	}
	for v, e := range common {
		mono = append(mono, pv{v, e})
	}
	sort.Slice(mono, func(i, j int) bool { return mono[i].v.ID < mono[j].v.ID })
	// divide
	red := newPoly(p.F)
	for _, m := range ms {
		var vars []pv
		for _, x := range m.vars {
			if e, ok := common[x.v]; ok {
				if x.v.Kind == FPV {
					continue
				}
				d := new(big.Int).Sub(x.e, e)
				if d.Sign() > 0 {
					vars = append(vars, pv{x.v, d})
				}
				continue
			}
			vars = append(vars, x)
		}
		red.addMon(m.c, vars)
	}
	lead := red.sorted()[0].c
	c = new(big.Int).Set(lead)
	inv := new(big.Int).ModInverse(lead, p.F.M)
	return c, mono, red.ScaleC(inv)
}

// Pow returns p^e.
func (p *Poly) Pow(e *big.Int) *Poly {
	f := p.F
	if e.Sign() == 0 {
		return PolyInt(f, 1)
	}
	if c, ok := p.IsConst(); ok {
		return PolyConst(f, new(big.Int).Exp(c, e, f.M))
	}
	if len(p.mons) > 1 && e.BitLen() <= 6 {
		out := PolyInt(f, 1)
		base := p
		for i := 0; i < e.BitLen(); i++ {
			if e.Bit(i) == 1 {
				out = out.Mul(base)
			}
			if i+1 < e.BitLen() {
				base = base.Mul(base)
			}
		}
		return out
	}
	c, mono, q := p.content()
	out := PolyConst(f, new(big.Int).Exp(c, e, f.M))
	for _, x := range mono {
		out = out.Mul(varPow(f, x.v, new(big.Int).Mul(x.e, e)))
	}
	if k, ok := q.IsConst(); ok {
		return out.Mul(PolyConst(f, new(big.Int).Exp(k, e, f.M)))
	}
	if len(q.mons) == 1 {
		// cannot happen after content extraction unless q == 1
		return out
	}
	d := A.internF("fdef:"+q.Key(), func() *FVar { return &FVar{Kind: FDef, F: f, Q: q} })
	return out.Mul(varPow(f, d, e))
}

func varPow(f *Field, v *FVar, e *big.Int) *Poly {
	if v.Kind == FPV {
		return PolyVar(v)
	}
	e = f.reduceExp(e)
	if e.Cmp(f.M1) == 0 {
		return EmbPred(f, PNot(varIsZero2(v)))
	}
	p := newPoly(f)
	vs := []pv{{v, e}}
	p.mons[pmonKey(vs)] = &pmon{c: big.NewInt(1), vars: vs}
	return p
}

// Inv returns inv0(p) = p^(m-2).
func (p *Poly) Inv() *Poly { return p.Pow(p.F.M2) }

// SubstPred substitutes a constant for a predicate atom.
func (p *Poly) SubstPred(a *PAtom, v bool) *Poly {
	out := newPoly(p.F)
	for _, m := range p.mons {
		idx := -1
		for i, x := range m.vars {
			if x.v.Kind == FPV && x.v.P == a {
				idx = i
			}
		}
		if idx < 0 {
			out.addMon(m.c, m.vars)
			continue
		}
		if !v {
			continue
		}
		vars := append(append([]pv{}, m.vars[:idx]...), m.vars[idx+1:]...)
		out.addMon(m.c, vars)
	}
	return out
}

// PredAtoms lists the predicate atoms occurring in p.
func (p *Poly) PredAtoms() []*PAtom {
	seen := map[*PAtom]bool{}
	var out []*PAtom
	for _, m := range p.mons {
		for _, x := range m.vars {
			if x.v.Kind == FPV && !seen[x.v.P] {
				seen[x.v.P] = true
				out = append(out, x.v.P)
			}
		}
	}
	sort.Slice(out, func(i, j int) bool { return out[i].ID < out[j].ID })
	return out
}

// Subst substitutes polynomial r for the free symbol named name.
func (p *Poly) Subst(sym *FVar, r *Poly) *Poly {
	out := newPoly(p.F)
	for _, m := range p.mons {
		q := PolyConst(p.F, m.c)
		for _, x := range m.vars {
			if x.v == sym {
				q = q.Mul(r.Pow(x.e))
			} else {
				q = q.Mul(varPow(p.F, x.v, x.e))
			}
		}
		out = out.Add(q)
	}
	return out
}

// ISZ is the predicate "field value p is zero" as a 0/1 term.
func ISZ(p *Poly) *Term {
	if c, ok := p.IsConst(); ok {
		return boolTerm(c.Sign() == 0)
	}
	_, mono, q := p.content()
	out := TInt(0)
	for _, x := range mono {
		var z *Term
		switch x.v.Kind {
		case FSym:
			v := x.v
			z = TPred(A.internP("isz:"+PolyVar(v).Key(), func() *PAtom { return &PAtom{Kind: PISZ, V: PolyVar(v)} }))
		default:
			z = varIsZero2(x.v)
		}
		out = POr(out, z)
	}
	if _, ok := q.IsConst(); !ok {
		qq := q
		z := TPred(A.internP("isz:"+qq.Key(), func() *PAtom { return &PAtom{Kind: PISZ, V: qq} }))
		out = POr(out, z)
	}
	return out
}

// varIsZero2 is varIsZero without recursion through ISZ for plain symbols.
func varIsZero2(v *FVar) *Term {
	switch v.Kind {
	case FPV:
		return PNot(TPred(v.P))
	case FDef:
		return ISZ(v.Q)
	case FEmb:
		lo, hi := v.T.Bounds()
		if lo.Sign() >= 0 && hi.Cmp(v.F.M) < 0 {
			return EQZ(v.T)
		}
		// an integer in [0, 2m) is zero mod m iff it is 0 or m (mutually exclusive tests)
		if lo.Sign() >= 0 && hi.Cmp(new(big.Int).Lsh(v.F.M, 1)) < 0 {
			return EQZ(v.T).Add(EQZ(v.T.Sub(TConst(v.F.M))))
		}
	}
	pv := PolyVar(v)
	return TPred(A.internP("isz:"+pv.Key(), func() *PAtom { return &PAtom{Kind: PISZ, V: pv} }))
}

// SymVar returns the variable of a free field symbol created by FieldSym.
func SymVar(f *Field, name string) *FVar {
	return A.internF("fsym:"+f.Name+":"+name, func() *FVar { return &FVar{Kind: FSym, F: f, Name: name} })
}

// ReducePow rewrites v^e (e >= k) as v^(e-k)*repl until no such power is left.
func (p *Poly) ReducePow(v *FVar, k int64, repl *Poly) *Poly {
	kk := big.NewInt(k)
	for iter := 0; iter < 64; iter++ {
		changed := false
		out := newPoly(p.F)
		for _, m := range p.mons {
			idx := -1
			for i, x := range m.vars {
				if x.v == v && x.e.Cmp(kk) >= 0 {
					idx = i
				}
			}
			if idx < 0 {
				out.addMon(m.c, m.vars)
				continue
			}
			changed = true
			rest := newPoly(p.F)
			var vars []pv
			for i, x := range m.vars {
				if i == idx {
					if d := new(big.Int).Sub(x.e, kk); d.Sign() > 0 {
						vars = append(vars, pv{x.v, d})
					}
					continue
				}
				vars = append(vars, x)
			}
			rest.addMon(m.c, vars)
			out = out.Add(rest.Mul(repl))
		}
		p = out
		if !changed {
			break
		}
	}
	return p
}

// LeadCoef returns the coefficient and key of the first monomial in canonical order.
func (p *Poly) LeadCoef() (*big.Int, string) {
	ms := p.sorted()
	if len(ms) == 0 {
		return nil, ""
	}
	return ms[0].c, pmonKey(ms[0].vars)
}

// CoefOf returns the coefficient of the monomial with the given key (0 if absent).
func (p *Poly) CoefOf(key string) *big.Int {
	if m, ok := p.mons[key]; ok {
		return m.c
	}
	return new(big.Int)
}

// LinPart is one term of a polynomial that is linear in free symbols: Weight (a pure-predicate integer term) times Var ("" for the constant part).
type LinPart struct {
	Var    string
	Weight *Term
}

// LinearParts splits p into Σ weight·var where every monomial has at most
// one free symbol (exponent 1) and otherwise only predicate variables; the
// coefficients are read as small signed integers.
func (p *Poly) LinearParts() ([]LinPart, bool) {
	acc := map[string]*Term{}
	half := new(big.Int).Rsh(p.F.M, 1)
	for _, m := range p.mons {
		c := new(big.Int).Set(m.c)
		if c.Cmp(half) > 0 {
			c.Sub(c, p.F.M)
		}
		if c.BitLen() > 300 {
			return nil, false
		}
		w := TConst(c)
		name := ""
		for _, x := range m.vars {
			switch x.v.Kind {
			case FPV:
				w = w.Mul(TPred(x.v.P))
			case FSym:
				if name != "" || x.e.Cmp(bigOne) != 0 {
					return nil, false
				}
				name = x.v.Name
			default:
				return nil, false
			}
		}
		if o, ok := acc[name]; ok {
			acc[name] = o.Add(w)
		} else {
			acc[name] = w
		}
	}
	var out []LinPart
	for k, w := range acc {
		out = append(out, LinPart{k, w})
	}
	sort.Slice(out, func(i, j int) bool { return out[i].Var < out[j].Var })
	return out, true
}

// EqualUnderNonzero decides a = b at every point where all the polynomials nz are non-zero. Inverses that occur
// in a - b (a variable or a defined polynomial Q with an exponent just below m-1, i.e. Q^(-k) for non-zero Q) are
// cleared by multiplying with the matching power of Q; Q must be non-zero under the hypotheses (Q is, up to a
// constant, a product of at most three of them - the field has no zero divisors). The cleared difference must be the
// zero polynomial. This proves, e.g., N·(A·B)^-1·B = N·A^-1 (one shared inversion instead of two).
func EqualUnderNonzero(a, b *Poly, nz []*Poly) bool {
	d := a.Sub(b)
	if d.IsZero() {
		return true
	}
	f := d.F
	const small = 64
	negOf := func(e *big.Int) (int64, bool) { // e = (m-1) - k with 1 <= k <= small
		k := new(big.Int).Sub(f.M1, e)
		if k.Sign() > 0 && k.Cmp(big.NewInt(small)) <= 0 {
			return k.Int64(), true
		}
		return 0, false
	}
	maxNeg := map[*FVar]int64{}
	for _, m := range d.mons {
		for _, x := range m.vars {
			if x.v.Kind == FPV || x.e.Cmp(big.NewInt(small)) <= 0 {
				continue
			}
			k, ok := negOf(x.e)
			if !ok {
				return false
			}
			if k > maxNeg[x.v] {
				maxNeg[x.v] = k
			}
		}
	}
	if len(maxNeg) == 0 {
		return false
	}
	polyOf := func(v *FVar) *Poly {
		if v.Kind == FDef {
			return v.Q
		}
		return PolyVar(v)
	}
	nonzero := func(q *Poly) bool {
		_, _, qn := q.content()
		n := len(nz)
		if n > 8 {
			n = 8
		}
		for mask := 1; mask < 1<<n; mask++ {
			cnt := 0
			prod := PolyInt(f, 1)
			for i := 0; i < n; i++ {
				if mask>>i&1 == 1 {
					cnt++
					prod = prod.Mul(nz[i])
				}
			}
			if cnt > 3 {
				continue
			}
			_, mono, pn := prod.content()
			if len(mono) == 0 && pn.Equal(qn) {
				return true
			}
		}
		return false
	}
	for v := range maxNeg {
		if v.Kind != FDef && v.Kind != FSym {
			return false
		}
		if !nonzero(polyOf(v)) {
			return false
		}
	}
	total := newPoly(f)
	for _, m := range d.mons {
		term := PolyConst(f, m.c)
		seen := map[*FVar]bool{}
		for _, x := range m.vars {
			K, isNeg := maxNeg[x.v]
			switch {
			case !isNeg:
				term = term.Mul(varPow(f, x.v, x.e))
			case x.e.Cmp(big.NewInt(small)) <= 0:
				seen[x.v] = true
				term = term.Mul(polyOf(x.v).Pow(big.NewInt(K + x.e.Int64())))
			default:
				seen[x.v] = true
				k, _ := negOf(x.e)
				term = term.Mul(polyOf(x.v).Pow(big.NewInt(K - k)))
			}
		}
		for v, K := range maxNeg {
			if !seen[v] {
				term = term.Mul(polyOf(v).Pow(big.NewInt(K)))
			}
		}
		total = total.Add(term)
	}
	return total.IsZero()
}

// EqualGuarded decides a = b by cases over the zero tests [Q = 0] both sides mention (at most 4): in each case the
// tests are replaced by their value; a case whose sides still differ syntactically is decided by clearing inverses
// under the case's non-zero hypotheses.
func EqualGuarded(a, b *Poly) bool {
	if a.Equal(b) {
		return true
	}
	var atoms []*PAtom
	seen := map[*PAtom]bool{}
	for _, q := range []*Poly{a, b} {
		for _, at := range q.PredAtoms() {
			if at.Kind == PISZ && !seen[at] {
				seen[at] = true
				atoms = append(atoms, at)
			}
		}
	}
	// also split on the zero tests of the polynomials that occur inverted (a value multiplied by inv0(Q) is 0
	// where Q is, whatever the other side's guard looks like)
	for _, q := range []*Poly{a, b} {
		for _, m := range q.mons {
			for _, x := range m.vars {
				if x.v.Kind != FDef || x.e.Cmp(big.NewInt(64)) <= 0 {
					continue
				}
				if at := ISZ(x.v.Q).SinglePred(); at != nil && at.Kind == PISZ && !seen[at] {
					seen[at] = true
					atoms = append(atoms, at)
				}
			}
		}
	}
	if len(atoms) == 0 || len(atoms) > 5 {
		return false
	}
	// a zero test of a product is the disjunction of the zero tests of its factors (no zero divisors): cases that
	// contradict this are infeasible
	type rel struct {
		prod    int
		factors []int
	}
	var rels []rel
	for i, at := range atoms {
		_, monoI, qi := at.V.content()
		if len(monoI) != 0 {
			continue
		}
		n := len(atoms)
		for sub := 1; sub < 1<<n; sub++ {
			if sub>>i&1 == 1 {
				continue
			}
			cnt := 0
			prod := PolyInt(a.F, 1)
			var fs []int
			for j := 0; j < n; j++ {
				if sub>>j&1 == 1 {
					cnt++
					fs = append(fs, j)
					prod = prod.Mul(atoms[j].V)
				}
			}
			if cnt < 2 {
				continue
			}
			_, mono, pn := prod.content()
			if len(mono) == 0 && pn.Equal(qi) {
				rels = append(rels, rel{i, fs})
			}
		}
	}
	for mask := 0; mask < 1<<len(atoms); mask++ {
		feasible := true
		for _, rl := range rels {
			or := false
			for _, j := range rl.factors {
				if mask>>j&1 == 1 {
					or = true
				}
			}
			if (mask>>rl.prod&1 == 1) != or {
				feasible = false
			}
		}
		if !feasible {
			continue
		}
		x, y := a, b
		var nz []*Poly
		for i, at := range atoms {
			v := mask>>i&1 == 1
			x, y = x.SubstPred(at, v), y.SubstPred(at, v)
			if !v {
				nz = append(nz, at.V)
			} else {
				x, y = x.dropZeroVar(at.V), y.dropZeroVar(at.V)
			}
		}
		if x.Equal(y) {
			continue
		}
		if !EqualUnderNonzero(x, y, nz) {
			if os.Getenv("SVDEBUG") != "" {
				fmt.Fprintf(os.Stderr, "EqualGuarded: case %b of %d atoms fails; diff has %d terms\n", mask, len(atoms), x.Sub(y).NumTerms())
				for _, at := range atoms {
					fmt.Fprintf(os.Stderr, "  atom %s\n", at.String())
				}
				dd := x.Sub(y)
				for i, m := range dd.sorted() {
					if i > 6 {
						break
					}
					fmt.Fprintf(os.Stderr, "  mon c=%s", m.c)
					for _, v := range m.vars {
						fmt.Fprintf(os.Stderr, " %s^%s", v.v.String()[:min(60, len(v.v.String()))], dd.expStr(v.e))
					}
					fmt.Fprintln(os.Stderr)
				}
			}
			return false
		}
	}
	return true
}

// dropZeroVar removes the monomials that contain (a power of) a variable standing for the polynomial z, which is
// zero by hypothesis.
func (p *Poly) dropZeroVar(z *Poly) *Poly {
	_, mono, zn := z.content()
	out := newPoly(p.F)
	for _, m := range p.mons {
		drop := false
		for _, x := range m.vars {
			switch x.v.Kind {
			case FDef:
				if len(mono) == 0 && x.v.Q.Equal(zn) {
					drop = true
				}
			case FSym:
				if z.isVar(x.v) {
					drop = true
				}
			}
		}
		if !drop {
			out.addMon(m.c, m.vars)
		}
	}
	return out
}
