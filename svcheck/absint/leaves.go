package absint

import (
	"fmt"
	"go/types"
	"math/big"
	"os"

	"golang.org/x/tools/go/ssa"
)

func ptrCell(v Value) *Cell {
	if p, ok := v.(Ptr); ok {
		return p.C
	}
	return nil
}

// leaf is the transfer function of the Fiat-Crypto primitives (trusted leaf
// specifications T2): ring operations of F_m on Montgomery representatives.
func (it *Interp) leaf(fr *Frame, x *ssa.Call, fn *ssa.Function, args []Value) Value {
	f := fieldOf(fn)
	name := fn.Name()
	if it.Cfg.Opaque {
		taint := false
		for _, a := range args[1:] {
			if it.anyTaint(a, 0) {
				taint = true
			}
		}
		if taint {
			it.TaintedLeafCalls++
		}
		if c := ptrCell(args[0]); c != nil {
			it.smash(c, Top{Taint: taint, Why: "field value"})
		}
		return nil
	}
	fail := func(why string) Value {
		it.event("precond", fr.fn, x.Pos(), "%s.%s: %s", fn.Pkg.Pkg.Name(), name, why)
		if c := ptrCell(args[0]); c != nil {
			it.smash(c, Top{Why: name + ": " + why})
		}
		return nil
	}
	out := ptrCell(args[0])
	if out == nil {
		return fail("output is not a pointer")
	}
	if out.Obj != nil && out.Obj.Global && !isInit(fr.fn) {
		it.event("global-store", fr.fn, x.Pos(), "%s.%s writes its result into package-level variable %s outside init", fn.Pkg.Pkg.Name(), name, out.Path())
	}
	setMont := func(v *Poly) {
		if out.Up != nil && out.Up.Rep != nil {
			it.materialise(out.Up)
		}
		it.setRep(out, &Rep{MontOf(f, v)})
	}
	rd := func(i int) (*Poly, string) {
		c := ptrCell(args[i])
		if c == nil {
			return nil, "operand is not a pointer"
		}
		return it.readMont(f, c)
	}
	switch name {
	case "Mul", "Add", "Sub":
		a, e1 := rd(1)
		if a == nil {
			return fail(e1)
		}
		b, e2 := rd(2)
		if b == nil {
			return fail(e2)
		}
		switch name {
		case "Mul":
			if r := it.expLeaf(f, args, 1, 2); r != nil {
				setMont(r)
			} else {
				setMont(a.Mul(b))
			}
		case "Add":
			setMont(a.Add(b))
		case "Sub":
			setMont(a.Sub(b))
		}
	case "Square", "Opp":
		a, e1 := rd(1)
		if a == nil {
			return fail(e1)
		}
		if name == "Square" {
			if r := it.expLeaf(f, args, 1, 1); r != nil {
				setMont(r)
			} else {
				setMont(a.Mul(a))
			}
		} else {
			setMont(a.Neg())
		}
	case "SetOne":
		setMont(PolyInt(f, 1))
	case "ToMontgomery":
		c := ptrCell(args[1])
		if c == nil {
			return fail("operand is not a pointer")
		}
		t, ok := it.readInt(c)
		if !ok {
			return fail("operand is not a known integer")
		}
		t = it.ApplyTerm(t)
		if !provenBelow(t, f.M) {
			// a range check made by comparison only (the borrow of t - m without the subtraction): the path assumes it
			below := false
			if k, isC := it.DeepApplyTerm(LT(t, TConst(f.M))).IsConst(); isC && k.Sign() != 0 {
				below = true
			}
			if !below {
				return fail("argument " + t.String() + " of ToMontgomery is not provably below the modulus")
			}
		}
		setMont(EmbTerm(f, t))
	case "FromMontgomery":
		a, e1 := rd(1)
		if a == nil {
			return fail(e1)
		}
		it.setRep(out, &Rep{CanonOf(f, a)})
	case "Nonzero":
		c := ptrCell(args[1])
		if c == nil {
			return fail("operand is not a pointer")
		}
		t, ok := it.readInt(c)
		if !ok {
			return fail("operand is not a known integer")
		}
		it.storeValue(out, termValue(NzFold(it.ApplyTerm(t))))
	case "Selectznz":
		sel, ok := asTerm(args[1])
		ca, cb := ptrCell(args[2]), ptrCell(args[3])
		if !ok || ca == nil || cb == nil {
			return fail("operands are not known")
		}
		sel = it.ApplyTerm(sel)
		if !inRange(sel, 1) {
			it.event("selector", fr.fn, x.Pos(), "%s.Selectznz: selector %s is not provably 0 or 1 (the Fiat type uint1 requires it); the result would be a bitwise mixture of both operands", fn.Pkg.Pkg.Name(), sel)
			it.smash(out, Top{Why: "Selectznz with a selector outside {0,1}"})
			return nil
		}
		a, ok1 := it.readInt(ca)
		b, ok2 := it.readInt(cb)
		if !ok1 || !ok2 {
			return fail("operands are not known integers")
		}
		r := Ite(sel, b, a)
		if r == nil {
			return fail("selection not representable")
		}
		if out.Up != nil && out.Up.Rep != nil {
			it.materialise(out.Up)
		}
		if len(r.mons) > 16 {
			// the last move of a complete table look-up: what the destination held before cannot survive
			r = CompleteFamilies(r)
		}
		it.setRep(out, &Rep{r})
	case "cmovznzU64":
		sel, ok := asTerm(args[1])
		a, ok1 := asTerm(args[2])
		b, ok2 := asTerm(args[3])
		if !ok || !ok1 || !ok2 {
			return fail("operands are not known")
		}
		sel = it.ApplyTerm(sel)
		if !inRange(sel, 1) {
			it.event("selector", fr.fn, x.Pos(), "cmovznzU64: selector %s is not provably 0 or 1", sel)
			it.smash(out, Top{Why: "cmov"})
			return nil
		}
		r := Ite(sel, b, a)
		if r == nil {
			return fail("selection not representable")
		}
		it.storeValue(out, termValue(r))
	default:
		return fail("no transfer function for this primitive")
	}
	return nil
}

// ModExp is the opaque integer x^y mod m (math/big.Int.Exp contract), in [0, m-1].
func ModExp(x, y, m *Term) *Term {
	hi := max256
	if k, ok := m.IsConst(); ok && k.Sign() > 0 {
		hi = new(big.Int).Sub(k, bigOne)
	}
	key := "modexp:" + x.Key() + ":" + y.Key() + ":" + m.Key()
	return TAtom(A.internI(key, func() *IAtom {
		return &IAtom{Kind: IWOp, Op: "modexp", Args: []*Term{x, y, m}, Idx: 256, Lo: bigZero, Hi: hi}
	}))
}

func (it *Interp) bigVal(v Value) (*Term, *Cell, bool) {
	p, ok := v.(Ptr)
	if !ok {
		return nil, nil, false
	}
	t, ok := it.bigVals[p.C]
	return t, p.C, ok
}

// bigModel models the few math/big operations Scalar.Pow uses, on integer terms.
func (it *Interp) bigModel(fr *Frame, x *ssa.Call, key string, args []Value) (Value, bool) {
	if it.bigVals == nil {
		it.bigVals = map[*Cell]*Term{}
	}
	switch key {
	case "math/big.NewInt":
		if k, ok := args[0].(KInt); ok {
			o := it.NewObject(x.Type().(*types.Pointer).Elem(), "big.Int", false)
			it.bigVals[o.Root] = TConst(k.V)
			return Ptr{o.Root}, true
		}
	case "math/big.Int.SetBytes":
		z, ok := args[0].(Ptr)
		if !ok {
			return nil, false
		}
		segs, ok := it.sliceSegs(args[1])
		if !ok {
			return nil, false
		}
		ns := normSegs(segs)
		if len(ns) == 0 {
			it.bigVals[z.C] = TInt(0)
			return z, true
		}
		if len(ns) == 1 && ns[0].Bytes != nil {
			t := TInt(0)
			n := len(ns[0].Bytes)
			for i, b := range ns[0].Bytes {
				t = t.Add(b.Scale(pow2(8 * (n - 1 - i))))
			}
			it.bigVals[z.C] = t.Recompose()
			return z, true
		}
	case "math/big.Int.Exp":
		z, ok := args[0].(Ptr)
		vx, _, ok1 := it.bigVal(args[1])
		vy, _, ok2 := it.bigVal(args[2])
		vm, _, ok3 := it.bigVal(args[3])
		if ok && ok1 && ok2 && ok3 {
			it.event("modexp", fr.fn, x.Pos(), "%s|%s|%s", vx.Key(), vy.Key(), vm.Key())
			it.bigVals[z.C] = ModExp(vx, vy, vm)
			return z, true
		}
	case "math/big.Int.Cmp":
		vx, _, ok1 := it.bigVal(args[0])
		vy, _, ok2 := it.bigVal(args[1])
		if ok1 && ok2 {
			return termValue(LT(vy, vx).Sub(LT(vx, vy))), true
		}
	case "math/big.Int.Sign":
		if vx, _, ok := it.bigVal(args[0]); ok {
			if lo, _ := vx.Bounds(); lo.Sign() >= 0 {
				return termValue(NZ(vx)), true
			}
		}
	case "math/big.Int.FillBytes":
		if vx, _, ok := it.bigVal(args[0]); ok {
			if sv, ok := it.asSlice(args[1]); ok {
				if l, isC := it.ApplyTerm(sv.Len).IsConst(); isC {
					n := int(l.Int64())
					if _, hi := vx.Bounds(); hi.BitLen() <= 8*n {
						for i := 0; i < n; i++ {
							it.storeValue(sv.Arr.Kids[sv.Lo+i], termValue(ByteOf(vx, n-1-i)))
						}
						return sv, true
					}
				}
			}
		}
	case "math/big.Int.Bytes":
		if v, _, ok := it.bigVal(args[0]); ok {
			if k, isC := v.IsConst(); isC {
				bs := k.Bytes()
				var ts []*Term
				for _, b := range bs {
					ts = append(ts, TInt(int64(b)))
				}
				return AbsSlice{Segs: []Seg{{Bytes: ts}}}, true
			}
			_, hi := v.Bounds()
			maxLen := int64((hi.BitLen() + 7) / 8)
			l := SymInt("len(minbytes("+v.Key()+"))", bigZero, big.NewInt(maxLen))
			return AbsSlice{Segs: []Seg{{Min: v, Len: l}}}, true
		}
	}
	return nil, false
}

// expLeaf: the product of operands i and j of a Fiat Mul/Square as one formal power (fexp.go), when both are powers
// of one base with a symbolic exponent.  The operands are read with their look-up tests completed.
func (it *Interp) expLeaf(f *Field, args []Value, i, j int) *Poly {
	rd := func(k int) *Poly {
		c := ptrCell(args[k])
		if c == nil {
			return nil
		}
		t, ok := it.readInt(c)
		if !ok {
			return nil
		}
		t = it.ApplyTerm(t)
		if a := t.SingleAtom(); a != nil && a.Kind == IMont && a.F == f {
			return completePoly(a.V)
		}
		if len(t.mons) < 2 || len(t.mons) > 64 {
			return nil
		}
		t = CompleteFamilies(t)
		if !provenBelow(t, f.M) {
			return nil
		}
		return EmbTerm(f, t).ScaleC(f.RInv)
	}
	a := rd(i)
	if a == nil {
		return nil
	}
	b := a
	if j != i {
		if b = rd(j); b == nil {
			return nil
		}
	}
	// only when a symbolic exponent or a look-up is involved
	sym := false
	for _, p := range []*Poly{a, b} {
		for _, m := range p.mons {
			for _, x := range m.vars {
				if x.v.Kind == FExp || x.v.Kind == FPV {
					sym = true
				}
			}
		}
	}
	if !sym {
		return nil
	}
	r := expMul(a, b)
	if r == nil && os.Getenv("SVDEBUGEXP") != "" {
		var base *Poly
		_, oka := asExp(a, &base)
		_, okb := asExp(b, &base)
		fmt.Fprintf(os.Stderr, "EXPLEAF fail: a(%d terms, exp=%v)=%s | b(%d terms, exp=%v)=%s\n", a.NumTerms(), oka, clip(a.String(), 300), b.NumTerms(), okb, clip(b.String(), 300))
	}
	return r
}

// completePoly is CompleteFamilies for the predicate variables of a polynomial.
func completePoly(p *Poly) *Poly {
	tt := TInt(0)
	seen := map[*PAtom]bool{}
	for _, m := range p.mons {
		for _, x := range m.vars {
			if x.v.Kind == FPV && !seen[x.v.P] {
				seen[x.v.P] = true
				tt = tt.Add(TPred(x.v.P))
			}
		}
	}
	if len(seen) < 2 {
		return p
	}
	var sub *Subst
	for _, f := range eqFamilies(tt) {
		if !f.d.Lo.IsInt64() || !f.d.Hi.IsInt64() {
			continue
		}
		lo, hi := f.d.Lo.Int64(), f.d.Hi.Int64()
		if hi-lo < 1 || hi-lo > 31 || f.atoms[hi] == nil {
			continue
		}
		rest := TInt(1)
		for v := lo; v < hi; v++ {
			rest = rest.Sub(EQZ(TInt(v).Sub(TAtom(f.d))))
		}
		if sub == nil {
			sub = NewSubst(nil, false)
			sub.PBind = map[*PAtom]*Term{}
		}
		sub.PBind[f.atoms[hi]] = rest
	}
	if sub == nil {
		return p
	}
	return sub.Poly(p)
}
