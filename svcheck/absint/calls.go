package absint

import (
	"fmt"
	"go/token"
	"go/types"
	"math"
	"math/big"
	"os"
	"strings"

	"golang.org/x/tools/go/ssa"

	"svcheck/load"
)

// HashObj is an abstract hash.Hash: the byte string written so far.
type HashObj struct {
	ID      int
	Alg     int64
	Pending []Seg
	Sums    int
}

type HashRef struct{ H *HashObj }

// HashState is the serialised state of a hash object (encoding.BinaryMarshaler).
type HashState struct {
	Alg     int64
	Pending []Seg
}

// HexStr is hex.EncodeToString of a byte-string value.
type HexStr struct {
	Bytes []*Term
	Len   *Term
}

// SymStr is a symbolic string input.
type SymStr struct{ Name string }

// BigRef is a *big.Int whose value is the integer term T (nil: unknown).
type BigRef struct{ B *BigObj }
type BigObj struct{ T *Term }

// HashDigest creates the 256-bit integer atom OS2IP(H(segs)).
func HashDigest(alg int64, segs []Seg) *Term {
	segs = normSegs(segs)
	k := fmt.Sprintf("hash:%d:%s", alg, segsKey(segs))
	return TAtom(A.internI(k, func() *IAtom {
		return &IAtom{Kind: ISym, Name: fmt.Sprintf("H%d(%s)", alg, showSegs(segs)), Lo: bigZero, Hi: max256}
	}))
}

func showSegs(segs []Seg) string {
	var parts []string
	for _, g := range segs {
		if g.Bytes == nil {
			switch {
			case g.Zeros:
				parts = append(parts, "zeros("+g.Len.String()+")")
			case g.Stale:
				parts = append(parts, "stale("+g.Len.String()+")")
			case g.Min != nil:
				parts = append(parts, "minbytes("+g.Min.String()+")")
			default:
				parts = append(parts, g.Name)
			}
			continue
		}
		// compress runs
		allConst := true
		for _, b := range g.Bytes {
			if _, ok := b.IsConst(); !ok {
				allConst = false
			}
		}
		if allConst {
			s := ""
			for _, b := range g.Bytes {
				k, _ := b.IsConst()
				s += fmt.Sprintf("%02x", k.Int64())
			}
			if len(s) > 40 {
				s = s[:16] + fmt.Sprintf("…(%d bytes)", len(g.Bytes))
			}
			parts = append(parts, "0x"+s)
		} else {
			parts = append(parts, fmt.Sprintf("[%d bytes: %s…]", len(g.Bytes), g.Bytes[0].String()))
		}
	}
	return strings.Join(parts, " ‖ ")
}

// sliceSegs returns the content of a byte-slice value as segments.
func (it *Interp) sliceSegs(v Value) ([]Seg, bool) {
	switch x := it.rd(v).(type) {
	case Nil:
		return nil, true
	case AbsSlice:
		return x.Segs, true
	case SliceV:
		n, ok := it.ApplyTerm(x.Len).IsConst()
		if !ok {
			// a slice of symbolic length over an all-zero backing array: that many zero bytes
			_, hi := it.ApplyTerm(x.Len).Bounds()
			if !hi.IsInt64() || int(hi.Int64())+x.Lo > len(x.Arr.Kids) {
				return nil, false
			}
			for i := 0; i < int(hi.Int64()); i++ {
				k, isK := x.Arr.Kids[x.Lo+i].Val.(KInt)
				if !isK || k.V.Sign() != 0 {
					return nil, false
				}
			}
			return []Seg{{Zeros: true, Len: it.ApplyTerm(x.Len)}}, true
		}
		if n.Sign() == 0 {
			return nil, true
		}
		var bs []*Term
		for i := 0; i < int(n.Int64()); i++ {
			t, ok := asTerm(it.loadValue(x.Arr.Kids[x.Lo+i]))
			if !ok {
				return nil, false
			}
			bs = append(bs, t)
		}
		return []Seg{{Bytes: bs}}, true
	case KStr:
		if len(x) == 0 {
			return nil, true
		}
		var bs []*Term
		for i := 0; i < len(x); i++ {
			bs = append(bs, TInt(int64(x[i])))
		}
		return []Seg{{Bytes: bs}}, true
	}
	return nil, false
}

func (it *Interp) anyTaint(v Value, depth int) bool {
	if depth > 6 {
		return false
	}
	switch x := v.(type) {
	case Top:
		return x.Taint
	case Ptr:
		return it.cellTaint(x.C, depth+1)
	case SliceV:
		return it.cellTaint(x.Arr, depth+1)
	case Agg:
		return it.cellTaint(x.C, depth+1)
	case Iface:
		return it.anyTaint(x.Dyn, depth+1)
	}
	return false
}

func (it *Interp) cellTaint(c *Cell, depth int) bool {
	if len(c.Kids) == 0 {
		return it.anyTaint(c.Val, depth)
	}
	for _, k := range c.Kids {
		if it.cellTaint(k, depth) {
			return true
		}
	}
	return false
}

// IsInternalPkg reports whether fn belongs to internal/field or internal/scalar.
func IsInternalPkg(fn *ssa.Function) bool {
	if fn.Pkg == nil {
		return false
	}
	p := fn.Pkg.Pkg.Path()
	return p == load.FieldPath || p == load.ScalarPath
}

var fiatLeaves = map[string]bool{"Mul": true, "Square": true, "Add": true, "Sub": true, "Opp": true, "SetOne": true,
	"ToMontgomery": true, "FromMontgomery": true, "Nonzero": true, "Selectznz": true, "cmovznzU64": true, "ToBytes": true, "FromBytes": true}

// IsFiatLeaf reports whether fn is one of the Fiat-Crypto generated primitives.
func IsFiatLeaf(fn *ssa.Function) bool {
	return IsInternalPkg(fn) && fn.Signature.Recv() == nil && fiatLeaves[fn.Name()]
}

func fieldOf(fn *ssa.Function) *Field {
	if fn.Pkg.Pkg.Path() == load.ScalarPath {
		return FN
	}
	return FP
}

func (fr *Frame) call(x *ssa.Call) Value {
	cc := x.Common()
	args := make([]Value, len(cc.Args))
	for i, a := range cc.Args {
		args[i] = fr.get(a)
	}
	return fr.callArgs(x, args)
}

// callArgs performs the call x with the given argument values. An argument that is a selection between pointers
// (PtrSel: r[bit], or two pointers merged at a join) is resolved by performing the call once per alternative on
// the same pre-state and merging the effects under the selection conditions, exactly as the arms of a branch.
func (fr *Frame) callArgs(x *ssa.Call, args []Value) Value {
	it := fr.it
	cc := x.Common()
	for i, a := range args {
		if sel, ok := a.(PtrSel); ok {
			return fr.callSplit(x, args, i, sel)
		}
	}
	if b, ok := cc.Value.(*ssa.Builtin); ok {
		return fr.builtin(x, b.Name(), args)
	}
	inLoop := fr.inLoop || it.cfg(fr.fn).inLoop[x.Block()]
	if cc.IsInvoke() {
		return fr.invoke(x, fr.get(cc.Value), cc.Method.Name(), args)
	}
	callee := cc.StaticCallee()
	var binds []Value
	if callee == nil || len(callee.FreeVars) > 0 {
		fnv := fr.get(cc.Value)
		if fr.fnOv != nil {
			fnv, fr.fnOv = fr.fnOv, nil
		}
		switch fv := fnv.(type) {
		case FuncSel:
			return fr.callFuncSel(x, args, fv)
		case FuncV:
			callee = fv.Fn
		case ClosureV:
			callee, binds = fv.Fn, fv.Binds
		}
	}
	if callee == nil {
		it.event("unmodelled", fr.fn, x.Pos(), "dynamic call %s", cc.Value)
		return it.unknownResult(x, args)
	}
	if s, ok := it.Cfg.Summaries[callee]; ok {
		return s(it, args)
	}
	if it.P.InModule(callee) {
		if IsInternalPkg(callee) {
			it.Trace = append(it.Trace, TraceEv{Fn: callee})
		}
		if IsFiatLeaf(callee) {
			it.LeafCalls++
			it.FuncsEntered[callee]++
			return it.leaf(fr, x, callee, args)
		}
		if r, ok := it.tryPowSummary(callee, args); ok {
			return r
		}
		it.pendingBinds = binds
		var r Value
		if len(binds) == 0 && errorOnlyFn(it.P, callee) {
			// a function that can only report an error (no pointer-like parameter, no store outside its own frame, no
			// module callee, every return a non-nil error): if the domains cannot follow its body (a validation loop over
			// a string of unbounded length), its effect is still known - nothing - and its result is some non-nil error
			mark := len(it.journal)
			depth := it.depth
			stack := len(it.stack)
			func() {
				defer func() {
					if e := recover(); e != nil {
						if _, isAbort := e.(*abort); !isAbort {
							panic(e)
						}
						it.undoTo(mark)
						it.depth = depth
						it.stack = it.stack[:stack]
						o := it.NewObject(types.Typ[types.Int], "error of "+callee.Name(), false)
						r = Iface{Dyn: Ptr{o.Root}}
					}
				}()
				r = it.callFn(callee, args, inLoop)
			}()
		} else {
			r = it.callFn(callee, args, inLoop)
		}
		if o, ok := it.Cfg.OriginOf[callee]; ok {
			if t, isTop := r.(Top); isTop {
				t.Origin = o
				t.Why = o
				return t
			}
		}
		return r
	}
	return it.stdlib(fr, x, callee, args)
}

func (it *Interp) unknownResult(x *ssa.Call, args []Value) Value {
	taint := false
	for _, a := range args {
		if it.anyTaint(a, 0) {
			taint = true
		}
	}
	for _, a := range args {
		switch p := a.(type) {
		case Ptr:
			it.smash(p.C, Top{Taint: taint, Why: "written by unmodelled call"})
		case SliceV:
			it.smash(p.Arr, Top{Taint: taint, Why: "written by unmodelled call"})
		}
	}
	if tup, ok := x.Type().(*types.Tuple); ok {
		t := make(Tuple, tup.Len())
		for i := range t {
			t[i] = Top{Taint: taint, Why: "result of unmodelled call"}
		}
		return t
	}
	return Top{Taint: taint, Why: "result of unmodelled call"}
}

func (fr *Frame) builtin(x *ssa.Call, name string, args []Value) Value {
	it := fr.it
	switch name {
	case "len":
		if t := it.lenTerm(args[0]); t != nil {
			return termValue(t)
		}
		if s, ok := args[0].(SymStr); ok {
			return TermV{SymInt("len("+s.Name+")", bigZero, big.NewInt(math.MaxInt64))}
		}
		return Top{Why: "len"}
	case "cap":
		if s, ok := args[0].(SliceV); ok && s.Cap >= 0 {
			return KInt{big.NewInt(int64(s.Cap))}
		}
		return Top{Why: "cap"}
	case "copy":
		if od, isOff := args[0].(OffSlice); isOff {
			// copy(pad[n-len(b):], b) into an all-zero pad with b the minimal big-endian bytes of an integer < 256^n:
			// pad becomes the n-byte big-endian encoding of the integer
			n := len(od.Arr.Kids)
			if src, isA := args[1].(AbsSlice); isA && len(src.Segs) == 1 && src.Segs[0].Min != nil {
				g := src.Segs[0]
				_, hi := g.Min.Bounds()
				zero := true
				for _, c := range od.Arr.Kids {
					if k, isK := it.loadValue(c).(KInt); !isK || k.V.Sign() != 0 {
						zero = false
					}
				}
				if zero && hi.BitLen() <= 8*n && od.Off.Equal(TInt(int64(n)).Sub(it.ApplyTerm(g.Len))) {
					for i, c := range od.Arr.Kids {
						it.storeValue(c, termValue(ByteOf(g.Min, n-1-i)))
					}
					return termValue(it.ApplyTerm(g.Len))
				}
			}
			it.abortf("copy into a slice with a symbolic offset in %s", fr.fn)
		}
		if ab, isAB := asArrayBuf(args[0]); isAB {
			args = append([]Value{ab}, args[1:]...)
		} else if sv, isS := args[0].(SliceV); isS && sv.Lo == 0 && len(sv.Arr.Kids) > 0 && len(sv.Arr.Kids) <= 4096 && isWholeArray(sv.Arr) {
			// copy of a string of symbolic length into a whole, still all-zero fixed byte array (a stack buffer in place
			// of an allocation): from here on the array is followed as a buffer whose content is symbolic
			if src, isA := args[1].(AbsSlice); isA {
				if _, conc := it.asSlice(src); !conc {
					if n, isC := it.ApplyTerm(sv.Len).IsConst(); isC && int(n.Int64()) == len(sv.Arr.Kids) {
						if bt, isB := sv.Arr.Kids[0].Typ.Underlying().(*types.Basic); isB && bt.Kind() == types.Uint8 {
							zero, stale := it.arrayFill(sv.Arr)
							if zero || stale {
								dl := TInt(int64(len(sv.Arr.Kids)))
								sl := it.ApplyTerm(src.Length())
								if lo, _ := dl.Sub(sl).Bounds(); lo.Sign() < 0 {
									it.abortf("copy of %s bytes into an array of %s bytes in %s", sl, dl, fr.fn)
								}
								it.setCell(sv.Arr, AbsSlice{Segs: []Seg{{Zeros: zero, Stale: !zero, Len: dl}}})
								it.bufWrite(sv.Arr, TInt(0), src.Segs, fr.fn)
								return termValue(sl)
							}
						}
					}
				}
			}
		}
		if bd, isBuf := args[0].(BufRef); isBuf {
			if _, conc := it.bufConc(bd); !conc {
				// copy into (a view of) a buffer of symbolic length: min(len(dst), len(src)) bytes replace its start
				src, okS := it.sliceSegs(args[1])
				if !okS {
					it.abortf("copy from %s into a buffer of symbolic length in %s", show(args[1]), fr.fn)
				}
				dl := it.lenTerm(bd)
				sl := it.ApplyTerm(AbsSlice{Segs: src}.Length())
				if dl == nil {
					it.abortf("copy into a buffer of unknown length in %s", fr.fn)
				}
				if lo, _ := dl.Sub(sl).Bounds(); lo.Sign() < 0 {
					// the source may be longer than the destination: only when provably so, and then truncated
					if l2, _ := sl.Sub(dl).Bounds(); l2.Sign() < 0 {
						it.abortf("copy of %s bytes into a buffer of %s bytes in %s", sl, dl, fr.fn)
					}
					head, _, okT := it.splitSegs(src, dl)
					if !okT {
						it.abortf("copy truncates its source inside a segment in %s", fr.fn)
					}
					src, sl = head, dl
				}
				it.bufWrite(bd.C, bd.bufOff(), src, fr.fn)
				return termValue(sl)
			}
		}
		dst, ok1 := it.asSlice(args[0])
		if !ok1 {
			it.abortf("copy into %s in %s", show(args[0]), fr.fn)
		}
		dn, okd := it.ApplyTerm(dst.Len).IsConst()
		if !okd {
			it.abortf("copy into a slice of symbolic length in %s", fr.fn)
		}
		if dst.Arr.Obj != nil && dst.Arr.Obj.Global && !isInit(fr.fn) {
			it.event("global-store", fr.fn, x.Pos(), "copy into package-level variable %s outside init", dst.Arr.Path())
		}
		n := int(dn.Int64())
		switch src := args[1].(type) {
		case SliceV, AbsSlice:
			sv, ok := it.asSlice(src)
			if !ok {
				it.abortf("copy from a string of symbolic length in %s", fr.fn)
			}
			sn, oks := it.ApplyTerm(sv.Len).IsConst()
			if !oks {
				it.abortf("copy from a slice of symbolic length in %s", fr.fn)
			}
			if int(sn.Int64()) < n {
				n = int(sn.Int64())
			}
			if sv.Arr.Rep != nil && dst.Lo == 0 && sv.Lo == 0 && n == len(dst.Arr.Kids) && n == len(sv.Arr.Kids) {
				if dst.Arr.Up != nil && dst.Arr.Up.Rep != nil {
					it.materialise(dst.Arr.Up)
				}
				it.setRep(dst.Arr, sv.Arr.Rep)
				return KInt{big.NewInt(int64(n))}
			}
			vals := make([]Value, n)
			for i := 0; i < n; i++ {
				vals[i] = it.loadValue(sv.Arr.Kids[sv.Lo+i])
			}
			if dst.Arr.Rep != nil {
				it.materialise(dst.Arr)
			}
			for i := 0; i < n; i++ {
				it.storeValue(dst.Arr.Kids[dst.Lo+i], vals[i])
			}
		case KStr:
			if len(src) < n {
				n = len(src)
			}
			for i := 0; i < n; i++ {
				it.storeValue(dst.Arr.Kids[dst.Lo+i], KInt{big.NewInt(int64(src[i]))})
			}
		case Nil:
			n = 0
		default:
			it.abortf("copy from %s in %s", show(args[1]), fr.fn)
		}
		return KInt{big.NewInt(int64(n))}
	case "append":
		return fr.appendB(x, args)
	case "clear":
		if sv, ok := it.asSlice(args[0]); ok {
			if l, isC := it.ApplyTerm(sv.Len).IsConst(); isC {
				if sv.Arr.Rep != nil {
					it.materialise(sv.Arr)
				}
				for i := 0; i < int(l.Int64()); i++ {
					c := sv.Arr.Kids[sv.Lo+i]
					if len(c.Kids) > 0 {
						it.abortf("clear of a slice of aggregates in %s", fr.fn)
					}
					it.storeValue(c, KInt{big.NewInt(0)})
				}
				return nil
			}
		}
		it.abortf("clear of %s in %s", show(args[0]), fr.fn)
	case "min", "max":
		acc, ok := asTerm(args[0])
		for _, a := range args[1:] {
			t, ok2 := asTerm(a)
			if !ok || !ok2 {
				return Top{Why: name}
			}
			lt := LT(t, acc)
			if name == "max" {
				lt = LT(acc, t)
			}
			r := Ite(lt, t, acc)
			if r == nil {
				return Top{Why: name}
			}
			acc = r
		}
		if ok {
			return termValue(acc)
		}
	}
	it.abortf("builtin %s in %s", name, fr.fn)
	return nil
}

func (fr *Frame) appendB(x *ssa.Call, args []Value) Value {
	return fr.appendValues(x.Type(), args[0], args[1])
}

// appendValues is append(a, b...) on abstract values; t is the slice type of the result.
func (fr *Frame) appendValues(t types.Type, a0, a1 Value) Value {
	it := fr.it
	args := []Value{a0, a1}
	elemT := t.Underlying().(*types.Slice).Elem()
	isByte := false
	if b, ok := elemT.Underlying().(*types.Basic); ok && b.Kind() == types.Uint8 {
		isByte = true
	}
	// abstract strings
	args[0], args[1] = it.rd(args[0]), it.rd(args[1])
	_, aAbs := args[0].(AbsSlice)
	_, bAbs := args[1].(AbsSlice)
	if sv, ok := args[0].(SliceV); ok {
		if _, isC := it.ApplyTerm(sv.Len).IsConst(); !isC {
			aAbs = true
		}
	}
	if isByte && (aAbs || bAbs) {
		s0, ok0 := it.sliceSegs(args[0])
		s1, ok1 := it.sliceSegs(args[1])
		if !ok0 || !ok1 {
			it.abortf("append of unknown strings (%s ; %s) in %s", show(args[0]), show(args[1]), fr.fn)
		}
		return AbsSlice{Segs: normSegs(append(append([]Seg{}, s0...), s1...))}
	}
	var base SliceV
	switch b := args[0].(type) {
	case Nil:
		base = SliceV{Len: TInt(0), Cap: 0}
	case SliceV:
		base = b
	default:
		it.abortf("append to %s in %s", show(args[0]), fr.fn)
	}
	ln, ok := it.ApplyTerm(base.Len).IsConst()
	if !ok {
		it.abortf("append to a slice of symbolic length in %s", fr.fn)
	}
	l := int(ln.Int64())
	// elements
	var elems []Value
	switch s := args[1].(type) {
	case Nil:
	case SliceV:
		sn, ok := it.ApplyTerm(s.Len).IsConst()
		if !ok {
			it.abortf("append of a slice of symbolic length in %s", fr.fn)
		}
		for i := 0; i < int(sn.Int64()); i++ {
			elems = append(elems, it.loadValue(s.Arr.Kids[s.Lo+i]))
		}
	case KStr:
		for i := 0; i < len(s); i++ {
			elems = append(elems, KInt{big.NewInt(int64(s[i]))})
		}
	default:
		it.abortf("append of %s in %s", show(args[1]), fr.fn)
	}
	n := len(elems)
	if base.Cap >= 0 && l+n <= base.Cap && base.Arr != nil {
		for i, e := range elems {
			it.storeValue(base.Arr.Kids[base.Lo+l+i], e)
		}
		return SliceV{Arr: base.Arr, Lo: base.Lo, Len: TInt(int64(l + n)), Cap: base.Cap}
	}
	nc := l + n
	if base.Cap > 0 && 2*base.Cap > nc {
		nc = 2 * base.Cap
	}
	o := it.NewArrayObject(elemT, nc, fr.fn.Name()+".append", false)
	for i := 0; i < l; i++ {
		it.storeValue(o.Root.Kids[i], it.loadValue(base.Arr.Kids[base.Lo+i]))
	}
	for i, e := range elems {
		it.storeValue(o.Root.Kids[l+i], e)
	}
	return SliceV{Arr: o.Root, Lo: 0, Len: TInt(int64(nc - (nc - l - n))), Cap: nc}
}

func (fr *Frame) invoke(x *ssa.Call, recv Value, method string, args []Value) Value {
	it := fr.it
	if ifc, ok := recv.(Iface); ok {
		recv = ifc.Dyn
	}
	switch r := recv.(type) {
	case HashRef:
		h := r.H
		switch method {
		case "Reset":
			h.Pending = nil
			return nil
		case "Write":
			segs, ok := it.sliceSegs(args[0])
			if !ok {
				it.abortf("hash.Write of %s in %s", show(args[0]), fr.fn)
			}
			for _, g := range segs {
				if g.Bytes == nil {
					if k, isC := it.ApplyTerm(g.Len).IsConst(); isC && k.Sign() == 0 {
						continue // nothing is absorbed for a string that is empty on this path
					}
				}
				h.Pending = append(append([]Seg{}, h.Pending...), g)
			}
			n := it.lenTerm(args[0])
			var nv Value = Top{Why: "n"}
			if n != nil {
				nv = termValue(n)
			}
			return Tuple{nv, Nil{}}
		case "Sum":
			pre, ok := it.sliceSegs(args[0])
			if !ok {
				it.abortf("hash.Sum with an unknown prefix in %s", fr.fn)
			}
			h.Sums++
			d := HashDigest(h.Alg, h.Pending)
			if len(pre) != 0 || func() bool { sv, isS := args[0].(SliceV); return isS && sv.Cap >= 32 }() {
				// Sum(b) appends the digest to b: in place when the capacity suffices
				sv, isS := it.rd(args[0]).(SliceV)
				ln, isC := TInt(0), true
				if isS {
					var k *big.Int
					k, isC = it.ApplyTerm(sv.Len).IsConst()
					if isC {
						ln = TConst(k)
					}
				}
				if !isS || !isC {
					it.abortf("hash.Sum with a prefix of symbolic length in %s", fr.fn)
				}
				n := int(func() int64 { k, _ := ln.IsConst(); return k.Int64() }())
				if sv.Cap >= n+32 && sv.Lo+n+32 <= len(sv.Arr.Kids) {
					for i := 0; i < 32; i++ {
						it.storeValue(sv.Arr.Kids[sv.Lo+n+i], termValue(ByteOf(d, 31-i)))
					}
					return SliceV{Arr: sv.Arr, Lo: sv.Lo, Len: TInt(int64(n + 32)), Cap: sv.Cap}
				}
				o := it.NewArrayObject(types.Typ[types.Uint8], n+32, "digest", false)
				for i := 0; i < n; i++ {
					o.Root.Kids[i].Val = it.loadValue(sv.Arr.Kids[sv.Lo+i])
				}
				for i := 0; i < 32; i++ {
					o.Root.Kids[n+i].Val = termValue(ByteOf(d, 31-i))
				}
				return SliceV{Arr: o.Root, Lo: 0, Len: TInt(int64(n + 32)), Cap: n + 32}
			}
			o := it.NewArrayObject(types.Typ[types.Uint8], 32, "digest", false)
			for i := range o.Root.Kids {
				o.Root.Kids[i].Val = termValue(ByteOf(d, 31-i))
			}
			return SliceV{Arr: o.Root, Lo: 0, Len: TInt(32), Cap: 32}
		case "Size":
			return KInt{big.NewInt(32)}
		case "BlockSize":
			return KInt{big.NewInt(64)}
		case "MarshalBinary":
			// the serialised state determines (and is determined by) the bytes written so far
			return Tuple{HashState{Alg: h.Alg, Pending: append([]Seg{}, h.Pending...)}, Nil{}}
		case "UnmarshalBinary":
			if st, ok := args[0].(HashState); ok && st.Alg == h.Alg {
				h.Pending = append([]Seg{}, st.Pending...)
				return Nil{}
			}
		}
	}
	it.event("unmodelled", fr.fn, x.Pos(), "interface call %s on %s", method, show(recv))
	return it.unknownResult(x, args)
}

func calleeKey(fn *ssa.Function) string {
	pkg := ""
	if fn.Pkg != nil {
		pkg = fn.Pkg.Pkg.Path()
	} else if o := fn.Origin(); o != nil && o.Pkg != nil {
		pkg = o.Pkg.Pkg.Path()
	}
	name := fn.Name()
	if o := fn.Origin(); o != nil {
		name = o.Name()
	}
	recv := ""
	if r := fn.Signature.Recv(); r != nil {
		t := r.Type()
		if p, ok := t.(*types.Pointer); ok {
			t = p.Elem()
		}
		if n, ok := t.(*types.Named); ok {
			recv = n.Obj().Name() + "."
		}
	}
	return pkg + "." + recv + name
}

func wordArg(v Value) (*Term, bool) { return asTerm(v) }

func (it *Interp) stdlib(fr *Frame, x *ssa.Call, fn *ssa.Function, args []Value) Value {
	key := calleeKey(fn)
	if fn.Name() == "init" && len(fn.Params) == 0 {
		return nil // initialisers of other packages
	}
	if it.Cfg.Opaque {
		// schedule analysis: a standard-library function is not a field-level operation; its results and
		// the memory it may write become unknown (secret if any operand is)
		switch key {
		case "errors.New", "fmt.Errorf", "crypto.Hash.New", "crypto/sha256.New":
		default:
			return it.unknownResult(x, args)
		}
	}
	switch key {
	case "math/bits.Sub64":
		a, ok1 := wordArg(args[0])
		b, ok2 := wordArg(args[1])
		c, ok3 := wordArg(args[2])
		if ok1 && ok2 && ok3 {
			d, bo := Sub64(a, b, c)
			return Tuple{termValue(d), termValue(bo)}
		}
	case "math/bits.Add64":
		a, ok1 := wordArg(args[0])
		b, ok2 := wordArg(args[1])
		c, ok3 := wordArg(args[2])
		if ok1 && ok2 && ok3 {
			s := a.Add(b).Add(c)
			if fits(s, 64, false) {
				return Tuple{termValue(s), KInt{new(big.Int)}}
			}
			if lo := wrapPure(s, 64, false); lo != nil {
				hi := pureFunc(func(v []*big.Int) *big.Int { return new(big.Int).Rsh(v[0], 64) }, s)
				return Tuple{termValue(lo), termValue(hi)}
			}
			// adding a constant limb by limb (x + (2^256 - m), the carry telling x >= m): the chain is the borrow chain
			// of x - (2^256 - K) with carry = 1 - borrow, exactly, limb for limb
			for i := 0; i < 2; i++ {
				x, k := a, b
				if i == 1 {
					x, k = b, a
				}
				kc, isK := k.IsConst()
				if !isK || kc.Sign() < 0 || kc.BitLen() > 64 {
					continue
				}
				if _, xc := x.IsConst(); xc {
					continue
				}
				if c0, isC := c.IsConst(); isC && c0.Sign() == 0 && kc.Sign() != 0 {
					d, bo := Sub64(x, TConst(new(big.Int).Sub(two64, kc)), TInt(0))
					return Tuple{termValue(d), termValue(TInt(1).Sub(bo))}
				}
				if bp := TInt(1).Sub(c).SinglePred(); bp != nil {
					if _, has := A.borrow[bp]; has {
						d, bo := Sub64(x, TConst(new(big.Int).Sub(mask64, kc)), TPred(bp))
						return Tuple{termValue(d), termValue(TInt(1).Sub(bo))}
					}
				}
			}
			return Tuple{TermV{WOp(64, "add64.sum", a, b, c)}, TermV{BIT(WOp(64, "add64.carry", a, b, c), 0)}}
		}
	case "math/bits.Mul64":
		a, ok1 := wordArg(args[0])
		b, ok2 := wordArg(args[1])
		if ok1 && ok2 {
			ka, c1 := a.IsConst()
			kb, c2 := b.IsConst()
			if c1 && c2 {
				p := new(big.Int).Mul(ka, kb)
				return Tuple{KInt{new(big.Int).Rsh(p, 64)}, KInt{new(big.Int).And(p, mask64)}}
			}
			return Tuple{TermV{WOp(64, "mul64.hi", a, b)}, TermV{WOp(64, "mul64.lo", a, b)}}
		}
	case "encoding/binary.bigEndian.Uint64", "encoding/binary.bigEndian.Uint32", "encoding/binary.bigEndian.Uint16",
		"encoding/binary.littleEndian.Uint64", "encoding/binary.littleEndian.Uint32", "encoding/binary.littleEndian.Uint16":
		n := map[string]int{"Uint64": 8, "Uint32": 4, "Uint16": 2}[fn.Name()]
		le := strings.Contains(key, "littleEndian")
		if s, ok := it.asSlice(args[1]); ok {
			if l, isC := it.ApplyTerm(s.Len).IsConst(); isC && int(l.Int64()) >= n {
				t := TInt(0)
				good := true
				for k := 0; k < n; k++ {
					b, ok := asTerm(it.loadValue(s.Arr.Kids[s.Lo+k]))
					if !ok {
						good = false
						break
					}
					if le {
						t = t.Add(b.Scale(pow2(8 * k)))
					} else {
						t = t.Add(b.Scale(pow2(8 * (n - 1 - k))))
					}
				}
				if good {
					return termValue(t.Recompose())
				}
			} else if isC {
				panic(&goPanic{val: KStr("index out of range"), fn: fr.fn, pos: x.Pos()})
			}
		}
	case "encoding/binary.bigEndian.PutUint64", "encoding/binary.bigEndian.PutUint32", "encoding/binary.bigEndian.PutUint16",
		"encoding/binary.littleEndian.PutUint64", "encoding/binary.littleEndian.PutUint32", "encoding/binary.littleEndian.PutUint16":
		n := map[string]int{"PutUint64": 8, "PutUint32": 4, "PutUint16": 2}[fn.Name()]
		le := strings.Contains(key, "littleEndian")
		if s, ok := it.asSlice(args[1]); ok {
			if v, ok := asTerm(args[2]); ok {
				if l, isC := it.ApplyTerm(s.Len).IsConst(); isC && int(l.Int64()) >= n {
					for k := 0; k < n; k++ {
						if le {
							it.storeValue(s.Arr.Kids[s.Lo+k], termValue(ByteOf(v, k)))
						} else {
							it.storeValue(s.Arr.Kids[s.Lo+k], termValue(ByteOf(v, n-1-k)))
						}
					}
					return nil
				} else if isC {
					panic(&goPanic{val: KStr("index out of range"), fn: fr.fn, pos: x.Pos()})
				}
			}
		}
	case "encoding/binary.bigEndian.AppendUint64", "encoding/binary.bigEndian.AppendUint32", "encoding/binary.bigEndian.AppendUint16",
		"encoding/binary.littleEndian.AppendUint64", "encoding/binary.littleEndian.AppendUint32", "encoding/binary.littleEndian.AppendUint16":
		n := map[string]int{"AppendUint64": 8, "AppendUint32": 4, "AppendUint16": 2}[fn.Name()]
		le := strings.Contains(key, "littleEndian")
		if v, ok := asTerm(args[2]); ok {
			o := it.NewArrayObject(types.Typ[types.Uint8], n, "be", false)
			for k := 0; k < n; k++ {
				if le {
					o.Root.Kids[k].Val = termValue(ByteOf(v, k))
				} else {
					o.Root.Kids[k].Val = termValue(ByteOf(v, n-1-k))
				}
			}
			tail := SliceV{Arr: o.Root, Lo: 0, Len: TInt(int64(n)), Cap: n}
			return fr.appendValues(x.Type(), args[1], tail)
		}
	case "slices.Reverse":
		if sv, ok := it.asSlice(args[0]); ok {
			if l, isC := it.ApplyTerm(sv.Len).IsConst(); isC {
				n := int(l.Int64())
				if sv.Arr.Rep != nil {
					it.materialise(sv.Arr)
				}
				vals := make([]Value, n)
				for i := 0; i < n; i++ {
					vals[i] = it.loadValue(sv.Arr.Kids[sv.Lo+i])
				}
				for i := 0; i < n; i++ {
					it.storeValue(sv.Arr.Kids[sv.Lo+i], vals[n-1-i])
				}
				return nil
			}
		}
	case "encoding/hex.EncodedLen":
		if t, ok := asTerm(args[0]); ok {
			return termValue(it.ApplyTerm(t).Scale(big.NewInt(2)))
		}
	case "encoding/hex.DecodedLen":
		if t, ok := asTerm(args[0]); ok {
			if k, isC := it.ApplyTerm(t).IsConst(); isC {
				return KInt{new(big.Int).Rsh(k, 1)}
			}
			return termValue(WOp(64, "shr", it.ApplyTerm(t), TInt(1)))
		}
	case "encoding/hex.Decode":
		// hex.Decode(make([]byte, hex.DecodedLen(len(h))), []byte(h)) is hex.DecodeString(h)
		if src, ok := it.rd(args[1]).(AbsSlice); ok && len(src.Segs) == 1 && strings.HasPrefix(src.Segs[0].Name, "str:") {
			// into a buffer of fixed size, from a string whose length is fixed on this path
			if sl, isC := it.ApplyTerm(src.Segs[0].Len).IsConst(); isC && sl.Bit(0) == 0 {
				if d, okD := it.asSlice(args[0]); okD {
					if dl, isD := it.ApplyTerm(d.Len).IsConst(); isD {
						n := int(sl.Int64() / 2)
						name := strings.TrimPrefix(src.Segs[0].Name, "str:")
						if int(dl.Int64()) < n {
							panic(&goPanic{val: KStr("index out of range (hex.Decode into a short buffer)"), fn: fr.fn, pos: x.Pos()})
						}
						for i := 0; i < n; i++ {
							it.storeValue(d.Arr.Kids[d.Lo+i], TermV{SymByte(fmt.Sprintf("unhex(%s)[%d]", name, i))})
						}
						return Tuple{KInt{big.NewInt(int64(n))}, SymIface{IsNil: SymBool("hexvalid(" + name + ")"), Name: "hex error"}}
					}
				}
			}
			// into a whole, still all-zero fixed byte array (a stack buffer), from a string of symbolic length: the array is
			// followed as a buffer from here on (see the copy builtin): unhex(h) followed by the untouched zeros
			if sv, isS := args[0].(SliceV); isS && sv.Lo == 0 && sv.Arr.Up == nil && len(sv.Arr.Kids) > 0 && len(sv.Arr.Kids) <= 4096 {
				if _, isC := it.ApplyTerm(src.Segs[0].Len).IsConst(); !isC {
					if n, isN := it.ApplyTerm(sv.Len).IsConst(); isN && int(n.Int64()) == len(sv.Arr.Kids) {
						zero := true
						for _, c := range sv.Arr.Kids {
							if k, isK := it.loadValue(c).(KInt); !isK || k.V.Sign() != 0 {
								zero = false
							}
						}
						// the decoded length must fit: len(h)/2 <= len(array), from the path's bound on len(h)
						_, hiL := it.ApplyTerm(src.Segs[0].Len).Bounds()
						if zero && hiL.IsInt64() && hiL.Int64()/2 <= int64(len(sv.Arr.Kids)) {
							name := strings.TrimPrefix(src.Segs[0].Name, "str:")
							out := SymBytes("unhex(" + name + ")")
							rest := TInt(int64(len(sv.Arr.Kids))).Sub(out.Length())
							if la := out.Length().SingleAtom(); la != nil {
								if it.pathHi == nil {
									it.pathHi = map[*IAtom]*big.Int{}
								}
								it.pathHi[la] = big.NewInt(hiL.Int64() / 2)
							}
							it.setCell(sv.Arr, AbsSlice{Segs: append(append([]Seg{}, out.Segs...), Seg{Zeros: true, Len: rest})})
							return Tuple{termValue(out.Length()), SymIface{IsNil: SymBool("hexvalid(" + name + ")"), Name: "hex error"}}
						}
					}
				}
			}
			if bd, isBuf := args[0].(BufRef); isBuf {
				name := strings.TrimPrefix(src.Segs[0].Name, "str:")
				want := WOp(64, "shr", it.ApplyTerm(src.Segs[0].Len), TInt(1))
				if cur, isA := bd.C.Val.(AbsSlice); isA && len(cur.Segs) == 1 && cur.Segs[0].Zeros && it.ApplyTerm(cur.Segs[0].Len).Equal(want) {
					out := SymBytes("unhex(" + name + ")")
					it.setCell(bd.C, out)
					return Tuple{termValue(out.Length()), SymIface{IsNil: SymBool("hexvalid(" + name + ")"), Name: "hex error"}}
				}
			}
		}
	case "encoding/hex.AppendEncode":
		if segs, ok := it.sliceSegs(args[1]); ok {
			ns := normSegs(segs)
			var src []*Term
			if len(ns) == 1 && ns[0].Bytes != nil {
				src = ns[0].Bytes
			}
			if len(ns) == 0 || src != nil {
				o := it.NewArrayObject(types.Typ[types.Uint8], 2*len(src), "hex", false)
				for i, b := range src {
					o.Root.Kids[2*i].Val = TermV{WOp(8, "hexhi", b)}
					o.Root.Kids[2*i+1].Val = TermV{WOp(8, "hexlo", b)}
				}
				tail := SliceV{Arr: o.Root, Lo: 0, Len: TInt(int64(2 * len(src))), Cap: 2 * len(src)}
				return fr.appendValues(x.Type(), args[0], tail)
			}
		} else if sv, ok := args[1].(SliceV); ok {
			// a source of symbolic length over a concrete backing array (Encode's result), appended to an empty buffer
			if dl := it.lenTerm(args[0]); dl != nil {
				if k, isC := dl.IsConst(); isC && k.Sign() == 0 {
					_, hi := it.ApplyTerm(sv.Len).Bounds()
					n := int(hi.Int64())
					if hi.IsInt64() && n <= 4096 && sv.Lo+n <= len(sv.Arr.Kids) {
						o := it.NewArrayObject(types.Typ[types.Uint8], 2*n, "hex", false)
						good := true
						for i := 0; i < n; i++ {
							b, okB := asTerm(it.loadValue(sv.Arr.Kids[sv.Lo+i]))
							if !okB {
								good = false
								break
							}
							o.Root.Kids[2*i].Val = TermV{WOp(8, "hexhi", b)}
							o.Root.Kids[2*i+1].Val = TermV{WOp(8, "hexlo", b)}
						}
						if good {
							return SliceV{Arr: o.Root, Lo: 0, Len: it.ApplyTerm(sv.Len).Scale(big.NewInt(2)), Cap: 2 * n}
						}
					}
				}
			}
		}
	case "encoding/hex.Encode":
		if d, ok := it.asSlice(args[0]); ok {
			if segs, ok := it.sliceSegs(args[1]); ok {
				ns := normSegs(segs)
				var src []*Term
				if len(ns) == 1 && ns[0].Bytes != nil {
					src = ns[0].Bytes
				}
				if len(ns) == 0 || src != nil {
					if dl, isC := it.ApplyTerm(d.Len).IsConst(); isC && int(dl.Int64()) >= 2*len(src) {
						for i, b := range src {
							it.storeValue(d.Arr.Kids[d.Lo+2*i], TermV{WOp(8, "hexhi", b)})
							it.storeValue(d.Arr.Kids[d.Lo+2*i+1], TermV{WOp(8, "hexlo", b)})
						}
						return KInt{big.NewInt(int64(2 * len(src)))}
					}
				}
			}
		}
	case "crypto/subtle.ConstantTimeSelect":
		v, ok1 := asTerm(args[0])
		a, ok2 := asTerm(args[1])
		b, ok3 := asTerm(args[2])
		if ok1 && ok2 && ok3 {
			v = it.ApplyTerm(v)
			if !inRange(v, 1) {
				it.event("selector", fr.fn, x.Pos(), "ConstantTimeSelect selector %s is not provably 0 or 1", v)
				return Top{Why: "select with a selector outside {0,1}"}
			}
			if r := Ite(v, a, b); r != nil {
				return termValue(r)
			}
		}
	case "crypto/subtle.ConstantTimeCopy":
		v, ok1 := asTerm(args[0])
		d, ok2 := it.asSlice(args[1])
		s, ok3 := it.asSlice(args[2])
		if ok1 && ok2 && ok3 {
			v = it.ApplyTerm(v)
			dl, c1 := it.ApplyTerm(d.Len).IsConst()
			sl, c2 := it.ApplyTerm(s.Len).IsConst()
			if c1 && c2 {
				if dl.Cmp(sl) != 0 {
					panic(&goPanic{val: KStr("subtle: slices have different lengths"), fn: fr.fn, pos: x.Pos()})
				}
				if !inRange(v, 1) {
					it.event("selector", fr.fn, x.Pos(), "ConstantTimeCopy selector %s is not provably 0 or 1", v)
				}
				for i := 0; i < int(dl.Int64()); i++ {
					dv, okd := asTerm(it.loadValue(d.Arr.Kids[d.Lo+i]))
					sv, oks := asTerm(it.loadValue(s.Arr.Kids[s.Lo+i]))
					var r *Term
					if okd && oks && inRange(v, 1) {
						r = Ite(v, sv, dv)
					}
					if r == nil {
						it.storeValue(d.Arr.Kids[d.Lo+i], Top{Why: "ConstantTimeCopy"})
					} else {
						it.storeValue(d.Arr.Kids[d.Lo+i], termValue(r))
					}
				}
				return nil
			}
		}
	case "encoding/hex.EncodeToString":
		if segs, ok := it.sliceSegs(args[0]); ok {
			s := normSegs(segs)
			if len(s) == 0 {
				return HexStr{Len: TInt(0)}
			}
			if len(s) == 1 && s[0].Bytes != nil {
				return HexStr{Bytes: s[0].Bytes, Len: it.lenTerm(args[0])}
			}
		} else if sv, ok := args[0].(SliceV); ok {
			// symbolic length over a concrete backing array (Encode's result)
			var bs []*Term
			_, hi := it.ApplyTerm(sv.Len).Bounds()
			for i := 0; i < int(hi.Int64()) && sv.Lo+i < len(sv.Arr.Kids); i++ {
				b, ok := asTerm(it.loadValue(sv.Arr.Kids[sv.Lo+i]))
				if !ok {
					bs = nil
					break
				}
				bs = append(bs, b)
			}
			if bs != nil {
				return HexStr{Bytes: bs, Len: it.ApplyTerm(sv.Len)}
			}
		}
	case "encoding/hex.DecodeString":
		if s, ok := args[0].(SymStr); ok {
			return Tuple{SymBytes("unhex(" + s.Name + ")"), SymIface{IsNil: SymBool("hexvalid(" + s.Name + ")"), Name: "hex error"}}
		}
	case "encoding/hex.AppendDecode":
		// AppendDecode(dst[:0], []byte(h)) is DecodeString(h) into the given buffer
		if src, ok := args[1].(AbsSlice); ok && len(src.Segs) == 1 && strings.HasPrefix(src.Segs[0].Name, "str:") {
			if n, isC := it.lenTerm(args[0]).IsConst(); isC && n.Sign() == 0 {
				name := strings.TrimPrefix(src.Segs[0].Name, "str:")
				return Tuple{SymBytes("unhex(" + name + ")"), SymIface{IsNil: SymBool("hexvalid(" + name + ")"), Name: "hex error"}}
			}
		}
	case "fmt.Errorf":
		o := it.NewObject(types.Typ[types.Int], "fmt.Errorf", false)
		return Iface{Dyn: Ptr{o.Root}}
	case "errors.New":
		name := "error"
		if s, ok := args[0].(KStr); ok {
			name = "error(" + string(s) + ")"
		}
		o := it.NewObject(types.Typ[types.Int], name, false)
		return Iface{Dyn: Ptr{o.Root}}
	case "math.Ceil":
		if f, ok := args[0].(KFloat); ok {
			return KFloat(math.Ceil(float64(f)))
		}
	case "crypto.Hash.New":
		if k, ok := args[0].(KInt); ok {
			it.nobj++
			h := &HashObj{ID: it.nobj, Alg: k.V.Int64()}
			it.Hashes = append(it.Hashes, h)
			return Iface{Dyn: HashRef{h}}
		}
	case "crypto/sha256.New":
		it.nobj++
		h := &HashObj{ID: it.nobj, Alg: 5}
		it.Hashes = append(it.Hashes, h)
		return Iface{Dyn: HashRef{h}}
	case "sync.Pool.Get":
		// the pool's New function makes the object; a recycled object is in the state its previous user left it in:
		// a hash state is marked as holding unknown input until it is reset
		if pp, ok := args[0].(Ptr); ok {
			if st, isS := pp.C.Typ.Underlying().(*types.Struct); isS {
				for i := 0; i < st.NumFields(); i++ {
					if st.Field(i).Name() != "New" || i >= len(pp.C.Kids) {
						continue
					}
					var callee *ssa.Function
					var binds []Value
					switch fv := it.loadValue(pp.C.Kids[i]).(type) {
					case FuncV:
						callee = fv.Fn
					case ClosureV:
						callee, binds = fv.Fn, fv.Binds
					}
					if callee == nil || !it.P.InModule(callee) {
						break
					}
					it.pendingBinds = binds
					r := it.callFn(callee, nil, false)
					stale := func(hr HashRef) {
						hr.H.Pending = []Seg{{Name: "state left in the pool by a previous user", Len: SymInt("len(pooled-state)", bigZero, big.NewInt(math.MaxInt64))}}
					}
					if ifc, isI := r.(Iface); isI {
						if hr, isH := ifc.Dyn.(HashRef); isH {
							stale(hr)
						}
						if pr, isP := ifc.Dyn.(Ptr); isP {
							// a pooled structure: whatever a previous user left in it.  Hash states hold unknown input until
							// reset; every other field holds an unknown value until it is written
							var walk func(c *Cell)
							walk = func(c *Cell) {
								if len(c.Kids) > 0 {
									c.Rep = nil
									for _, k := range c.Kids {
										walk(k)
									}
									return
								}
								if ic, isIc := c.Val.(Iface); isIc {
									if hr, isH := ic.Dyn.(HashRef); isH {
										stale(hr)
										return
									}
								}
								switch c.Val.(type) {
								case FuncV, ClosureV:
									return
								}
								it.storeValue(c, Top{Why: "state left in the pooled object by a previous user"})
							}
							walk(pr.C)
						}
					}
					return r
				}
			}
		}
	case "sync.Pool.Put":
		// a nil pointer put into the pool comes back from a later Get and is dereferenced there
		if len(args) >= 2 {
			v := args[1]
			if ifc, isI := v.(Iface); isI {
				if _, isNil := ifc.Dyn.(Nil); isNil {
					it.event("pool-nil", fr.fn, x.Pos(), "a nil pointer is put into the sync.Pool: the next Get hands it out and the function that takes it dereferences nil")
				}
			}
		}
		return nil
	case "bytes.Join", "slices.Concat":
		// concatenation of byte strings (bytes.Join with an empty separator)
		sepOK := key == "slices.Concat"
		if !sepOK {
			if sep, okS := it.sliceSegs(args[1]); okS && len(sep) == 0 {
				sepOK = true
			}
		}
		if sepOK {
			if sv, okV := it.rd(args[0]).(SliceV); okV {
				if n, isC := it.ApplyTerm(sv.Len).IsConst(); isC {
					var segs []Seg
					good := true
					for i := 0; i < int(n.Int64()); i++ {
						part, okP := it.sliceSegs(it.loadValue(sv.Arr.Kids[sv.Lo+i]))
						if !okP {
							good = false
							break
						}
						segs = append(segs, part...)
					}
					if good {
						return AbsSlice{Segs: normSegs(segs)}
					}
				}
			}
		}
	case "crypto/sha256.Sum256":
		if segs, okS := it.sliceSegs(args[0]); okS {
			var pend []Seg
			for _, g := range segs {
				if g.Bytes == nil {
					if k, isC := it.ApplyTerm(g.Len).IsConst(); isC && k.Sign() == 0 {
						continue
					}
				}
				pend = append(pend, g)
			}
			d := HashDigest(5, pend)
			o := it.NewArrayObject(types.Typ[types.Uint8], 32, "digest", false)
			for i := range o.Root.Kids {
				o.Root.Kids[i].Val = termValue(ByteOf(d, 31-i))
			}
			return Agg{o.Root}
		}
	case "crypto.Hash.Available":
		// the registry linkage itself (the hash package is in the import closure of the library) is C17's rule
		if k, ok := args[0].(KInt); ok && k.V.Int64() == 5 {
			return KBool(true)
		}
	case "crypto/subtle.XORBytes":
		if bd, isBuf := args[0].(BufRef); isBuf {
			if _, conc := it.bufConc(bd); !conc {
				a, ok1 := it.asSlice(args[1])
				b, ok2 := it.asSlice(args[2])
				if ok1 && ok2 {
					al, c1 := it.ApplyTerm(a.Len).IsConst()
					bl, c2 := it.ApplyTerm(b.Len).IsConst()
					if c1 && c2 {
						n := int(al.Int64())
						if int(bl.Int64()) < n {
							n = int(bl.Int64())
						}
						if dl := it.lenTerm(bd); dl != nil {
							if lo, _ := dl.Sub(TInt(int64(n))).Bounds(); lo.Sign() >= 0 {
								var bs []*Term
								good := true
								for i := 0; i < n; i++ {
									ta, oka := asTerm(it.loadValue(a.Arr.Kids[a.Lo+i]))
									tb, okb := asTerm(it.loadValue(b.Arr.Kids[b.Lo+i]))
									if !oka || !okb {
										good = false
										break
									}
									bs = append(bs, wXor(ta, tb, 8))
								}
								if good {
									it.bufWrite(bd.C, bd.bufOff(), []Seg{{Bytes: bs}}, fr.fn)
									return KInt{big.NewInt(int64(n))}
								}
							}
						}
					}
				}
			}
		}
		d, ok0 := it.asSlice(args[0])
		a, ok1 := it.asSlice(args[1])
		b, ok2 := it.asSlice(args[2])
		if ok0 && ok1 && ok2 {
			dl, c0 := it.ApplyTerm(d.Len).IsConst()
			al, c1 := it.ApplyTerm(a.Len).IsConst()
			bl, c2 := it.ApplyTerm(b.Len).IsConst()
			if c0 && c1 && c2 {
				n := int(al.Int64())
				if int(bl.Int64()) < n {
					n = int(bl.Int64())
				}
				if int(dl.Int64()) < n {
					panic(&goPanic{val: KStr("subtle.XORBytes: dst too short"), fn: fr.fn, pos: x.Pos()})
				}
				vals := make([]Value, n)
				for i := 0; i < n; i++ {
					ta, oka := asTerm(it.loadValue(a.Arr.Kids[a.Lo+i]))
					tb, okb := asTerm(it.loadValue(b.Arr.Kids[b.Lo+i]))
					if !oka || !okb {
						vals[i] = Top{Why: "xor of unknown bytes"}
						continue
					}
					vals[i] = termValue(wXor(ta, tb, 8))
				}
				for i := 0; i < n; i++ {
					it.storeValue(d.Arr.Kids[d.Lo+i], vals[i])
				}
				return KInt{big.NewInt(int64(n))}
			}
		}
	case "crypto.Hash.Size":
		if k, ok := args[0].(KInt); ok {
			sizes := map[int64]int64{3: 20, 4: 28, 5: 32, 6: 48, 7: 64}
			if s, ok := sizes[k.V.Int64()]; ok {
				return KInt{big.NewInt(s)}
			}
		}
	case "io.ReadFull", "io.ReadAtLeast":
		if key == "io.ReadAtLeast" {
			// ReadAtLeast(r, buf, len(buf)) is ReadFull(r, buf)
			mn, okM := it.constInt(args[2])
			ln := it.lenTerm(args[1])
			lk, isC := TInt(-1), false
			if ln != nil {
				var k *big.Int
				if k, isC = ln.IsConst(); isC {
					lk = TConst(k)
				}
			}
			if !okM || !isC || !lk.Equal(TInt(int64(mn))) {
				break
			}
		}
		src := args[0]
		if ifc, ok := src.(Iface); ok {
			src = ifc.Dyn
		}
		what := show(src)
		if ev, ok := src.(ExtVar); ok {
			what = ev.Pkg + "." + ev.Name
		}
		if s, ok := it.asSlice(args[1]); ok {
			if l, isC := it.ApplyTerm(s.Len).IsConst(); isC {
				if it.Cfg.LoopUnroll > 0 {
					it.ReadStates = append(it.ReadStates, ReadState{Site: x, Lines: it.stateDigest(0), Shifted: it.stateDigest(1)})
				}
				if it.Cfg.LoopUnroll > 0 && it.nreads > it.Cfg.LoopUnroll {
					it.abortf("loop-cap: more than %d entropy reads on one path", it.Cfg.LoopUnroll+1)
				}
				it.nreads++
				for i := 0; i < int(l.Int64()); i++ {
					it.storeValue(s.Arr.Kids[s.Lo+i], TermV{SymByte(fmt.Sprintf("entropy#%d[%d]", it.nreads, i))})
				}
				it.event("entropy", fr.fn, x.Pos(), "%s|%d", what, l.Int64())
				return Tuple{KInt{l}, SymIface{IsNil: SymBool(fmt.Sprintf("readok#%d", it.nreads)), Name: "read error"}}
			}
		}
	case "bytes.Equal", "crypto/subtle.ConstantTimeCompare":
		sa, ok1 := it.sliceSegs(args[0])
		sb, ok2 := it.sliceSegs(args[1])
		if ok1 && ok2 {
			na, nb := normSegs(sa), normSegs(sb)
			var ba, bb []*Term
			if len(na) == 1 && na[0].Bytes != nil {
				ba = na[0].Bytes
			}
			if len(nb) == 1 && nb[0].Bytes != nil {
				bb = nb[0].Bytes
			}
			if (len(na) == 0 || ba != nil) && (len(nb) == 0 || bb != nil) {
				eq := TInt(1)
				if len(ba) != len(bb) {
					eq = TInt(0)
				} else {
					for i := range ba {
						eq = eq.Mul(EQ(ba[i], bb[i]))
					}
				}
				if key == "bytes.Equal" {
					return predValue(eq)
				}
				return termValue(eq)
			}
		}
	case "bytes.Clone", "slices.Clone":
		if segs, ok := it.sliceSegs(args[0]); ok {
			s := normSegs(segs)
			if len(s) == 1 && s[0].Bytes != nil {
				o := it.NewArrayObject(types.Typ[types.Uint8], len(s[0].Bytes), "clone", false)
				for i, b := range s[0].Bytes {
					o.Root.Kids[i].Val = termValue(b)
				}
				return SliceV{Arr: o.Root, Lo: 0, Len: TInt(int64(len(s[0].Bytes))), Cap: len(s[0].Bytes)}
			}
			return AbsSlice{Segs: s}
		}
	case "slices.Grow":
		switch s := args[0].(type) {
		case AbsSlice:
			return s
		case SliceV:
			if n, ok := it.constInt(args[1]); ok {
				if l, isC := it.ApplyTerm(s.Len).IsConst(); isC && s.Cap >= 0 && int(l.Int64())+n <= s.Cap {
					return s
				} else if isC {
					nc := int(l.Int64()) + n
					o := it.NewArrayObject(s.Arr.Typ.Underlying().(*types.Array).Elem(), nc, "grow", false)
					for i := 0; i < int(l.Int64()); i++ {
						it.storeValue(o.Root.Kids[i], it.loadValue(s.Arr.Kids[s.Lo+i]))
					}
					return SliceV{Arr: o.Root, Lo: 0, Len: s.Len, Cap: nc}
				}
			}
		}
	}
	if r, ok := it.bigModel(fr, x, key, args); ok {
		return r
	}
	it.event("unmodelled", fr.fn, x.Pos(), "call of %s", key)
	return it.unknownResult(x, args)
}

var _ = token.NoPos

// SliceContent returns the byte terms of a slice value (up to its maximal length) and its length term.
func (it *Interp) SliceContent(v Value) ([]*Term, *Term, bool) {
	sv, ok := it.asSlice(v)
	if !ok {
		return nil, nil, false
	}
	ln := it.ApplyTerm(sv.Len)
	_, hi := ln.Bounds()
	var bs []*Term
	for i := 0; i < int(hi.Int64()) && sv.Lo+i < len(sv.Arr.Kids); i++ {
		b, ok := asTerm(it.loadValue(sv.Arr.Kids[sv.Lo+i]))
		if !ok {
			return nil, nil, false
		}
		bs = append(bs, it.ApplyTerm(b))
	}
	return bs, ln, true
}

// ArrayContent reads the bytes of an array value (a function result of type [N]byte).
func (it *Interp) ArrayContent(v Value) ([]*Term, bool) {
	var root *Cell
	switch x := v.(type) {
	case Agg:
		root = x.C
	case Ptr:
		root = x.C
	default:
		return nil, false
	}
	var bs []*Term
	for _, k := range root.Kids {
		b, ok := asTerm(it.loadValue(k))
		if !ok {
			return nil, false
		}
		bs = append(bs, it.ApplyTerm(b))
	}
	return bs, true
}

// ConstBytes builds a byte slice of constants (driver input).
func (it *Interp) ConstBytes(bs []int64) Value {
	o := it.NewArrayObject(types.Typ[types.Uint8], len(bs), "const-bytes", true)
	for i, b := range bs {
		o.Root.Kids[i].Val = KInt{big.NewInt(b)}
	}
	return SliceV{Arr: o.Root, Lo: 0, Len: TInt(int64(len(bs))), Cap: len(bs)}
}

// PtrSel is a pointer selected among alternatives: Alts[i] is chosen when Conds[i] holds and no earlier one does
// (the last alternative is the default; its condition is not used). Top is set instead of Conds when the selecting
// value is unknown (a secret in opaque mode).
type PtrSel struct {
	Alts  []*Cell
	Conds []*Term
	Top   *Top
}

func (s PtrSel) condValue(i int) (*Term, Value) {
	if s.Top != nil {
		return nil, *s.Top
	}
	return s.Conds[i], PredV{s.Conds[i]}
}

// mapSel applies f to every alternative.
func (s PtrSel) mapSel(f func(c *Cell) *Cell) PtrSel {
	out := PtrSel{Conds: s.Conds, Top: s.Top}
	for _, c := range s.Alts {
		out.Alts = append(out.Alts, f(c))
	}
	return out
}

func (fr *Frame) callSplit(x *ssa.Call, args []Value, idx int, sel PtrSel) Value {
	return fr.callSplitGen(x, len(sel.Alts), sel, func(i int) Value {
		a2 := append([]Value{}, args...)
		a2[idx] = Ptr{sel.Alts[i]}
		return fr.callArgs(x, a2)
	})
}

// FuncSel is a function value selected among alternatives (an entry of a table of functions read at a symbolic
// index): conditions as in PtrSel.
type FuncSel struct {
	Fns []Value
	Sel PtrSel
}

// callFuncSel performs a call through a selected function value: once per alternative on the same pre-state, effects
// merged under the selection conditions.
func (fr *Frame) callFuncSel(x *ssa.Call, args []Value, fs FuncSel) Value {
	return fr.callSplitGen(x, len(fs.Fns), fs.Sel, func(i int) Value {
		fr.fnOv = fs.Fns[i]
		return fr.callArgs(x, args)
	})
}

func (fr *Frame) callSplitGen(x *ssa.Call, nalt int, sel PtrSel, run func(i int) Value) Value {
	it := fr.it
	type alt struct {
		ret    Value
		writes map[*Cell]cellState
		trace  []TraceEv
	}
	alts := make([]alt, nalt)
	for i := 0; i < nalt; i++ {
		mark := len(it.journal)
		tmark := len(it.Trace)
		alts[i].ret = run(i)
		alts[i].writes = it.written(mark)
		it.undoTo(mark)
		alts[i].trace = append([]TraceEv{}, it.Trace[tmark:]...)
		it.Trace = it.Trace[:tmark]
	}
	// trace discipline: the alternatives must execute the same sequence of function entries
	k0 := traceKey(alts[0].trace)
	same := true
	for _, a := range alts[1:] {
		if traceKey(a.trace) != k0 {
			same = false
		}
	}
	if !same && sel.Top != nil && sel.Top.Taint {
		it.event("trace-divergence", fr.fn, x.Pos(), "a call through a pointer selected by a secret value executes different sequences of field-level operations depending on the selection")
	}
	it.Trace = append(it.Trace, alts[0].trace...)
	// merge from the default alternative backwards
	n := len(alts)
	cells := map[*Cell]bool{}
	for _, a := range alts {
		for c := range a.writes {
			cells[c] = true
		}
	}
	state := func(a alt, c *Cell) cellState { return it.stateIn(a.writes, c) }
	for c := range cells {
		acc := state(alts[n-1], c)
		for i := n - 2; i >= 0; i-- {
			p, cv := sel.condValue(i)
			acc = it.mergeState(p, cv, state(alts[i], c), acc, c)
		}
		if os.Getenv("SVDEBUGSEL") != "" {
			fmt.Fprintf(os.Stderr, "SEL %s cell %s:", x.Common().Value.Name(), c.Path())
			for i := range alts {
				st := state(alts[i], c)
				if st.rep != nil {
					fmt.Fprintf(os.Stderr, " alt%d=rep(%s)", i, st.rep.T)
				} else {
					fmt.Fprintf(os.Stderr, " alt%d=%s", i, show(st.val))
				}
			}
			if acc.rep != nil {
				fmt.Fprintf(os.Stderr, " => rep(%s)\n", acc.rep.T)
			} else {
				fmt.Fprintf(os.Stderr, " => %s\n", show(acc.val))
			}
		}
		it.journal = append(it.journal, jent{c, c.Val, c.Rep})
		c.Val, c.Rep = acc.val, acc.rep
	}
	ret := alts[n-1].ret
	for i := n - 2; i >= 0; i-- {
		p, cv := sel.condValue(i)
		ret = it.mergeValue(p, cv, alts[i].ret, ret)
	}
	return ret
}

// stateIn is the state of cell c at the end of an arm that made the given writes (the arm has been rolled back, so
// an unwritten cell still shows its state in the arm). A limb array that the arm left as separate limbs is read as
// the integer they compose, so that it can be merged with an arm that stored a whole value.
func (it *Interp) stateIn(writes map[*Cell]cellState, c *Cell) cellState {
	if s, ok := writes[c]; ok {
		return s
	}
	if c.Rep == nil && c.Val == nil && len(c.Kids) > 0 {
		for _, k := range c.Kids {
			if _, w := writes[k]; w {
				return cellState{c.Val, c.Rep}
			}
		}
		if t, ok := it.readInt(c); ok {
			return cellState{rep: &Rep{t}}
		}
	}
	return cellState{c.Val, c.Rep}
}

// errorOnlyFn: fn takes no pointer-like parameter, returns exactly one value of type error, stores nothing outside
// its own frame, calls no function of the module, and every return yields a provably non-nil error (a fresh
// fmt.Errorf/errors.New value, or a package-level error variable that only an initialiser assigns, from errors.New).
func errorOnlyFn(p *load.Prog, fn *ssa.Function) bool {
	sig := fn.Signature
	if sig.Recv() != nil || sig.Results().Len() != 1 || sig.Results().At(0).Type().String() != "error" || fn.Blocks == nil {
		return false
	}
	for i := 0; i < sig.Params().Len(); i++ {
		switch sig.Params().At(i).Type().Underlying().(type) {
		case *types.Basic:
		default:
			return false
		}
	}
	locals := map[ssa.Value]bool{}
	for _, b := range fn.Blocks {
		for _, in := range b.Instrs {
			if a, ok := in.(*ssa.Alloc); ok {
				locals[a] = true
			}
		}
	}
	var root func(v ssa.Value) ssa.Value
	root = func(v ssa.Value) ssa.Value {
		for {
			switch x := v.(type) {
			case *ssa.IndexAddr:
				v = x.X
			case *ssa.FieldAddr:
				v = x.X
			case *ssa.Slice:
				v = x.X
			default:
				return v
			}
		}
	}
	nonNilErr := func(v ssa.Value) bool {
		if mi, ok := v.(*ssa.MakeInterface); ok {
			v = mi.X
		}
		switch x := v.(type) {
		case *ssa.Call:
			if c := x.Call.StaticCallee(); c != nil && c.Pkg != nil {
				n := c.Pkg.Pkg.Path() + "." + c.Name()
				return n == "fmt.Errorf" || n == "errors.New"
			}
		case *ssa.UnOp:
			g, ok := x.X.(*ssa.Global)
			if !ok || x.Op != token.MUL || !p.InModuleGlobal(g) {
				return false
			}
			// assigned only by initialisers, from errors.New / fmt.Errorf
			nst := 0
			for _, f := range p.ModFuncs() {
				for _, b := range f.Blocks {
					for _, in := range b.Instrs {
						st, isSt := in.(*ssa.Store)
						if !isSt || st.Addr != g {
							continue
						}
						nst++
						if !isInit(f) {
							return false
						}
						c, isC := st.Val.(*ssa.Call)
						if !isC || c.Call.StaticCallee() == nil || c.Call.StaticCallee().Pkg == nil {
							return false
						}
						n := c.Call.StaticCallee().Pkg.Pkg.Path() + "." + c.Call.StaticCallee().Name()
						if n != "errors.New" && n != "fmt.Errorf" {
							return false
						}
					}
				}
			}
			return nst > 0
		}
		return false
	}
	for _, b := range fn.Blocks {
		for _, in := range b.Instrs {
			switch x := in.(type) {
			case *ssa.Store:
				if !locals[root(x.Addr)] {
					return false
				}
			case ssa.CallInstruction:
				if c := x.Common().StaticCallee(); c != nil && p.InModule(c) {
					return false
				}
				if x.Common().StaticCallee() == nil && !x.Common().IsInvoke() {
					if _, isB := x.Common().Value.(*ssa.Builtin); !isB {
						return false
					}
				}
				if _, isGo := in.(*ssa.Go); isGo {
					return false
				}
			case *ssa.Return:
				if len(x.Results) != 1 || !nonNilErr(x.Results[0]) {
					return false
				}
			case *ssa.Send, *ssa.MapUpdate:
				return false
			}
		}
	}
	return true
}

// isWholeArray: c is the cell of a complete array variable or field (not a window into a larger array).
func isWholeArray(c *Cell) bool {
	if _, ok := c.Typ.Underlying().(*types.Array); !ok {
		return false
	}
	if c.Up == nil {
		return c.Obj != nil
	}
	return c.Idx < len(c.Up.Kids) && c.Up.Kids[c.Idx] == c
}

// arrayFill: every element of the byte array is the constant 0 (zero), or every element is unknown (stale: a buffer of
// a recycled object).
func (it *Interp) arrayFill(c *Cell) (zero, stale bool) {
	zero, stale = true, true
	for _, k := range c.Kids {
		switch v := it.loadValue(k).(type) {
		case KInt:
			stale = false
			if v.V.Sign() != 0 {
				zero = false
			}
		case Top:
			zero = false
			if v.Taint {
				stale = false
			}
		default:
			zero, stale = false, false
		}
	}
	return zero, stale
}
