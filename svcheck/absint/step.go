package absint

import (
	"go/token"
	"go/types"
	"math"
	"math/big"
	"strings"

	"golang.org/x/tools/go/ssa"
)

// AbsSlice is an immutable byte string of (possibly) symbolic length: a list of segments.
type AbsSlice struct{ Segs []Seg }

// Seg is a named symbolic string (Name, length Len) or a list of byte terms.
type Seg struct {
	Name  string
	Len   *Term
	Bytes []*Term
	Zeros bool  // Len zero bytes
	Stale bool  // Len bytes of unknown content (what a previous user left in a recycled buffer)
	Min   *Term // the minimal big-endian byte string of the integer Min (Len bytes)
}

func (s AbsSlice) Length() *Term {
	n := TInt(0)
	for _, g := range s.Segs {
		if g.Bytes != nil {
			n = n.Add(TInt(int64(len(g.Bytes))))
		} else {
			n = n.Add(g.Len)
		}
	}
	return n
}

func segsKey(segs []Seg) string {
	k := ""
	for _, g := range normSegs(segs) {
		if g.Bytes != nil {
			k += "["
			for _, b := range g.Bytes {
				k += b.Key() + ","
			}
			k += "]"
		} else if g.Zeros {
			k += "<zeros:" + g.Len.Key() + ">"
		} else if g.Stale {
			k += "<stale:" + g.Len.Key() + ">"
		} else if g.Min != nil {
			k += "<min:" + g.Min.Key() + ">"
		} else {
			k += "<" + g.Name + ">"
		}
	}
	return k
}

func normSegs(segs []Seg) []Seg {
	var out []Seg
	for _, g := range segs {
		if g.Bytes != nil && len(g.Bytes) == 0 {
			continue
		}
		if g.Bytes != nil && len(out) > 0 && out[len(out)-1].Bytes != nil {
			last := &out[len(out)-1]
			last.Bytes = append(append([]*Term{}, last.Bytes...), g.Bytes...)
			continue
		}
		out = append(out, g)
	}
	return out
}

// SymBytes is a symbolic input byte string.
func SymBytes(name string) AbsSlice {
	return AbsSlice{Segs: []Seg{{Name: name, Len: SymInt("len("+name+")", bigZero, big.NewInt(math.MaxInt64))}}}
}

// concretise turns a single-segment symbolic string whose length is bound to
// a constant on this path into an array of symbolic bytes.
func (it *Interp) concretise(s AbsSlice) (SliceV, bool) {
	if sv, ok := it.concretiseInt(s); ok {
		return sv, true
	}
	if len(s.Segs) != 1 || s.Segs[0].Bytes != nil || s.Segs[0].Zeros || s.Segs[0].Stale || s.Segs[0].Min != nil {
		// several segments of constant length: a fresh array with their bytes (a read-only snapshot)
		if len(s.Segs) >= 1 {
			if vals, ok := it.segValues(s.Segs); ok && len(vals) > 0 {
				o := it.NewArrayObject(types.Typ[types.Uint8], len(vals), "bytes", false)
				for i, c := range o.Root.Kids {
					c.Val = termValue(vals[i])
				}
				return SliceV{Arr: o.Root, Lo: 0, Len: TInt(int64(len(vals))), Cap: len(vals)}, true
			}
		}
		return SliceV{}, false
	}
	g := s.Segs[0]
	l := it.ApplyTerm(g.Len)
	k, ok := l.IsConst()
	if !ok || !k.IsInt64() || k.Int64() > 4096 {
		return SliceV{}, false
	}
	n := int(k.Int64())
	key := g.Name
	if o, ok := it.inputs[key]; ok && len(o.Root.Kids) == n {
		return SliceV{Arr: o.Root, Lo: 0, Len: TInt(int64(n)), Cap: -1}, true
	}
	o := it.NewArrayObject(types.Typ[types.Uint8], n, g.Name, true)
	for i, c := range o.Root.Kids {
		c.Val = TermV{SymByte(g.Name + "[" + itoa(i) + "]")}
		if pc := it.symIdx[g.Name+"["+itoa(i)+"]"]; pc != nil {
			c.Val = pc.Val // the byte was accessed (and possibly written) before the length was fixed
		}
	}
	if it.inputs == nil {
		it.inputs = map[string]*Object{}
	}
	it.inputs[key] = o
	return SliceV{Arr: o.Root, Lo: 0, Len: TInt(int64(n)), Cap: -1}, true
}

// symIndex returns the cell of byte i of a named symbolic string whose length is not yet fixed on this path
// but is provably larger than i.
func (it *Interp) symIndex(v Value, i int) *Cell {
	s, ok := v.(AbsSlice)
	if !ok || len(s.Segs) != 1 || i < 0 {
		return nil
	}
	g := s.Segs[0]
	if g.Bytes != nil || g.Zeros || g.Stale || g.Min != nil || g.Name == "" {
		return nil
	}
	lo, _ := it.ApplyTerm(g.Len).Bounds()
	if lo.Cmp(big.NewInt(int64(i))) <= 0 {
		return nil
	}
	key := g.Name + "[" + itoa(i) + "]"
	if c := it.symIdx[key]; c != nil {
		return c
	}
	o := it.NewObject(types.Typ[types.Uint8], key, true)
	o.Root.Val = TermV{SymByte(key)}
	if it.symIdx == nil {
		it.symIdx = map[string]*Cell{}
	}
	it.symIdx[key] = o.Root
	return o.Root
}

func itoa(i int) string { return big.NewInt(int64(i)).String() }

// asSlice resolves a value to a concrete slice.
func (it *Interp) asSlice(v Value) (SliceV, bool) {
	switch x := it.rd(v).(type) {
	case SliceV:
		return x, true
	case AbsSlice:
		return it.concretise(x)
	}
	return SliceV{}, false
}

func (it *Interp) constInt(v Value) (int, bool) {
	switch x := v.(type) {
	case KInt:
		if x.V.IsInt64() {
			return int(x.V.Int64()), true
		}
	case TermV:
		if k, ok := it.ApplyTerm(x.T).IsConst(); ok && k.IsInt64() {
			return int(k.Int64()), true
		}
	}
	return 0, false
}

func (it *Interp) lenTerm(v Value) *Term {
	if b, ok := v.(BufRef); ok && b.Len != nil {
		return it.ApplyTerm(b.Len)
	}
	switch x := it.rd(v).(type) {
	case SliceV:
		return it.ApplyTerm(x.Len)
	case AbsSlice:
		return it.ApplyTerm(x.Length())
	case Nil:
		return TInt(0)
	case KStr:
		return TInt(int64(len(x)))
	case Ptr:
		return TInt(int64(len(x.C.Kids)))
	case Agg:
		return TInt(int64(len(x.C.Kids)))
	}
	return nil
}

func termValue(t *Term) Value {
	if k, ok := t.IsConst(); ok {
		return KInt{k}
	}
	return TermV{t}
}

// step executes one non-terminator instruction.
func (fr *Frame) step(in ssa.Instruction) {
	it := fr.it
	switch x := in.(type) {
	case *ssa.Defer:
		if fr.inLoop || it.cfg(fr.fn).inLoop[x.Block()] || it.joining[x.Block()] > 0 {
			it.abortf("defer inside a loop or a joined branch in %s", fr.fn)
		}
		dc := deferredCall{d: x}
		for _, a := range x.Call.Args {
			dc.args = append(dc.args, fr.get(a))
		}
		if x.Call.StaticCallee() == nil && !x.Call.IsInvoke() {
			if _, isB := x.Call.Value.(*ssa.Builtin); !isB {
				dc.fnv = fr.get(x.Call.Value)
			}
		}
		fr.defers = append(fr.defers, dc)
	case *ssa.RunDefers:
		for i := len(fr.defers) - 1; i >= 0; i-- {
			dc := fr.defers[i]
			// performed as an ordinary call whose operands were evaluated at the defer statement
			syn := &ssa.Call{Call: dc.d.Call}
			fr.callArgs(syn, dc.args)
		}
		fr.defers = nil
	case *ssa.DebugRef:
	case *ssa.Alloc:
		o := it.NewObject(x.Type().(*types.Pointer).Elem(), fr.fn.Name()+"."+allocName(x), false)
		fr.regs[x] = Ptr{o.Root}
	case *ssa.MakeSlice:
		n, ok1 := it.constInt(fr.get(x.Len))
		c, ok2 := it.constInt(fr.get(x.Cap))
		if ok1 && n == 0 && !ok2 {
			fr.regs[x] = AbsSlice{}
			return
		}
		if !ok1 {
			if lt, isT := fr.get(x.Len).(TermV); isT {
				if lo, _ := it.ApplyTerm(lt.T).Bounds(); lo.Sign() < 0 {
					it.event("bounds", fr.fn, x.Pos(), "make with a possibly negative length %s (possible run-time panic)", lt.T)
				}
				fr.regs[x] = it.newBuf(AbsSlice{Segs: []Seg{{Zeros: true, Len: it.ApplyTerm(lt.T)}}}, fr.fn.Name()+".make")
				return
			}
		}
		if !ok1 || !ok2 {
			it.abortf("make with a symbolic length in %s", fr.fn)
		}
		o := it.NewArrayObject(x.Type().Underlying().(*types.Slice).Elem(), c, fr.fn.Name()+".make", false)
		fr.regs[x] = SliceV{Arr: o.Root, Lo: 0, Len: TInt(int64(n)), Cap: c}
	case *ssa.FieldAddr:
		if sel, isSel := fr.get(x.X).(PtrSel); isSel {
			fr.regs[x] = sel.mapSel(func(c *Cell) *Cell {
				if c.Rep != nil {
					it.materialise(c)
				}
				return c.Kids[x.Field]
			})
			return
		}
		p, ok := fr.get(x.X).(Ptr)
		if !ok {
			it.abortf("field of %s in %s", show(fr.get(x.X)), fr.fn)
		}
		if p.C.Rep != nil {
			it.materialise(p.C)
		}
		fr.regs[x] = Ptr{p.C.Kids[x.Field]}
	case *ssa.Field:
		a, ok := fr.get(x.X).(Agg)
		if !ok {
			it.abortf("field of non-aggregate in %s", fr.fn)
		}
		fr.regs[x] = it.loadValue(a.C.Kids[x.Field])
	case *ssa.IndexAddr:
		fr.regs[x] = fr.indexAddr(x)
	case *ssa.Index:
		a, ok := fr.get(x.X).(Agg)
		i, ok2 := it.constInt(fr.get(x.Index))
		if !ok || !ok2 || i < 0 || i >= len(a.C.Kids) {
			if t, isTop := fr.get(x.Index).(Top); isTop && t.Taint {
				it.event("tainted-index", fr.fn, x.Pos(), "array index depends on a secret value")
			}
			fr.regs[x] = Top{Why: "index"}
			return
		}
		fr.regs[x] = it.loadValue(a.C.Kids[i])
	case *ssa.UnOp:
		fr.regs[x] = fr.unop(x)
	case *ssa.BinOp:
		fr.regs[x] = it.binop(x.Op, it.applyBind(fr.get(x.X)), it.applyBind(fr.get(x.Y)), x.X.Type(), x.Type(), fr.fn, x.Pos())
	case *ssa.Store:
		switch p := fr.get(x.Addr).(type) {
		case Ptr:
			if p.C.Obj != nil && p.C.Obj.Global && !isInit(fr.fn) {
				it.event("global-store", fr.fn, x.Pos(), "store to package-level variable %s outside init", p.C.Path())
			}
			it.storeValue(p.C, fr.get(x.Val))
		case BufElem:
			v, okV := asTerm(fr.get(x.Val))
			if !okV {
				it.abortf("store of %s into a buffer of symbolic length in %s", show(fr.get(x.Val)), fr.fn)
			}
			cur := p.C.Val.(AbsSlice)
			left, right, ok := it.splitSegs(cur.Segs, p.Idx)
			if !ok {
				it.abortf("store at %s into a buffer of symbolic length in %s", p.Idx, fr.fn)
			}
			_, rest, ok2 := it.splitSegs(right, TInt(1))
			if !ok2 {
				it.event("bounds", p.fn, p.pos, "index %s not provably below the length of the buffer (possible run-time panic)", p.Idx)
				it.abortf("store at %s beyond a buffer of symbolic length in %s", p.Idx, fr.fn)
			}
			ns := append(append(append([]Seg{}, left...), Seg{Bytes: []*Term{v}}), rest...)
			it.setCell(p.C, AbsSlice{Segs: normSegs(ns)})
		case PtrSel:
			// conditional store: each alternative keeps its value unless it is the one selected
			v := fr.get(x.Val)
			olds := make([]Value, len(p.Alts))
			for i, c := range p.Alts {
				olds[i] = it.loadValue(c)
			}
			for i, c := range p.Alts {
				nv := v
				// selected iff cond_i holds and no earlier condition does
				if p.Top != nil {
					nv = it.mergeValue(nil, *p.Top, v, olds[i])
				} else {
					selected := p.Conds[i]
					if i == len(p.Alts)-1 {
						selected = TInt(1)
					}
					for j := 0; j < i; j++ {
						selected = selected.Mul(TInt(1).Sub(p.Conds[j]))
					}
					nv = it.mergeValue(selected, PredV{selected}, v, olds[i])
				}
				it.storeValue(c, nv)
			}
		default:
			it.abortf("store through %s in %s", show(fr.get(x.Addr)), fr.fn)
		}
	case *ssa.ChangeType:
		fr.regs[x] = fr.get(x.X)
	case *ssa.ChangeInterface:
		fr.regs[x] = fr.get(x.X)
	case *ssa.MakeInterface:
		fr.regs[x] = Iface{Dyn: fr.get(x.X), Typ: x.X.Type()}
	case *ssa.Convert:
		fr.regs[x] = it.convert(fr.get(x.X), x.X.Type(), x.Type(), fr.fn, x.Pos())
	case *ssa.Slice:
		fr.regs[x] = fr.slice(x)
	case *ssa.SliceToArrayPointer:
		fr.regs[x] = fr.sliceToArray(x)
	case *ssa.Extract:
		t, ok := fr.get(x.Tuple).(Tuple)
		if !ok {
			if tp, isTop := fr.get(x.Tuple).(Top); isTop {
				fr.regs[x] = tp
				return
			}
			it.abortf("extract from %s in %s", show(fr.get(x.Tuple)), fr.fn)
		}
		fr.regs[x] = t[x.Index]
	case *ssa.Call:
		fr.regs[x] = fr.call(x)
	case *ssa.MakeClosure:
		fn, _ := x.Fn.(*ssa.Function)
		var binds []Value
		for _, b := range x.Bindings {
			binds = append(binds, fr.get(b))
		}
		fr.regs[x] = ClosureV{Fn: fn, Binds: binds}
	case *ssa.TypeAssert:
		v := fr.get(x.X)
		dyn := v
		if ifc, ok := dyn.(Iface); ok {
			dyn = ifc.Dyn
		}
		if ifc, ok := v.(Iface); ok && ifc.Typ != nil {
			// the dynamic type is known: the assertion is decided
			holds := false
			if _, isI := x.AssertedType.Underlying().(*types.Interface); isI {
				holds = types.Implements(ifc.Typ, x.AssertedType.Underlying().(*types.Interface))
			} else {
				holds = types.Identical(ifc.Typ, x.AssertedType)
			}
			switch {
			case holds && x.CommaOk:
				if _, isI := x.AssertedType.Underlying().(*types.Interface); isI {
					fr.regs[x] = Tuple{v, KBool(true)}
				} else {
					fr.regs[x] = Tuple{ifc.Dyn, KBool(true)}
				}
				return
			case holds:
				if _, isI := x.AssertedType.Underlying().(*types.Interface); isI {
					fr.regs[x] = v
				} else {
					fr.regs[x] = ifc.Dyn
				}
				return
			case x.CommaOk:
				fr.regs[x] = Tuple{it.zeroValue(x.AssertedType), KBool(false)}
				return
			default:
				panic(&goPanic{val: KStr("interface conversion: type assertion fails"), fn: fr.fn, pos: x.Pos()})
			}
		}
		if _, isNil := v.(Nil); isNil {
			if x.CommaOk {
				fr.regs[x] = Tuple{it.zeroValue(x.AssertedType), KBool(false)}
				return
			}
			panic(&goPanic{val: KStr("interface conversion: interface is nil"), fn: fr.fn, pos: x.Pos()})
		}
		if _, isHash := dyn.(HashRef); !isHash {
			it.event("unmodelled", fr.fn, x.Pos(), "type assertion on %s", show(v))
		}
		if x.CommaOk {
			fr.regs[x] = Tuple{v, Top{Why: "type assertion result"}}
		} else {
			fr.regs[x] = v
		}
	default:
		it.abortf("unsupported instruction %T (%s) in %s", in, in, fr.fn)
	}
}

func isInit(fn *ssa.Function) bool {
	n := fn.Name()
	return n == "init" || (len(n) > 5 && n[:5] == "init#")
}

func allocName(a *ssa.Alloc) string {
	if a.Comment != "" {
		return a.Comment
	}
	return a.Name()
}

func (fr *Frame) unop(x *ssa.UnOp) Value {
	it := fr.it
	v := fr.get(x.X)
	switch x.Op {
	case token.MUL:
		if be, isBE := v.(BufElem); isBE {
			cur := be.C.Val.(AbsSlice)
			_, right, ok := it.splitSegs(cur.Segs, be.Idx)
			if ok && len(right) > 0 {
				g := right[0]
				if g.Bytes != nil && len(g.Bytes) > 0 {
					return termValue(g.Bytes[0])
				}
				if g.Zeros {
					if lo, _ := it.ApplyTerm(g.Len).Bounds(); lo.Sign() > 0 {
						return KInt{big.NewInt(0)}
					}
				}
				if g.Stale {
					return Top{Why: "a byte a previous user left in a recycled buffer"}
				}
			}
			it.abortf("load at %s from a buffer of symbolic length in %s", be.Idx, fr.fn)
		}
		if sel, isSel := v.(PtrSel); isSel {
			n := len(sel.Alts)
			// a table of functions read at a symbolic index: a selected function value
			allFn := true
			var fns []Value
			for _, c := range sel.Alts {
				fv := it.loadValue(c)
				switch fv.(type) {
				case FuncV, ClosureV:
					fns = append(fns, fv)
				default:
					allFn = false
				}
			}
			if allFn && n >= 2 {
				return FuncSel{Fns: fns, Sel: sel}
			}
			acc := it.loadValue(sel.Alts[n-1])
			for i := n - 2; i >= 0; i-- {
				p, cv := sel.condValue(i)
				acc = it.mergeValue(p, cv, it.loadValue(sel.Alts[i]), acc)
			}
			return it.applyAssume(acc)
		}
		p, ok := v.(Ptr)
		if !ok {
			if t, isTop := v.(Top); isTop {
				return Top{Taint: t.Taint, Why: "load through unknown pointer"}
			}
			it.abortf("load through %s in %s", show(v), fr.fn)
		}
		return it.applyAssume(it.loadValue(p.C))
	case token.NOT:
		switch b := v.(type) {
		case KBool:
			return KBool(!b)
		case PredV:
			return PredV{PNot(b.P)}
		case Top:
			return b
		}
	case token.SUB:
		switch b := v.(type) {
		case KInt:
			return KInt{wrapInt(new(big.Int).Neg(b.V), x.Type())}
		case KFloat:
			return KFloat(-b)
		case TermV:
			w, _ := typeWidth(x.Type())
			return termValue(wNeg(b.T, w))
		case PredV:
			w, _ := typeWidth(x.Type())
			return termValue(wNeg(b.P, w))
		case Top:
			return b
		}
	case token.XOR:
		switch b := v.(type) {
		case KInt:
			return KInt{wrapInt(new(big.Int).Not(b.V), x.Type())}
		case TermV:
			w, signed := typeWidth(x.Type())
			if !signed {
				return termValue(wNot(b.T, w))
			}
		case Top:
			return b
		}
	}
	return Top{Taint: taintOf(v), Why: "unary " + x.Op.String()}
}

// asArrayBuf: a pointer to (or a whole-array slice of) a fixed byte array whose content has become symbolic - a string of
// symbolic length was copied into it (a stack buffer used instead of an allocation) - is followed like a buffer of
// symbolic length: the array's root cell then holds the content as an AbsSlice (its element cells are stale).
func asArrayBuf(v Value) (BufRef, bool) {
	switch x := v.(type) {
	case Ptr:
		if _, isA := x.C.Val.(AbsSlice); isA && len(x.C.Kids) > 0 {
			return BufRef{C: x.C}, true
		}
	case SliceV:
		if _, isA := x.Arr.Val.(AbsSlice); isA && len(x.Arr.Kids) > 0 && x.Lo == 0 {
			return BufRef{C: x.Arr}, true
		}
	}
	return BufRef{}, false
}

func (fr *Frame) indexAddr(x *ssa.IndexAddr) Value {
	it := fr.it
	base := fr.get(x.X)
	iv := fr.get(x.Index)
	if ab, isAB := asArrayBuf(base); isAB {
		base = ab
	}
	if b, isBuf := base.(BufRef); isBuf {
		if _, conc := it.bufConc(b); !conc {
			t, okT := asTerm(iv)
			if !okT {
				it.abortf("index %s into a buffer of symbolic length in %s", show(iv), fr.fn)
			}
			return BufElem{C: b.C, Idx: it.ApplyTerm(b.bufOff().Add(t)), fn: fr.fn, pos: x.Pos()}
		}
	}
	base = it.rd(base)
	i, ok := it.constInt(iv)
	if !ok {
		if v, split := it.splitIndex(fr, iv, x.Pos()); split {
			i, ok = v, true
		}
	}
	if !ok {
		if sel, isSel := fr.selectElem(base, iv); isSel {
			if t, isTop := iv.(Top); isTop && t.Taint {
				it.event("tainted-select", fr.fn, x.Pos(), "an element is selected by a secret index")
			}
			return sel
		}
		if t, isTop := iv.(Top); isTop && t.Taint {
			it.event("tainted-index", fr.fn, x.Pos(), "memory index depends on a secret value")
		} else {
			it.event("unknown-index", fr.fn, x.Pos(), "index %s is not a constant of the analysis", show(iv))
		}
		o := it.NewObject(x.Type().(*types.Pointer).Elem(), "unknown-element", false)
		it.smashQuiet(o.Root, Top{Taint: taintOf(iv), Why: "element at unknown index"})
		return Ptr{o.Root}
	}
	switch b := base.(type) {
	case Ptr:
		if b.C.Rep != nil {
			it.materialise(b.C)
		}
		if i < 0 || i >= len(b.C.Kids) {
			panic(&goPanic{val: KStr("index out of range"), fn: fr.fn, pos: x.Pos()})
		}
		return Ptr{b.C.Kids[i]}
	case SliceV, AbsSlice:
		s, ok := it.asSlice(b)
		if !ok {
			if c := it.symIndex(b, i); c != nil {
				return Ptr{c}
			}
			it.event("bounds", fr.fn, x.Pos(), "index %d into a slice whose length is not fixed on this path (possible run-time panic)", i)
			it.abortf("indexing a string of symbolic length in %s", fr.fn)
		}
		n, isC := it.ApplyTerm(s.Len).IsConst()
		if !isC {
			lo, _ := it.ApplyTerm(s.Len).Bounds()
			if lo.Cmp(big.NewInt(int64(i))) <= 0 {
				it.event("bounds", fr.fn, x.Pos(), "index %d not provably below the length %s (possible run-time panic)", i, s.Len)
			}
		} else if i < 0 || int64(i) >= n.Int64() {
			panic(&goPanic{val: KStr("index out of range"), fn: fr.fn, pos: x.Pos()})
		}
		if s.Lo+i >= len(s.Arr.Kids) {
			it.abortf("index beyond backing array in %s", fr.fn)
		}
		return Ptr{s.Arr.Kids[s.Lo+i]}
	case Nil:
		panic(&goPanic{val: KStr("index of nil slice"), fn: fr.fn, pos: x.Pos()})
	}
	it.abortf("index of %s in %s", show(base), fr.fn)
	return nil
}

func (fr *Frame) slice(x *ssa.Slice) Value {
	it := fr.it
	base := fr.get(x.X)
	if ab, isAB := asArrayBuf(base); isAB {
		base = ab
	}
	if b, isBuf := base.(BufRef); isBuf {
		if x.Low == nil && x.High == nil {
			return b
		}
		if _, conc := it.bufConc(b); !conc && x.Max == nil {
			// a view of a buffer of symbolic length: writes through it reach the buffer
			curLen := it.lenTerm(b)
			lo, hi := TInt(0), curLen
			ok := curLen != nil
			if x.Low != nil {
				t, okT := asTerm(fr.get(x.Low))
				lo, ok = t, ok && okT
			}
			if x.High != nil {
				t, okT := asTerm(fr.get(x.High))
				hi, ok = t, ok && okT
			}
			if ok {
				lo, hi = it.ApplyTerm(lo), it.ApplyTerm(hi)
				l1 := it.lowerBound(lo)
				l2 := it.lowerBound(hi.Sub(lo))
				l3 := it.lowerBound(curLen.Sub(hi))
				if l1.Sign() < 0 || l2.Sign() < 0 || l3.Sign() < 0 {
					it.event("bounds", fr.fn, x.Pos(), "slice bounds [%s:%s] of a buffer of %s bytes not provably in range (possible run-time panic)", lo, hi, curLen)
				}
				return BufRef{C: b.C, Off: b.bufOff().Add(lo), Len: hi.Sub(lo)}
			}
		}
		base = it.rd(b)
	}
	var lo int
	if x.Low != nil {
		l, ok := it.constInt(fr.get(x.Low))
		if !ok {
			// arr[n-len(b):] of a whole array, the destination of the left-padding copy idiom
			if lt, isT := fr.get(x.Low).(TermV); isT && x.High == nil && x.Max == nil {
				if sv, isS := it.rd(base).(SliceV); isS && sv.Lo == 0 {
					// a slice covering its whole backing array
					if n, isC := it.ApplyTerm(sv.Len).IsConst(); isC && int(n.Int64()) == len(sv.Arr.Kids) && len(sv.Arr.Kids) > 0 {
						base = Ptr{sv.Arr}
					}
				}
				if bp, isP := base.(Ptr); isP && len(bp.C.Kids) > 0 {
					low := it.ApplyTerm(lt.T)
					if lo, hi := low.Bounds(); lo.Sign() < 0 || hi.Cmp(big.NewInt(int64(len(bp.C.Kids)))) > 0 {
						it.event("bounds", fr.fn, x.Pos(), "slice bound %s not provably within [0,%d] (possible run-time panic)", low, len(bp.C.Kids))
					}
					return OffSlice{Arr: bp.C, Off: low}
				}
			}
			it.abortf("symbolic low bound of a slice expression in %s", fr.fn)
		}
		lo = l
	}
	var arr *Cell
	off, capEnd := 0, 0
	var curLen *Term
	switch b := base.(type) {
	case Ptr: // pointer to array
		arr, off, capEnd = b.C, 0, len(b.C.Kids)
		curLen = TInt(int64(capEnd))
	case SliceV:
		arr, off = b.Arr, b.Lo
		capEnd = b.Lo + b.Cap
		if b.Cap < 0 {
			capEnd = -1
		}
		curLen = it.ApplyTerm(b.Len)
	case AbsSlice:
		if s, ok := it.concretise(b); ok {
			arr, off, capEnd, curLen = s.Arr, 0, -1, s.Len
		} else if x.Low == nil && x.High == nil {
			return b
		} else if ht, isT := asTerm(fr.get(x.High)); x.High != nil && lo == 0 && isT && it.ApplyTerm(ht).Equal(it.ApplyTerm(b.Length())) {
			return b // s[:len(s)] and s[:len(s):len(s)]
		} else {
			it.event("bounds", fr.fn, x.Pos(), "slice of a string whose length is not fixed on this path (possible run-time panic)")
			it.abortf("slicing a string of symbolic length in %s", fr.fn)
		}
	case KStr:
		hi := len(b)
		if x.High != nil {
			h, ok := it.constInt(fr.get(x.High))
			if !ok {
				it.abortf("symbolic string slice in %s", fr.fn)
			}
			hi = h
		}
		return KStr(string(b)[lo:hi])
	case Nil:
		return Nil{}
	default:
		it.abortf("slice of %s in %s", show(base), fr.fn)
	}
	hi := curLen
	if x.High != nil {
		hv := fr.get(x.High)
		switch h := hv.(type) {
		case KInt:
			hi = TConst(h.V)
		case TermV:
			hi = it.ApplyTerm(h.T)
		default:
			it.abortf("slice high bound %s in %s", show(hv), fr.fn)
		}
	}
	// bounds: lo <= hi <= cap
	_, hhi := hi.Bounds()
	hlo, _ := hi.Bounds()
	limit := capEnd - off
	if capEnd < 0 {
		// unknown capacity: the length is the only safe limit
		if x.High != nil {
			if _, lhi := curLen.Bounds(); hhi.Cmp(lhi) > 0 {
				it.event("bounds", fr.fn, x.Pos(), "slice bound beyond the known length")
			}
		}
	} else if hhi.Cmp(big.NewInt(int64(limit))) > 0 {
		if k, isC := hi.IsConst(); isC && k.Cmp(big.NewInt(int64(limit))) > 0 {
			panic(&goPanic{val: KStr("slice bounds out of range"), fn: fr.fn, pos: x.Pos()})
		}
		it.event("bounds", fr.fn, x.Pos(), "slice bound %s not provably within capacity %d", hi, limit)
	}
	if hlo.Cmp(big.NewInt(int64(lo))) < 0 {
		if k, isC := hi.IsConst(); isC && k.Cmp(big.NewInt(int64(lo))) < 0 {
			panic(&goPanic{val: KStr("slice bounds out of range"), fn: fr.fn, pos: x.Pos()})
		}
		it.event("bounds", fr.fn, x.Pos(), "slice bounds [%d:%s] not provably ordered", lo, hi)
	}
	newCap := -1
	if capEnd >= 0 {
		newCap = capEnd - off - lo
	}
	if x.Max != nil {
		if m, ok := it.constInt(fr.get(x.Max)); ok {
			newCap = m - lo
		}
	}
	return SliceV{Arr: arr, Lo: off + lo, Len: hi.Sub(TInt(int64(lo))), Cap: newCap}
}

func (fr *Frame) sliceToArray(x *ssa.SliceToArrayPointer) Value {
	it := fr.it
	at := x.Type().(*types.Pointer).Elem().Underlying().(*types.Array)
	n := int(at.Len())
	s, ok := it.asSlice(fr.get(x.X))
	if !ok {
		it.event("bounds", fr.fn, x.Pos(), "conversion of a slice of unknown length to an array of %d (possible run-time panic)", n)
		it.abortf("slice-to-array conversion of a symbolic string in %s", fr.fn)
	}
	l := it.ApplyTerm(s.Len)
	lo, _ := l.Bounds()
	if lo.Cmp(big.NewInt(int64(n))) < 0 {
		if k, isC := l.IsConst(); isC && k.Cmp(big.NewInt(int64(n))) < 0 {
			panic(&goPanic{val: KStr("slice-to-array conversion: length too short"), fn: fr.fn, pos: x.Pos()})
		}
		it.event("bounds", fr.fn, x.Pos(), "slice length %s not provably >= %d in conversion to array", l, n)
	}
	if s.Lo+n > len(s.Arr.Kids) {
		it.abortf("array view beyond backing array in %s", fr.fn)
	}
	view := &Cell{Typ: x.Type().(*types.Pointer).Elem(), Kids: s.Arr.Kids[s.Lo : s.Lo+n], Obj: s.Arr.Obj}
	return Ptr{view}
}

// concretiseInt handles  zeros ‖ minimal-bytes(V)  (and minimal-bytes(V)
// alone) whose total length is a constant N on this path: that string is
// the N-byte big-endian representation of V.
func (it *Interp) concretiseInt(s AbsSlice) (SliceV, bool) {
	segs := s.Segs
	if len(segs) == 0 || len(segs) > 2 {
		return SliceV{}, false
	}
	last := segs[len(segs)-1]
	if last.Min == nil || (len(segs) == 2 && !segs[0].Zeros) {
		return SliceV{}, false
	}
	k, ok := it.ApplyTerm(s.Length()).IsConst()
	if !ok || !k.IsInt64() || k.Int64() > 1024 {
		return SliceV{}, false
	}
	n := int(k.Int64())
	_, hi := last.Min.Bounds()
	if hi.BitLen() > 8*n {
		return SliceV{}, false
	}
	o := it.NewArrayObject(types.Typ[types.Uint8], n, "be-bytes", false)
	for i, c := range o.Root.Kids {
		c.Val = termValue(ByteOf(last.Min, n-1-i))
	}
	return SliceV{Arr: o.Root, Lo: 0, Len: TInt(int64(n)), Cap: n}, true
}

// applyBind re-expresses a value over the current (narrowed / bound) symbols of the path.
func (it *Interp) applyBind(v Value) Value {
	if len(it.bind) == 0 {
		return v
	}
	return it.applyAssume(v)
}

// splitIndex turns an index that is a symbolic input quantity of small range (a length used to index a dispatch
// table) into a path constant: one path per value, decided through the exploration oracle like a chain of equality
// tests. Only outside joined branches and loops.
func (it *Interp) splitIndex(fr *Frame, iv Value, pos token.Pos) (int, bool) {
	if it.oracle == nil || it.Cfg.JoinAll || fr.inLoop || len(it.joining) > 0 && it.anyJoining() {
		return 0, false
	}
	tv, ok := iv.(TermV)
	if !ok {
		return 0, false
	}
	t := it.ApplyTerm(tv.T)
	a := t.SingleAtom()
	if a == nil || a.Kind != ISym || len(t.mons) != 1 {
		return 0, false
	}
	for _, m := range t.mons {
		if m.c.Cmp(bigOne) != 0 || len(m.preds) > 0 {
			return 0, false
		}
	}
	if !strings.HasPrefix(BaseSym(a).Name, "len(") {
		return 0, false
	}
	lo, hi := a.Lo, a.Hi
	if !lo.IsInt64() || !hi.IsInt64() || hi.Int64()-lo.Int64() > 127 || lo.Sign() < 0 {
		return 0, false
	}
	o := it.oracle
	for v := lo.Int64(); v < hi.Int64(); v++ {
		cur := it.ApplyTerm(tv.T)
		if k, isC := cur.IsConst(); isC {
			return int(k.Int64()), true
		}
		eq := EQ(cur, TInt(v))
		if k, isC := eq.IsConst(); isC {
			if k.Sign() != 0 {
				return int(v), true
			}
			continue
		}
		var d bool
		if o.pos < len(o.dec) {
			d = o.dec[o.pos]
		} else {
			d = true
			o.dec = append(o.dec, true)
		}
		o.pos++
		it.Guards = append(it.Guards, Guard{Cond: eq, Taken: d, Fn: fr.fn, Pos: pos})
		it.assumeTerm(eq, d)
		if d {
			return int(v), true
		}
	}
	if k, isC := it.ApplyTerm(tv.T).IsConst(); isC {
		return int(k.Int64()), true
	}
	return int(hi.Int64()), true
}

func (it *Interp) anyJoining() bool {
	for _, n := range it.joining {
		if n > 0 {
			return true
		}
	}
	return false
}

// selectElem resolves base[iv] for an index that is not a constant: the element cells of a small array (at most 16
// elements) selected by the index value.
func (fr *Frame) selectElem(base Value, iv Value) (PtrSel, bool) {
	it := fr.it
	var cells []*Cell
	switch b := base.(type) {
	case Ptr:
		if b.C.Rep != nil {
			it.materialise(b.C)
		}
		cells = b.C.Kids
	case SliceV:
		n, isC := it.ApplyTerm(b.Len).IsConst()
		if !isC || b.Lo+int(n.Int64()) > len(b.Arr.Kids) {
			return PtrSel{}, false
		}
		if b.Arr.Rep != nil {
			it.materialise(b.Arr)
		}
		cells = b.Arr.Kids[b.Lo : b.Lo+int(n.Int64())]
	default:
		return PtrSel{}, false
	}
	if len(cells) < 2 || len(cells) > 16 {
		return PtrSel{}, false
	}
	switch v := iv.(type) {
	case Top:
		t := v
		return PtrSel{Alts: cells, Top: &t}, true
	case TermV, PredV:
		t, _ := asTerm(v)
		t = it.ApplyTerm(t)
		lo, hi := t.Bounds()
		if lo.Sign() < 0 || hi.Cmp(big.NewInt(int64(len(cells)-1))) > 0 {
			return PtrSel{}, false // possibly out of range: not a selection
		}
		sel := PtrSel{}
		for i, c := range cells {
			sel.Alts = append(sel.Alts, c)
			sel.Conds = append(sel.Conds, EQ(t, TInt(int64(i))))
		}
		return sel, true
	}
	return PtrSel{}, false
}

// BufRef is a mutable byte buffer of symbolic length (make([]byte, n) with n not a constant of the path): the cell
// holds its current content as an AbsSlice. BufElem is the address of one of its bytes.
type BufRef struct {
	C *Cell
	// a view buf[Off : Off+Len] of the buffer (nil: the whole buffer)
	Off, Len *Term
}
type BufElem struct {
	C   *Cell
	Idx *Term
	fn  *ssa.Function
	pos token.Pos
}

func (it *Interp) newBuf(s AbsSlice, name string) BufRef {
	o := it.NewObject(types.NewSlice(types.Typ[types.Uint8]), name, false)
	o.Root.Val = s
	return BufRef{C: o.Root}
}

// bufOff is the offset of the view in its buffer.
func (b BufRef) bufOff() *Term {
	if b.Off == nil {
		return TInt(0)
	}
	return b.Off
}

// bufWrite overwrites the bytes of the buffer starting at offset off with src (which must fit in what follows).
func (it *Interp) bufWrite(c *Cell, off *Term, src []Seg, fn *ssa.Function) {
	cur, ok := c.Val.(AbsSlice)
	if !ok {
		it.abortf("write into a buffer of unknown content in %s", fn)
	}
	sl := it.ApplyTerm(AbsSlice{Segs: src}.Length())
	left, rest, ok1 := it.splitSegs(cur.Segs, off)
	if !ok1 {
		it.abortf("write at offset %s into the middle of a buffer segment in %s", off, fn)
	}
	if lo, _ := it.ApplyTerm(AbsSlice{Segs: rest}.Length()).Sub(sl).Bounds(); lo.Sign() < 0 {
		it.abortf("write of %s bytes beyond the end of a buffer in %s", sl, fn)
	}
	_, right, ok2 := it.splitSegs(rest, sl)
	if !ok2 {
		it.abortf("write into the middle of a buffer segment in %s", fn)
	}
	ns := append(append(append([]Seg{}, left...), src...), right...)
	it.setCell(c, AbsSlice{Segs: normSegs(dropEmpty(ns))})
}

// rd reads a buffer reference as the byte string (or, once its length is fixed, the array slice) it currently is.
func (it *Interp) rd(v Value) Value {
	if b, ok := v.(BufRef); ok {
		switch s := b.C.Val.(type) {
		case AbsSlice:
			if sv, conc := it.bufConc(b); conc {
				return sv
			}
			if b.Off == nil {
				return s
			}
			_, rest, ok1 := it.splitSegs(s.Segs, b.Off)
			if ok1 {
				if mid, _, ok2 := it.splitSegs(rest, b.Len); ok2 {
					return AbsSlice{Segs: mid}
				}
			}
			return Top{Why: "view of a buffer that does not fall on segment boundaries"}
		case SliceV:
			if sv, conc := it.bufConc(b); conc {
				return sv
			}
			return Top{Why: "view with a symbolic bound of a buffer"}
		}
		return Top{Why: "buffer content"}
	}
	return v
}

// segValues lists the bytes of a string all of whose segments have a length that is a constant of the path.
func (it *Interp) segValues(segs []Seg) ([]*Term, bool) {
	var vals []*Term
	for _, g := range segs {
		if g.Bytes != nil {
			vals = append(vals, g.Bytes...)
			continue
		}
		k, isC := it.ApplyTerm(g.Len).IsConst()
		if !isC || !k.IsInt64() || k.Int64() > 4096 {
			return nil, false
		}
		n := int(k.Int64())
		if g.Stale {
			return nil, false
		}
		for i := 0; i < n; i++ {
			switch {
			case g.Zeros:
				vals = append(vals, TInt(0))
			case g.Min != nil:
				if _, hi := g.Min.Bounds(); hi.BitLen() > 8*n {
					return nil, false
				}
				vals = append(vals, ByteOf(g.Min, n-1-i))
			case strings.HasPrefix(g.Name, "str:"):
				return nil, false
			default:
				vals = append(vals, SymByte(g.Name+"["+itoa(i)+"]"))
			}
		}
	}
	return vals, true
}

// bufConc turns a buffer whose length is a constant of the path into an array slice, for good: later reads and
// writes go to that array.
func (it *Interp) bufConc(b BufRef) (SliceV, bool) {
	if b.Off != nil {
		whole, ok := it.bufConc(BufRef{C: b.C})
		if !ok {
			return SliceV{}, false
		}
		o, ok1 := it.ApplyTerm(b.Off).IsConst()
		l, ok2 := it.ApplyTerm(b.Len).IsConst()
		if !ok1 || !ok2 {
			return SliceV{}, false
		}
		return SliceV{Arr: whole.Arr, Lo: whole.Lo + int(o.Int64()), Len: TConst(l), Cap: whole.Cap - int(o.Int64())}, true
	}
	if sv, ok := b.C.Val.(SliceV); ok {
		return sv, true
	}
	s, ok := b.C.Val.(AbsSlice)
	if !ok {
		return SliceV{}, false
	}
	vals, okV := it.segValues(s.Segs)
	if !okV {
		return SliceV{}, false
	}
	o := it.NewArrayObject(types.Typ[types.Uint8], len(vals), b.C.Obj.Name, false)
	for i, c := range o.Root.Kids {
		c.Val = termValue(vals[i])
	}
	sv := SliceV{Arr: o.Root, Lo: 0, Len: TInt(int64(len(vals))), Cap: len(vals)}
	it.setCell(b.C, sv)
	return sv, true
}

// splitSegs splits a byte string at offset t: the offset must fall on a segment boundary, inside a run of zero
// bytes or at a constant position of a run of known bytes.
func (it *Interp) splitSegs(segs []Seg, t *Term) (left, right []Seg, ok bool) {
	off := TInt(0)
	t = it.ApplyTerm(t)
	for i, g := range segs {
		d := t.Sub(off)
		if c, isC := d.IsConst(); isC && c.Sign() == 0 {
			return append([]Seg{}, segs[:i]...), append([]Seg{}, segs[i:]...), true
		}
		gl := g.Len
		if g.Bytes != nil {
			gl = TInt(int64(len(g.Bytes)))
		}
		gl = it.ApplyTerm(gl)
		rem := gl.Sub(d) // bytes of g after the split point
		dlo, _ := d.Bounds()
		rlo, _ := rem.Bounds()
		if dlo.Sign() >= 0 && rlo.Sign() >= 0 {
			// the split point is inside g (or at its end)
			if c, isC := rem.IsConst(); isC && c.Sign() == 0 {
				return append([]Seg{}, segs[:i+1]...), append([]Seg{}, segs[i+1:]...), true
			}
			switch {
			case g.Zeros:
				left = append(append([]Seg{}, segs[:i]...), Seg{Zeros: true, Len: d})
				right = append([]Seg{{Zeros: true, Len: rem}}, segs[i+1:]...)
				return dropEmpty(left), dropEmpty(right), true
			case g.Stale:
				left = append(append([]Seg{}, segs[:i]...), Seg{Stale: true, Len: d})
				right = append([]Seg{{Stale: true, Len: rem}}, segs[i+1:]...)
				return dropEmpty(left), dropEmpty(right), true
			case g.Bytes != nil:
				if c, isC := d.IsConst(); isC {
					k := int(c.Int64())
					left = append(append([]Seg{}, segs[:i]...), Seg{Bytes: g.Bytes[:k]})
					right = append([]Seg{{Bytes: g.Bytes[k:]}}, segs[i+1:]...)
					return dropEmpty(left), dropEmpty(right), true
				}
			}
			return nil, nil, false
		}
		if _, dhi := d.Bounds(); dhi.Sign() < 0 {
			return nil, nil, false
		}
		off = off.Add(gl)
	}
	if c, isC := t.Sub(off).IsConst(); isC && c.Sign() == 0 {
		return segs, nil, true
	}
	return nil, nil, false
}

func dropEmpty(segs []Seg) []Seg {
	var out []Seg
	for _, g := range segs {
		if g.Bytes != nil && len(g.Bytes) == 0 {
			continue
		}
		if g.Bytes == nil {
			if c, isC := g.Len.IsConst(); isC && c.Sign() == 0 {
				continue
			}
		}
		out = append(out, g)
	}
	return out
}

// OffSlice is arr[Off:] of a whole array with a symbolic offset; only copy understands it.
type OffSlice struct {
	Arr *Cell
	Off *Term
}

// ClosureV is a function literal with its captured variables.
type ClosureV struct {
	Fn    *ssa.Function
	Binds []Value
}
