package absint

import (
	"fmt"
	"go/constant"
	"go/token"
	"go/types"
	"math"
	"math/big"
	"os"
	"sort"
	"strings"
	"time"

	"golang.org/x/tools/go/ssa"

	"svcheck/load"
)

// TraceEv is one event of the call trace: entry of a function of the two
// internal packages, or a branch whose arms have different traces.
type TraceEv struct {
	Fn     *ssa.Function
	Branch *TraceBranch
}

type TraceBranch struct {
	Cond       string
	Then, Else []TraceEv
}

func traceKey(t []TraceEv) string {
	var sb strings.Builder
	for _, e := range t {
		if e.Fn != nil {
			sb.WriteString(e.Fn.String())
			sb.WriteByte(';')
		} else {
			sb.WriteString("if{" + e.Branch.Cond + "|" + traceKey(e.Branch.Then) + "|" + traceKey(e.Branch.Else) + "};")
		}
	}
	return sb.String()
}

// TraceLen counts function entries (branches count their longer arm).
func TraceLen(t []TraceEv) int {
	n := 0
	for _, e := range t {
		if e.Fn != nil {
			n++
		} else {
			a, b := TraceLen(e.Branch.Then), TraceLen(e.Branch.Else)
			if a > b {
				n += a
			} else {
				n += b
			}
		}
	}
	return n
}

// Event is something a driver may have to report.
type Event struct {
	Kind string
	Fn   *ssa.Function
	Pos  token.Pos
	Msg  string
}

// Guard is one decided ENUM branch.
type Guard struct {
	Cond  *Term // 0/1 term as evaluated at the branch
	Taken bool
	Fn    *ssa.Function
	Pos   token.Pos
}

type Summary func(it *Interp, args []Value) Value

type Config struct {
	Opaque       bool // Fiat leaves yield ⊤ (taint propagated); used by the schedule analysis
	JoinAll      bool // join every data-dependent branch (otherwise only inside loops; the rest is enumerated)
	Summaries    map[*ssa.Function]Summary
	MaxSteps     int
	ExemptOrigin map[string]bool
	OriginOf     map[*ssa.Function]string // results of these functions carry an origin tag (opaque mode)
	NoInit       bool
	LoopUnroll   int // enumerate (instead of join) data-dependent loop exit tests, at most this many times per loop
}

type Interp struct {
	P            *load.Prog
	Cfg          Config
	journal      []jent
	Trace        []TraceEv
	Events       []Event
	Guards       []Guard
	assume       map[*PAtom]bool
	bind         map[*IAtom]*Term
	oracle       *oracle
	cfgs         map[*ssa.Function]*cfgInfo
	globals      map[*ssa.Global]*Object
	nobj         int
	steps        int
	depth        int
	joining      map[*ssa.BasicBlock]int
	Hashes       []*HashObj
	LeafCalls    int
	FuncsEntered map[*ssa.Function]int
	symIdx       map[string]*Cell
	inputs       map[string]*Object
	nreads       int
	stack        []*Frame
	// pathHi: upper bounds of symbolic integers established on this path by a model (the decoded length of a hex string
	// that was checked to fit a fixed buffer)
	pathHi map[*IAtom]*big.Int
	// ReadStates: the abstract state just before each entropy read (loop-unrolling mode)
	ReadStates []ReadState
	inputRoots []*Cell
	PowApplied []*ssa.Function
	loopIter   map[*ssa.BasicBlock]int
	inInit     bool
	// TaintedLeafCalls counts (opaque mode) the generated primitives called with a secret-dependent operand
	TaintedLeafCalls int
	InitEvents       []Event
	InitHashes       int
	pendingBinds     []Value
	bigVals          map[*Cell]*Term
}

type oracle struct {
	dec []bool
	pos int
}

type goPanic struct {
	val Value
	fn  *ssa.Function
	pos token.Pos
}

type abort struct{ reason string }

func (it *Interp) abortf(format string, a ...interface{}) {
	panic(&abort{fmt.Sprintf(format, a...)})
}

func (it *Interp) event(kind string, fn *ssa.Function, pos token.Pos, format string, a ...interface{}) {
	it.Events = append(it.Events, Event{Kind: kind, Fn: fn, Pos: pos, Msg: fmt.Sprintf(format, a...)})
}

var debugCalls = os.Getenv("SVDEBUG") != ""

// New creates an interpreter and runs the module's package initialisers.
func New(p *load.Prog, cfg Config) *Interp {
	it := &Interp{P: p, Cfg: cfg, assume: map[*PAtom]bool{}, bind: map[*IAtom]*Term{}, cfgs: map[*ssa.Function]*cfgInfo{},
		globals: map[*ssa.Global]*Object{}, joining: map[*ssa.BasicBlock]int{}, FuncsEntered: map[*ssa.Function]int{}, loopIter: map[*ssa.BasicBlock]int{}}
	if it.Cfg.MaxSteps == 0 {
		it.Cfg.MaxSteps = 20_000_000
	}
	if !cfg.NoInit {
		it.inInit = true
		for _, sp := range p.ModSSA {
			if init := sp.Func("init"); init != nil {
				it.CallFn(init, nil)
			}
		}
		it.inInit = false
		it.journal = nil
		it.Trace = nil
		it.InitEvents = it.Events
		it.Events = nil
		it.InitHashes = len(it.Hashes)
		it.LeafCalls = 0
		it.FuncsEntered = map[*ssa.Function]int{}
	}
	return it
}

func (it *Interp) globalObj(g *ssa.Global) *Object {
	if o, ok := it.globals[g]; ok {
		return o
	}
	t := g.Type().(*types.Pointer).Elem()
	o := it.NewObject(t, g.Name(), false)
	o.Name = g.Pkg.Pkg.Name() + "." + g.Name()
	o.Global = true
	if !it.P.InModuleGlobal(g) {
		// an external package variable (e.g. crypto/rand.Reader): opaque
		it.smashQuiet(o.Root, Top{Why: "external variable " + o.Name})
		if o.Root.Val != nil {
			o.Root.Val = ExtVar{Pkg: g.Pkg.Pkg.Path(), Name: g.Name()}
		}
	}
	it.globals[g] = o
	return o
}

// ExtVar is the value of an external package-level variable.
type ExtVar struct{ Pkg, Name string }

func (it *Interp) smashQuiet(c *Cell, v Value) {
	c.Rep = nil
	if len(c.Kids) == 0 {
		c.Val = v
		return
	}
	for _, k := range c.Kids {
		it.smashQuiet(k, v)
	}
}

// Frame is one activation.
type Frame struct {
	it     *Interp
	fn     *ssa.Function
	regs   map[ssa.Value]Value
	inLoop bool
	// deferred calls (arguments evaluated at the defer statement), run in reverse order by RunDefers
	defers []deferredCall
	// fnOv: the function value the next dynamic call uses instead of its operand (one alternative of a FuncSel)
	fnOv Value
}

type deferredCall struct {
	d    *ssa.Defer
	args []Value
	fnv  Value
}

func wrapInt(v *big.Int, t types.Type) *big.Int {
	b, ok := t.Underlying().(*types.Basic)
	if !ok || b.Info()&types.IsInteger == 0 {
		return v
	}
	bits, signed := intWidth(b)
	if bits == 0 {
		return v
	}
	m := pow2(bits)
	r := new(big.Int).Mod(v, m)
	if signed && r.Cmp(pow2(bits-1)) >= 0 {
		r.Sub(r, m)
	}
	return r
}

func intWidth(b *types.Basic) (int, bool) {
	switch b.Kind() {
	case types.Int8:
		return 8, true
	case types.Int16:
		return 16, true
	case types.Int32:
		return 32, true
	case types.Int64, types.Int:
		return 64, true
	case types.Uint8:
		return 8, false
	case types.Uint16:
		return 16, false
	case types.Uint32:
		return 32, false
	case types.Uint64, types.Uint, types.Uintptr:
		return 64, false
	case types.UntypedInt:
		return 0, true
	}
	return 0, false
}

func typeWidth(t types.Type) (int, bool) {
	if b, ok := t.Underlying().(*types.Basic); ok {
		return intWidth(b)
	}
	return 0, false
}

func (it *Interp) constValue(c *ssa.Const) Value {
	if c.Value == nil {
		switch c.Type().Underlying().(type) {
		case *types.Struct, *types.Array:
			o := it.NewObject(c.Type(), "zero", false)
			return Agg{o.Root}
		}
		return Nil{}
	}
	switch c.Value.Kind() {
	case constant.Bool:
		return KBool(constant.BoolVal(c.Value))
	case constant.String:
		return KStr(constant.StringVal(c.Value))
	case constant.Int:
		if b, ok := c.Type().Underlying().(*types.Basic); ok && b.Info()&types.IsFloat != 0 {
			f, _ := constant.Float64Val(c.Value)
			return KFloat(f)
		}
		v, _ := new(big.Int).SetString(c.Value.ExactString(), 10)
		return KInt{v}
	case constant.Float:
		if b, ok := c.Type().Underlying().(*types.Basic); ok && b.Info()&types.IsInteger != 0 {
			if i := constant.ToInt(c.Value); i.Kind() == constant.Int {
				v, _ := new(big.Int).SetString(i.ExactString(), 10)
				return KInt{v}
			}
		}
		f, _ := constant.Float64Val(c.Value)
		return KFloat(f)
	}
	return Top{Why: "constant " + c.String()}
}

func (fr *Frame) get(v ssa.Value) Value {
	switch x := v.(type) {
	case *ssa.Const:
		return fr.it.constValue(x)
	case *ssa.Global:
		return Ptr{fr.it.globalObj(x).Root}
	case *ssa.Function:
		return FuncV{x}
	case *ssa.Builtin:
		return Top{Why: "builtin value"}
	}
	r, ok := fr.regs[v]
	if !ok {
		fr.it.abortf("unset register %s in %s", v.Name(), fr.fn)
	}
	return r
}

type exitKind int

const (
	exStop exitKind = iota
	exReturn
)

type execResult struct {
	kind exitKind
	ret  Value
	last *ssa.BasicBlock
	// continuation after a joined branch
	cont     *ssa.BasicBlock
	contPrev *ssa.BasicBlock
	phisDone bool
}

// CallFn runs fn on args and returns its result (a Tuple for several results).
func (it *Interp) CallFn(fn *ssa.Function, args []Value) Value {
	return it.callFn(fn, args, false)
}

func (it *Interp) callFn(fn *ssa.Function, args []Value, inLoop bool) Value {
	if fn.Blocks == nil {
		it.abortf("function %s has no body", fn)
	}
	it.depth++
	if it.depth > 64 {
		it.abortf("call depth exceeded at %s", fn)
	}
	defer func() { it.depth-- }()
	it.FuncsEntered[fn]++
	if debugCalls && it.depth <= 3 {
		fmt.Fprintf(os.Stderr, "%*scall %s\n", 2*it.depth, "", fn)
	}
	fr := &Frame{it: it, fn: fn, regs: make(map[ssa.Value]Value, 32), inLoop: inLoop}
	if len(args) != len(fn.Params) {
		it.abortf("arity mismatch calling %s", fn)
	}
	for i, p := range fn.Params {
		fr.regs[p] = args[i]
	}
	for i, fv := range fn.FreeVars {
		if i < len(it.pendingBinds) {
			fr.regs[fv] = it.pendingBinds[i]
		}
	}
	it.pendingBinds = nil
	it.stack = append(it.stack, fr)
	defer func() { it.stack = it.stack[:len(it.stack)-1] }()
	defer func() {
		// a panic leaving this frame runs the frame's deferred calls first
		if e := recover(); e != nil {
			if _, ok := e.(*goPanic); ok && len(fr.defers) > 0 {
				ds := fr.defers
				fr.defers = nil
				for i := len(ds) - 1; i >= 0; i-- {
					fr.callArgs(&ssa.Call{Call: ds[i].d.Call}, ds[i].args)
				}
			}
			panic(e)
		}
	}()
	r := fr.exec(fn.Blocks[0], nil, nil, false)
	return r.ret
}

// exec runs from blk (entered from prev) until a Return, or until block stop
// is reached (not executed).  phisDone says blk's phis were already set.
func (fr *Frame) exec(blk, prev, stop *ssa.BasicBlock, phisDone bool) execResult {
	it := fr.it
	for {
		if blk == stop && stop != nil {
			return execResult{kind: exStop, last: prev}
		}
		var next *ssa.BasicBlock
		var contPrev *ssa.BasicBlock
		contPhis := false
		// phis are evaluated simultaneously
		if !phisDone {
			var phis []*ssa.Phi
			var vals []Value
			for _, in := range blk.Instrs {
				ph, ok := in.(*ssa.Phi)
				if !ok {
					break
				}
				idx := -1
				for i, pb := range blk.Preds {
					if pb == prev {
						idx = i
					}
				}
				if idx < 0 {
					it.abortf("phi without matching predecessor in %s", fr.fn)
				}
				phis = append(phis, ph)
				vals = append(vals, fr.get(ph.Edges[idx]))
			}
			for i, ph := range phis {
				fr.regs[ph] = vals[i]
			}
		}
		phisDone = false
		for _, in := range blk.Instrs {
			it.steps++
			if it.steps > it.Cfg.MaxSteps {
				it.abortf("step budget exceeded in %s", fr.fn)
			}
			tick()
			switch x := in.(type) {
			case *ssa.Phi:
				continue
			case *ssa.Jump:
				next = blk.Succs[0]
			case *ssa.Return:
				var ret Value
				switch len(x.Results) {
				case 0:
				case 1:
					ret = fr.get(x.Results[0])
				default:
					t := make(Tuple, len(x.Results))
					for i, r := range x.Results {
						t[i] = fr.get(r)
					}
					ret = t
				}
				return execResult{kind: exReturn, ret: ret, last: blk}
			case *ssa.Panic:
				panic(&goPanic{val: fr.get(x.X), fn: fr.fn, pos: x.Pos()})
			case *ssa.If:
				r, done := fr.branch(blk, x, stop)
				if done {
					return r
				}
				if r.cont != nil {
					contPrev, contPhis = r.contPrev, r.phisDone
					next = r.cont
				} else {
					next = r.last // chosen successor
				}
			default:
				if it.inInit && it.depth == 1 {
					fr.stepTolerant(in)
				} else {
					fr.step(in)
				}
			}
		}
		if next == nil {
			it.abortf("block without terminator in %s", fr.fn)
		}
		prev, blk = blk, next
		if contPrev != nil {
			prev = contPrev
			phisDone = contPhis
		}
	}
}

// ifPos finds a source position for an If (which has none of its own).
func ifPos(x *ssa.If) token.Pos {
	if x.Cond.Pos().IsValid() {
		return x.Cond.Pos()
	}
	if in, ok := x.Cond.(ssa.Instruction); ok {
		for _, op := range in.Operands(nil) {
			if *op != nil && (*op).Pos().IsValid() {
				return (*op).Pos()
			}
		}
	}
	for _, in := range x.Block().Instrs {
		if in.Pos().IsValid() {
			return in.Pos()
		}
	}
	for _, s := range x.Block().Succs {
		for _, in := range s.Instrs {
			if in.Pos().IsValid() {
				return in.Pos()
			}
		}
	}
	return token.NoPos
}

// branch handles an If.  It either picks a successor (returned in r.last,
// done=false) or finishes the execution up to stop / return itself (done=true).
func (fr *Frame) branch(blk *ssa.BasicBlock, x *ssa.If, stop *ssa.BasicBlock) (execResult, bool) {
	it := fr.it
	cond := it.applyAssume(fr.get(x.Cond))
	if os.Getenv("SVDEBUGBR") != "" {
		fmt.Fprintf(os.Stderr, "BRANCH in %s: raw %s\n   applied %s\n", fr.fn.Name(), clip(show(fr.get(x.Cond)), 600), clip(show(cond), 600))
	}
	pick := func(b bool) (execResult, bool) {
		if b {
			return execResult{last: blk.Succs[0]}, false
		}
		return execResult{last: blk.Succs[1]}, false
	}
	switch c := cond.(type) {
	case KBool:
		return pick(bool(c))
	case PredV:
		if k, ok := c.P.IsConst(); ok {
			return pick(k.Sign() != 0)
		}
	case Top:
	default:
		it.abortf("branch on %s in %s", show(cond), fr.fn)
	}
	info := it.cfg(fr.fn)
	join := it.Cfg.JoinAll || fr.inLoop || info.inLoop[blk]
	if join && it.Cfg.LoopUnroll > 0 && info.inLoop[blk] && !fr.inLoop {
		// a loop exit test: one successor cannot come back to this block
		if !info.reach[blk.Succs[0]][blk] || !info.reach[blk.Succs[1]][blk] {
			if _, isPred := cond.(PredV); isPred {
				it.loopIter[blk]++
				if it.loopIter[blk] > it.Cfg.LoopUnroll {
					it.abortf("loop-cap: data-dependent loop in %s unrolled %d times", fr.fn.Name(), it.Cfg.LoopUnroll)
				}
				join = false
			}
		}
	}
	if join && it.Cfg.LoopUnroll > 0 && info.inLoop[blk] && !fr.inLoop && it.oracle != nil {
		// loop-unrolling mode: every data-dependent test inside the unrolled loop is a path split (a retry loop written
		// as a state machine decides "draw again" with an ordinary if, not with the loop's exit test); the number of
		// iterations is bounded by the cap on entropy reads
		if _, isPred := cond.(PredV); isPred {
			join = false
		}
	}
	if join && it.Cfg.LoopUnroll > 0 && fr.inLoop && !info.inLoop[blk] {
		// loop-unrolling mode: a data-dependent test in a helper called from the unrolled loop (a read-and-panic
		// wrapper) is enumerated like the loop's own tests, so that its outcome becomes a path assumption
		if _, isPred := cond.(PredV); isPred && it.oracle != nil {
			join = false
		}
	}
	if join && it.oracle != nil && !it.Cfg.JoinAll && it.Cfg.LoopUnroll == 0 && info.inLoop[blk] && !fr.inLoop {
		// an early exit from a loop (one successor cannot come back to this block: return, break, panic): a path
		// split like the same test outside a loop, up to 64 times per path
		if _, isPred := cond.(PredV); isPred && (!info.reach[blk.Succs[0]][blk] || !info.reach[blk.Succs[1]][blk]) {
			if it.loopIter == nil {
				it.loopIter = map[*ssa.BasicBlock]int{}
			}
			if it.loopIter[blk] < 64 {
				it.loopIter[blk]++
				join = false
			}
		}
	}
	if join && it.oracle != nil && !it.Cfg.JoinAll {
		// an equality test of an input length with a constant (skip empty chunks, dispatch on a length) inside a
		// constant-bounded loop: enumerated, so that the length becomes a path constant instead of a merged state
		if pv, isPred := cond.(PredV); isPred && isLenEquality(pv.P) {
			join = false
		}
	}
	if top, isTop := cond.(Top); isTop && !join {
		it.event("top-branch", fr.fn, ifPos(x), "branch on an unknown value (%s)", top.Why)
		join = true
	}
	if !join {
		// ENUM
		p := cond.(PredV).P
		var taken bool
		o := it.oracle
		if o == nil {
			it.abortf("data-dependent branch outside exploration in %s", fr.fn)
		}
		if o.pos < len(o.dec) {
			taken = o.dec[o.pos]
		} else {
			taken = true
			o.dec = append(o.dec, true)
		}
		o.pos++
		it.Guards = append(it.Guards, Guard{Cond: p, Taken: taken, Fn: fr.fn, Pos: ifPos(x)})
		it.assumeTerm(p, taken)
		// a condition that amounts to "sym is one of v1..vk" is split by value (one path per value)
		eff := it.ApplyTerm(p)
		if !taken {
			eff = TInt(1).Sub(eff)
		}
		if alts := valueAlternatives(eff); len(alts) >= 2 {
			chosen := false
			for _, a := range alts[:len(alts)-1] {
				var d bool
				if o.pos < len(o.dec) {
					d = o.dec[o.pos]
				} else {
					d = true
					o.dec = append(o.dec, true)
				}
				o.pos++
				it.Guards = append(it.Guards, Guard{Cond: TPred(a), Taken: d, Fn: fr.fn, Pos: ifPos(x)})
				it.assumeAtom(a, d)
				if d {
					chosen = true
					break
				}
			}
			if !chosen {
				it.assumeAtom(alts[len(alts)-1], true)
			}
		}
		return pick(taken)
	}
	r := fr.join(blk, x, cond, stop)
	return r, r.cont == nil
}

type armResult struct {
	kind    int // 0 reached stop, 1 returned, 2 panicked
	ret     Value
	last    *ssa.BasicBlock
	writes  map[*Cell]cellState
	regs    map[ssa.Value]Value
	trace   []TraceEv
	panicV  *goPanic
	events  []Event
	hashLen []int
}

func (fr *Frame) runArm(succ, from, J *ssa.BasicBlock) (res armResult) {
	it := fr.it
	mark := len(it.journal)
	tmark := len(it.Trace)
	saved := fr.regs
	fr.regs = make(map[ssa.Value]Value, len(saved)+16)
	for k, v := range saved {
		fr.regs[k] = v
	}
	depth := it.depth
	func() {
		defer func() {
			if e := recover(); e != nil {
				if gp, ok := e.(*goPanic); ok {
					res.kind = 2
					res.panicV = gp
					it.depth = depth
					return
				}
				panic(e)
			}
		}()
		r := fr.exec(succ, from, J, false)
		if r.kind == exReturn {
			res.kind = 1
			res.ret = r.ret
		}
		res.last = r.last
	}()
	res.writes = it.written(mark)
	it.undoTo(mark)
	res.regs = fr.regs
	fr.regs = saved
	res.trace = append([]TraceEv{}, it.Trace[tmark:]...)
	it.Trace = it.Trace[:tmark]
	return res
}

func condTerm(c Value) *Term {
	if p, ok := c.(PredV); ok {
		return p.P
	}
	return nil
}

// join runs both arms of a data-dependent branch up to its immediate
// post-dominator and merges the states.
func (fr *Frame) join(blk *ssa.BasicBlock, x *ssa.If, cond Value, stop *ssa.BasicBlock) execResult {
	it := fr.it
	if it.joining[blk] > 300 {
		top, _ := cond.(Top)
		if top.Taint {
			it.event("tainted-loop", fr.fn, ifPos(x), "loop exit depends on a secret value")
		}
		it.abortf("loop in %s whose exit test is data-dependent (%s)", fr.fn, show(cond))
	}
	it.joining[blk]++
	tick()
	J := it.cfg(fr.fn).ipdom[blk]
	a := fr.runArm(blk.Succs[0], blk, J)
	b := fr.runArm(blk.Succs[1], blk, J)
	it.joining[blk]--
	p := condTerm(cond)
	top, isTop := cond.(Top)
	// trace discipline
	ka, kb := traceKey(a.trace), traceKey(b.trace)
	tainted := isTop && top.Taint
	if ka == kb {
		it.Trace = append(it.Trace, a.trace...)
	} else {
		if tainted && !it.Cfg.ExemptOrigin[top.Origin] {
			it.event("trace-divergence", fr.fn, ifPos(x), "the two arms of a branch on a secret-dependent condition (%s) execute different sequences of field-level operations: %d vs %d function entries", top.Why, TraceLen(a.trace), TraceLen(b.trace))
		}
		it.Trace = append(it.Trace, TraceEv{Branch: &TraceBranch{Cond: show(cond), Then: a.trace, Else: b.trace}})
	}
	if tainted {
		it.event("tainted-branch", fr.fn, ifPos(x), "origin=%s equal=%v", top.Origin, ka == kb)
	}
	// panicking arms: the execution continues with the other arm
	if a.kind == 2 && b.kind == 2 {
		panic(a.panicV)
	}
	if a.kind == 2 || b.kind == 2 {
		live, dead := a, b
		if a.kind == 2 {
			live, dead = b, a
		}
		it.event("panic-under", dead.panicV.fn, dead.panicV.pos, "panic(%s) when %s is %v", show(dead.panicV.val), show(cond), a.kind == 2)
		for c, s := range live.writes {
			it.journal = append(it.journal, jent{c, c.Val, c.Rep})
			c.Val, c.Rep = s.val, s.rep
		}
		fr.regs = live.regs
		if live.kind == 1 {
			return execResult{kind: exReturn, ret: live.ret, last: live.last}
		}
		if J == nil {
			it.abortf("join without post-dominator in %s", fr.fn)
		}
		return execResult{cont: J, contPrev: live.last, phisDone: false}
	}
	if a.kind != b.kind {
		it.abortf("arms of a joined branch end differently in %s", fr.fn)
	}
	// merge cells
	cells := map[*Cell]bool{}
	for c := range a.writes {
		cells[c] = true
	}
	for c := range b.writes {
		cells[c] = true
	}
	for c := range cells {
		sa, ok := a.writes[c]
		if !ok {
			sa = cellState{c.Val, c.Rep}
			if b.writes[c].rep != nil {
				sa = it.stateIn(a.writes, c)
			}
		}
		sb, ok := b.writes[c]
		if !ok {
			sb = cellState{c.Val, c.Rep}
			if a.writes[c].rep != nil {
				sb = it.stateIn(b.writes, c)
			}
		}
		m := it.mergeState(p, cond, sa, sb, c)
		it.journal = append(it.journal, jent{c, c.Val, c.Rep})
		c.Val, c.Rep = m.val, m.rep
	}
	if a.kind == 1 {
		return execResult{kind: exReturn, ret: it.mergeValue(p, cond, a.ret, b.ret), last: a.last}
	}
	if J == nil {
		it.abortf("join without post-dominator in %s", fr.fn)
	}
	// registers that existed before the branch and were re-defined inside an arm (an arm that runs through a
	// loop header re-evaluates the header's phis, and the header dominates J): merge them too
	for k, old := range fr.regs {
		va, oka := a.regs[k]
		vb, okb := b.regs[k]
		if !oka {
			va = old
		}
		if !okb {
			vb = old
		}
		if !valueEq(va, old) || !valueEq(vb, old) {
			fr.regs[k] = it.mergeValue(p, cond, va, vb)
		}
	}
	// phis of J
	for _, in := range J.Instrs {
		ph, ok := in.(*ssa.Phi)
		if !ok {
			break
		}
		var va, vb Value
		for i, pb := range J.Preds {
			if pb == a.last {
				va = (&Frame{it: it, fn: fr.fn, regs: a.regs}).get(ph.Edges[i])
			}
			if pb == b.last {
				vb = (&Frame{it: it, fn: fr.fn, regs: b.regs}).get(ph.Edges[i])
			}
		}
		if va == nil || vb == nil {
			it.abortf("phi edge not found at join in %s", fr.fn)
		}
		fr.regs[ph] = it.mergeValue(p, cond, va, vb)
	}
	return execResult{cont: J, contPrev: a.last, phisDone: true}
}

func taintOf(v Value) bool {
	if t, ok := v.(Top); ok {
		return t.Taint
	}
	return false
}

func (it *Interp) mergeState(p *Term, cond Value, a, b cellState, c *Cell) cellState {
	if a.rep != nil || b.rep != nil {
		if a.rep != nil && b.rep != nil {
			if a.rep.T.Equal(b.rep.T) {
				return a
			}
			if p != nil {
				if t := Ite(p, a.rep.T, b.rep.T); t != nil {
					return cellState{rep: &Rep{t}}
				}
			}
		}
		return cellState{val: Top{Taint: taintOf(cond), Why: "join of different representation values"}}
	}
	return cellState{val: it.mergeValue(p, cond, a.val, b.val)}
}

// mergeValue is ite(cond, a, b).
func (it *Interp) mergeValue(p *Term, cond Value, a, b Value) Value {
	if valueEq(a, b) {
		return a
	}
	if p != nil {
		ta, oka := asTerm(a)
		tb, okb := asTerm(b)
		if oka && okb {
			if t := Ite(p, ta, tb); t != nil {
				if _, isP := a.(PredV); isP {
					return PredV{t}
				}
				if _, isP := b.(PredV); isP {
					return PredV{t}
				}
				return TermV{t}
			}
		}
	}
	// two different pointers: a selection (r0/r1 swapped under a condition)
	if sel, ok := mergePtrs(p, cond, a, b); ok {
		return sel
	}
	taint := taintOf(cond) || taintOf(a) || taintOf(b)
	return Top{Taint: taint, Why: "join"}
}

func mergePtrs(p *Term, cond Value, a, b Value) (PtrSel, bool) {
	pa, oka := a.(Ptr)
	pb, okb := b.(Ptr)
	if !oka || !okb {
		return PtrSel{}, false
	}
	if p != nil {
		return PtrSel{Alts: []*Cell{pa.C, pb.C}, Conds: []*Term{p, TInt(1).Sub(p)}}, true
	}
	if t, isTop := cond.(Top); isTop {
		return PtrSel{Alts: []*Cell{pa.C, pb.C}, Top: &t}, true
	}
	return PtrSel{}, false
}

func asTerm(v Value) (*Term, bool) {
	switch x := v.(type) {
	case KInt:
		return TConst(x.V), true
	case KBool:
		return boolTerm(bool(x)), true
	case TermV:
		return x.T, true
	case PredV:
		return x.P, true
	}
	return nil, false
}

func valueEq(a, b Value) bool {
	switch x := a.(type) {
	case nil:
		return b == nil
	case KInt:
		y, ok := b.(KInt)
		return ok && x.V.Cmp(y.V) == 0
	case KBool:
		y, ok := b.(KBool)
		return ok && x == y
	case KStr:
		y, ok := b.(KStr)
		return ok && x == y
	case KFloat:
		y, ok := b.(KFloat)
		return ok && x == y
	case Nil:
		_, ok := b.(Nil)
		return ok
	case Ptr:
		y, ok := b.(Ptr)
		return ok && x.C == y.C
	case SliceV:
		y, ok := b.(SliceV)
		return ok && x.Arr == y.Arr && x.Lo == y.Lo && x.Cap == y.Cap && x.Len.Equal(y.Len)
	case TermV:
		y, ok := b.(TermV)
		return ok && x.T.Equal(y.T)
	case PredV:
		y, ok := b.(PredV)
		return ok && x.P.Equal(y.P)
	case Top:
		return false // two unknown values are never known to be equal
	case Iface:
		y, ok := b.(Iface)
		return ok && valueEq(x.Dyn, y.Dyn)
	case FuncV:
		y, ok := b.(FuncV)
		return ok && x.Fn == y.Fn
	case Tuple:
		y, ok := b.(Tuple)
		if !ok || len(x) != len(y) {
			return false
		}
		for i := range x {
			if !valueEq(x[i], y[i]) {
				return false
			}
		}
		return true
	}
	return false
}

// assumeTerm records that the 0/1 term p has the given truth value on this path.
func (it *Interp) assumeTerm(p *Term, v bool) {
	if a := p.SinglePred(); a != nil {
		it.assumeAtom(a, v)
		return
	}
	if a := PNot(p).SinglePred(); a != nil {
		it.assumeAtom(a, !v)
		return
	}
	// compound condition: every atom that has the same value in all assignments consistent with p = v is fixed
	atoms := p.PredAtoms()
	if !p.IsPred() || len(atoms) == 0 || len(atoms) > 8 {
		return
	}
	var always [2][]bool // always[0][i]: atom i can be false; always[1][i]: can be true
	always[0] = make([]bool, len(atoms))
	always[1] = make([]bool, len(atoms))
	for mask := 0; mask < 1<<len(atoms); mask++ {
		as := map[*PAtom]bool{}
		for i, a := range atoms {
			as[a] = mask>>i&1 == 1
		}
		if !feasibleAssign(atoms, as) {
			continue
		}
		ev := p.evalPure(as)
		if ev.Sign() != 0 && ev.Cmp(bigOne) != 0 {
			continue // p is a truth value: an assignment under which it is neither 0 nor 1 is infeasible
		}
		if (ev.Sign() != 0) != v {
			continue
		}
		for i := range atoms {
			if mask>>i&1 == 1 {
				always[1][i] = true
			} else {
				always[0][i] = true
			}
		}
	}
	for i, a := range atoms {
		if always[1][i] && !always[0][i] {
			it.assumeAtom(a, true)
		}
		if always[0][i] && !always[1][i] {
			it.assumeAtom(a, false)
		}
	}
}

func (it *Interp) assumeAtom(a *PAtom, v bool) {
	it.assume[a] = v
	// bind a symbolic integer when the atom is sym == const
	if a.Kind == PEQZ && v {
		if len(a.A.mons) <= 2 {
			var at *IAtom
			var coef *big.Int
			k := new(big.Int)
			okForm := true
			for _, m := range a.A.mons {
				if len(m.preds) > 0 {
					okForm = false
				}
				if m.atom == nil {
					k = m.c
				} else if m.atom.Kind == ISym {
					at, coef = m.atom, m.c
				} else {
					okForm = false
				}
			}
			if okForm && at != nil && coef.CmpAbs(bigOne) == 0 {
				val := new(big.Int).Neg(k)
				if coef.Sign() < 0 {
					val = new(big.Int).Set(k)
				}
				it.bind[at] = TConst(val)
				// a string of fixed length decodes, if it is valid hexadecimal, to half as many bytes (odd: never valid)
				if n := BaseSym(at).Name; val.Sign() > 0 && strings.HasPrefix(n, "len(") && !strings.HasPrefix(n, "len(unhex(") {
					x := n[4 : len(n)-1]
					if hv := SymBool("hexvalid(" + x + ")").SinglePred(); hv != nil && val.Bit(0) == 1 {
						it.assume[hv] = false
					}
					if ua := SymInt("len(unhex("+x+"))", bigZero, big.NewInt(math.MaxInt64)).SingleAtom(); ua != nil && val.Bit(0) == 0 {
						if _, bound := it.bind[ua]; !bound {
							it.bind[ua] = TConst(new(big.Int).Rsh(val, 1))
						}
					}
				}
				// the empty string is valid hexadecimal for the empty byte string
				if n := at.Name; val.Sign() == 0 && strings.HasPrefix(n, "len(") && !strings.HasPrefix(n, "len(unhex(") {
					x := n[4 : len(n)-1]
					if ua := SymInt("len(unhex("+x+"))", bigZero, big.NewInt(math.MaxInt64)).SingleAtom(); ua != nil {
						it.bind[ua] = TInt(0)
					}
					if hv := SymBool("hexvalid(" + x + ")").SinglePred(); hv != nil {
						it.assume[hv] = true
					}
				}
			}
		}
	}
	// sym != const at the edge of the symbol's range narrows the range
	if a.Kind == PEQZ && !v && len(a.A.mons) <= 2 {
		var at *IAtom
		var coef *big.Int
		k := new(big.Int)
		okForm := true
		for _, m := range a.A.mons {
			if len(m.preds) > 0 {
				okForm = false
			}
			if m.atom == nil {
				k = m.c
			} else if m.atom.Kind == ISym {
				at, coef = m.atom, m.c
			} else {
				okForm = false
			}
		}
		if okForm && at != nil && coef.CmpAbs(bigOne) == 0 {
			val := new(big.Int).Neg(k)
			if coef.Sign() < 0 {
				val = new(big.Int).Set(k)
			}
			cur := it.curAtom(at)
			lo, hi := cur.Lo, cur.Hi
			if val.Cmp(lo) == 0 {
				lo = new(big.Int).Add(lo, bigOne)
			} else if val.Cmp(hi) == 0 {
				hi = new(big.Int).Sub(hi, bigOne)
			}
			if lo.Cmp(cur.Lo) != 0 || hi.Cmp(cur.Hi) != 0 {
				base := BaseSym(at)
				it.bind[at] = SymInt(fmt.Sprintf("%s∈[%s,%s]", base.Name, lo, cstr(hi)), lo, hi)
				it.narrowOf(it.bind[at].SingleAtom(), at)
				it.carryAssumptions(at)
			}
		}
	}
	// narrow the range of a symbolic integer compared with a constant:  B - A > 0 with B - A = c0 ± atom
	if a.Kind == PLT {
		d := a.B.Sub(a.A)
		var at *IAtom
		var c1 *big.Int
		c0 := new(big.Int)
		ok := len(d.mons) <= 2
		for _, m := range d.mons {
			if len(m.preds) > 0 {
				ok = false
			}
			if m.atom == nil {
				c0 = m.c
			} else if m.atom.Kind == ISym && m.c.CmpAbs(bigOne) == 0 && at == nil {
				at, c1 = m.atom, m.c
			} else {
				ok = false
			}
		}
		if ok && at != nil {
			cur := it.curAtom(at)
			lo, hi := cur.Lo, cur.Hi
			switch {
			case c1.Sign() > 0 && v: // c0 + at > 0
				lo = maxBig(lo, new(big.Int).Sub(bigOne, c0))
			case c1.Sign() > 0 && !v: // c0 + at <= 0
				hi = minBig(hi, new(big.Int).Neg(c0))
			case c1.Sign() < 0 && v: // c0 - at > 0
				hi = minBig(hi, new(big.Int).Sub(c0, bigOne))
			default: // c0 - at <= 0
				lo = maxBig(lo, c0)
			}
			base := BaseSym(at)
			if lo.Cmp(hi) == 0 {
				it.bind[at] = TConst(lo)
			} else {
				it.bind[at] = SymInt(fmt.Sprintf("%s∈[%s,%s]", base.Name, lo, cstr(hi)), lo, hi)
				it.narrowOf(it.bind[at].SingleAtom(), at)
				it.carryAssumptions(at)
			}
		}
	}
}

// carryAssumptions re-states, for the atom that now stands for at, the comparisons already assumed about at
// (a path that excluded len = 32 and then narrows len to [1,max] still excludes 32).
func (it *Interp) carryAssumptions(at *IAtom) {
	nb := it.bind[at]
	if nb == nil {
		return
	}
	re := func(t *Term) (*Term, bool) {
		out := newTerm()
		hit := false
		for _, m := range t.mons {
			if m.atom == at {
				hit = true
				for _, bm := range nb.mons {
					out.addMon(new(big.Int).Mul(m.c, bm.c), mergePreds(m.preds, bm.preds), bm.atom)
				}
			} else {
				out.addMon(m.c, m.preds, m.atom)
			}
		}
		return out.norm(), hit
	}
	type kv struct {
		p *PAtom
		v bool
	}
	var add []kv
	for p, v := range it.assume {
		var q *Term
		switch p.Kind {
		case PEQZ:
			if a, hit := re(p.A); hit {
				q = EQZ(a)
			}
		case PLT:
			a, h1 := re(p.A)
			b, h2 := re(p.B)
			if h1 || h2 {
				q = LT(a, b)
			}
		}
		if q == nil {
			continue
		}
		if qa := q.SinglePred(); qa != nil {
			add = append(add, kv{qa, v})
		}
	}
	for _, e := range add {
		if _, ok := it.assume[e.p]; !ok {
			it.assume[e.p] = e.v
		}
	}
}

// narrowed atoms remember the symbol they narrow
var narrowBase = map[*IAtom]*IAtom{}

func (it *Interp) narrowOf(n, base *IAtom) {
	if n == nil {
		return
	}
	if b, ok := narrowBase[base]; ok {
		base = b
	}
	narrowBase[n] = base
}

// BaseSym returns the original symbol of a (possibly narrowed) symbolic integer.
func BaseSym(a *IAtom) *IAtom {
	if b, ok := narrowBase[a]; ok {
		return b
	}
	return a
}

func (it *Interp) curAtom(at *IAtom) *IAtom {
	if t, ok := it.bind[at]; ok {
		if a := t.SingleAtom(); a != nil {
			return a
		}
	}
	return at
}

func minBig(a, b *big.Int) *big.Int {
	if a.Cmp(b) < 0 {
		return a
	}
	return b
}
func maxBig(a, b *big.Int) *big.Int {
	if a.Cmp(b) > 0 {
		return a
	}
	return b
}

// ApplyTerm substitutes the path's assumptions and bindings into t.
func (it *Interp) ApplyTerm(t *Term) *Term {
	if len(it.assume) == 0 && len(it.bind) == 0 {
		return t
	}
	changed := false
	n := newTerm()
	for _, m := range t.mons {
		on := true
		var rest []*PAtom
		for _, p := range m.preds {
			if v, ok := it.assume[p]; ok {
				changed = true
				if !v {
					on = false
					break
				}
			} else {
				rest = append(rest, p)
			}
		}
		if !on {
			continue
		}
		if m.atom != nil {
			if b, ok := it.bind[m.atom]; ok {
				changed = true
				// chase chains of bindings
				for {
					a := b.SingleAtom()
					if a == nil {
						break
					}
					nb, ok := it.bind[a]
					if !ok {
						break
					}
					b = nb
				}
				for _, bm := range b.mons {
					n.addMon(new(big.Int).Mul(m.c, bm.c), mergePreds(rest, bm.preds), bm.atom)
				}
				continue
			}
		}
		n.addMon(m.c, rest, m.atom)
	}
	if !changed {
		return t
	}
	return n.norm()
}

func (it *Interp) applyAssume(v Value) Value {
	switch x := v.(type) {
	case PredV:
		return PredV{it.ApplyTerm(x.P)}
	case TermV:
		return TermV{it.ApplyTerm(x.T)}
	}
	return v
}

// PathResult is the outcome of one explored path.
type PathResult struct {
	Guards  []Guard
	Exit    string // "return", "panic", "abort"
	Ret     Value
	Panic   Value
	PanicAt token.Pos
	Abort   string
	Events  []Event
	It      *Interp
}

// Explore enumerates the paths of a call (ENUM branches) by re-execution.
// setup builds the inputs on a fresh interpreter and returns the call; visit
// inspects the final state of each path.
func Explore(p *load.Prog, cfg Config, maxPaths int, setup func(it *Interp) (*ssa.Function, []Value), visit func(res *PathResult)) int {
	var dec []bool
	n := 0
	for {
		it := New(p, cfg)
		it.oracle = &oracle{dec: dec}
		fn, args := setup(it)
		res := &PathResult{It: it}
		func() {
			defer func() {
				if e := recover(); e != nil {
					switch x := e.(type) {
					case *goPanic:
						res.Exit = "panic"
						res.Panic = x.val
						res.PanicAt = x.pos
					case *abort:
						res.Exit = "abort"
						res.Abort = x.reason
					default:
						panic(e)
					}
				}
			}()
			res.Ret = it.CallFn(fn, args)
			res.Exit = "return"
		}()
		res.Guards = it.Guards
		res.Events = it.Events
		visit(res)
		n++
		dec = it.oracle.dec[:minInt(it.oracle.pos, len(it.oracle.dec))]
		// backtrack
		for len(dec) > 0 && !dec[len(dec)-1] {
			dec = dec[:len(dec)-1]
		}
		if len(dec) == 0 {
			return n
		}
		dec = append(append([]bool{}, dec[:len(dec)-1]...), false)
		if n >= maxPaths {
			res := &PathResult{It: it, Exit: "abort", Abort: fmt.Sprintf("path cap %d reached", maxPaths)}
			visit(res)
			return n
		}
	}
}

func minInt(a, b int) int {
	if a < b {
		return a
	}
	return b
}

// Fill sets every leaf cell of c to v.
func (it *Interp) Fill(c *Cell, v Value) { it.smashQuiet(c, v) }

// DescribePanic renders the analyser's own panics (aborts and modelled Go panics).
func DescribePanic(e interface{}) string {
	switch x := e.(type) {
	case *abort:
		return x.reason
	case *goPanic:
		return "modelled Go panic: " + show(x.val)
	}
	return ""
}

// InputRoots lists the root cells of the input objects created by the driver, in creation order.
func (it *Interp) InputRoots() []*Cell {
	return it.inputRoots
}

// AsTerm exposes asTerm; Show exposes show.
func AsTerm(v Value) (*Term, bool) { return asTerm(v) }
func Show(v Value) string          { return show(v) }

// ApplyPoly substitutes the path's assumptions for the predicate variables of p.
func (it *Interp) ApplyPoly(p *Poly) *Poly {
	for _, a := range p.PredAtoms() {
		if v, ok := it.assume[a]; ok {
			p = p.SubstPred(a, v)
		}
	}
	return p
}

// DeepApplyTerm substitutes the path's assumed predicate atoms everywhere in t, also inside atom arguments.
func (it *Interp) DeepApplyTerm(t *Term) *Term {
	if len(it.assume) > 0 {
		for pass := 0; pass < 2; pass++ {
			sa := NewSubst(nil, false)
			sa.Assume = it.assume
			u := sa.Term(t)
			same := u.Key() == t.Key()
			t = u
			if same {
				break
			}
		}
	}
	for _, as := range it.Assumptions() {
		a, v := as.Atom, as.Val
		// an assumed equality x = c of a free field symbol binds the symbol
		if v && a.Kind == PISZ {
			if fv, c := linearVarEq(a.V); fv != nil {
				t = NewVarSubst(fv, c).Term(t)
			}
		}
	}
	if len(it.bind) > 0 {
		sb := NewSubst(nil, false)
		sb.IBind = it.bind
		t = sb.Term(t)
	}
	return it.ApplyTerm(t)
}

// DeepApplyPoly is DeepApplyTerm for polynomials.
func (it *Interp) DeepApplyPoly(p *Poly) *Poly {
	if len(it.assume) > 0 {
		// all assumed atoms in one pass (twice: a substitution can expose another assumed atom)
		for pass := 0; pass < 2; pass++ {
			sa := NewSubst(nil, false)
			sa.Assume = it.assume
			q := sa.Poly(p)
			same := q.Key() == p.Key()
			p = q
			if same {
				break
			}
		}
	}
	for _, as := range it.Assumptions() {
		a, v := as.Atom, as.Val
		if v && a.Kind == PISZ {
			if fv, c := linearVarEq(a.V); fv != nil {
				p = NewVarSubst(fv, c).Poly(p)
			}
		}
	}
	if len(it.bind) > 0 {
		sb := NewSubst(nil, false)
		sb.IBind = it.bind
		p = sb.Poly(p)
	}
	return p
}

// Assumption is one predicate atom fixed on the current path.
type Assumption struct {
	Atom *PAtom
	Val  bool
}

// Assumptions lists the path's assumptions (sorted by atom id).
func (it *Interp) Assumptions() []Assumption {
	var out []Assumption
	for a, v := range it.assume {
		out = append(out, Assumption{a, v})
	}
	sort.Slice(out, func(i, j int) bool { return out[i].Atom.ID < out[j].Atom.ID })
	return out
}

// IszVarName returns the name of the free field symbol x if a is the atom [x = 0], else "".
func IszVarName(a *PAtom) string {
	if a.Kind != PISZ || len(a.V.mons) != 1 {
		return ""
	}
	for _, m := range a.V.mons {
		if len(m.vars) == 1 && m.vars[0].v.Kind == FSym && m.vars[0].e.Cmp(bigOne) == 0 && m.c.Cmp(bigOne) == 0 {
			return m.vars[0].v.Name
		}
	}
	return ""
}

// MentionsFieldSymbol reports whether the atom is about field values (as opposed to lengths, bytes, flags).
func MentionsFieldSymbol(a *PAtom) bool {
	return a.Kind == PISZ
}

// Deadline bounds the wall-clock time of the analyses of one process: a computation that runs into it is
// outside what the domains can follow, and the check reports UNDECIDED (exit 1) instead of hanging.
var Deadline time.Time

var ticks int

// tick is called from the algebra's inner operations; every 256th call looks at the clock.
func tick() { tickN(1) }

// tickN charges n units of work.
func tickN(n int) {
	ticks += n
	if ticks > TickLimit {
		panic(&abort{"analysis work budget exceeded (the code does something the abstract domains cannot follow in bounded work, e.g. a data-dependent loop over field arithmetic)"})
	}
}

// TickLimit bounds the number of elementary algebra operations of one process (deterministic, independent of machine load).
var TickLimit = 150_000_000

// Ticks reports the work done so far.
func Ticks() int { return ticks }

func checkDeadline() {
	if !Deadline.IsZero() && time.Now().After(Deadline) {
		panic(&abort{"analysis time budget exceeded (the code does something the abstract domains cannot follow in bounded time, e.g. a data-dependent loop over field arithmetic)"})
	}
}

// valueAlternatives recognises a 0/1 term [s = v1] + ... + [s = vk] over one symbol s (k >= 2).
func valueAlternatives(t *Term) []*PAtom {
	var alts []*PAtom
	var sym *IAtom
	for _, m := range t.sortedMons() {
		if m.atom != nil || len(m.preds) != 1 || m.c.Cmp(bigOne) != 0 || m.preds[0].Kind != PEQZ {
			return nil
		}
		var s *IAtom
		for _, mm := range m.preds[0].A.mons {
			if len(mm.preds) > 0 {
				return nil
			}
			if mm.atom != nil {
				if s != nil || mm.atom.Kind != ISym || mm.c.CmpAbs(bigOne) != 0 {
					return nil
				}
				s = mm.atom
			}
		}
		if s == nil || (sym != nil && s != sym) {
			return nil
		}
		sym = s
		alts = append(alts, m.preds[0])
	}
	return alts
}

func clip(s string, n int) string {
	if len(s) > n {
		return s[:n] + "…"
	}
	return s
}

// isLenEquality: p is [len(x) = c] or its negation for an input length symbol.
func isLenEquality(p *Term) bool {
	a := p.SinglePred()
	if a == nil {
		a = PNot(p).SinglePred()
	}
	if a == nil || a.Kind != PEQZ {
		return false
	}
	n := 0
	for _, m := range a.A.mons {
		if len(m.preds) > 0 {
			return false
		}
		if m.atom == nil {
			continue
		}
		if m.atom.Kind != ISym || !strings.HasPrefix(BaseSym(m.atom).Name, "len(") {
			return false
		}
		n++
	}
	return n == 1
}

// stepTolerant executes one top-level instruction of a package initialiser. An initialiser expression the
// interpreter cannot follow (or that panics in the abstract) makes the variable it initialises unknown instead of
// ending the whole analysis: only a property that reads that variable is then affected.
func (fr *Frame) stepTolerant(in ssa.Instruction) {
	it := fr.it
	depth := it.depth
	mark := len(it.journal)
	defer func() {
		if e := recover(); e != nil {
			why := DescribePanic(e)
			if why == "" {
				panic(e)
			}
			it.depth = depth
			_ = mark
			it.event("init-abort", fr.fn, in.Pos(), "package initialiser not followed (%s): the value it computes is unknown", why)
			if v, ok := in.(ssa.Value); ok {
				fr.regs[v] = Top{Why: "value of an initialiser the analysis could not follow"}
			}
		}
	}()
	fr.step(in)
}

// AssumedString lists the path's assumed atoms (debugging).
func (it *Interp) AssumedString() string {
	var out []string
	for a, v := range it.assume {
		out = append(out, fmt.Sprintf("%v:%s", v, clip(a.String(), 60)))
	}
	sort.Strings(out)
	return strings.Join(out, " | ")
}

// lowerBound is the lower end of t's interval, using the upper bounds of symbolic integers established on this path.
func (it *Interp) lowerBound(t *Term) *big.Int {
	lo, _ := t.Bounds()
	if lo.Sign() >= 0 || len(it.pathHi) == 0 {
		return lo
	}
	out := new(big.Int)
	for _, m := range t.mons {
		if len(m.preds) > 0 {
			return lo
		}
		if m.atom == nil {
			out.Add(out, m.c)
			continue
		}
		alo, ahi := m.atom.Lo, m.atom.Hi
		if h, ok := it.pathHi[m.atom]; ok && h.Cmp(ahi) < 0 {
			ahi = h
		}
		if m.c.Sign() >= 0 {
			out.Add(out, new(big.Int).Mul(m.c, alo))
		} else {
			out.Add(out, new(big.Int).Mul(m.c, ahi))
		}
	}
	if out.Cmp(lo) > 0 {
		return out
	}
	return lo
}
