// Package absint is engine E1: an abstract interpreter over go/ssa that
// propagates "algebraic constants" (polynomials over F_p / F_n, integer and
// word terms, predicates, byte-string terms) through the repository's code,
// with an exact heap (aliasing is followed, not approximated).  Branches on
// data are either joined (JOIN: both arms up to the immediate post-dominator,
// cells merged with ite) or enumerated (ENUM: one path per decision vector,
// re-executed from the entry).  See DESIGN.md section 2 and Appendix A.
package absint

import (
	"fmt"
	"go/types"
	"math/big"
	"strings"

	"golang.org/x/tools/go/ssa"
)

// Value is an abstract SSA value.
type Value interface{}

// Top is an unknown value.  Taint says it may depend on a secret input;
// Origin names the exported predicate it is the direct result of (if any).
type Top struct {
	Taint  bool
	Why    string
	Origin string
}

type KInt struct{ V *big.Int } // integer constant, already wrapped to its type
type KBool bool
type KStr string
type KFloat float64
type Nil struct{}

// Ptr points to a cell.
type Ptr struct{ C *Cell }

// SliceV is a slice of the array cell Arr: elements Arr.Kids[Lo:Lo+len], where
// the length is Len (a constant or a term), capacity Cap (constant).
type SliceV struct {
	Arr *Cell
	Lo  int
	Len *Term
	Cap int
}

// Agg is a struct or array value (a private copy of a cell tree).
type Agg struct{ C *Cell }

type Tuple []Value

// Iface is an interface value holding Dyn.
type Iface struct {
	Dyn Value
	Typ types.Type
}

type FuncV struct{ Fn *ssa.Function }

// PredV is a boolean-valued value.
type PredV struct{ P *Term }

// TermV is an integer-valued value (words, bytes, ints).
type TermV struct{ T *Term }

// Rep says that a [4]uint64 cell holds the four 64-bit limbs of the integer term T.
type Rep struct{ T *Term }

// SymIface is an interface value (an error) whose nil-ness is the 0/1 term IsNil.
type SymIface struct {
	IsNil *Term
	Name  string
}

// Object is one allocation.
type Object struct {
	Name   string
	Input  bool // owned by the caller (driver input): writes to it are effects
	Global bool
	Root   *Cell
	ID     int
}

// Cell is a node of an object's cell tree.
type Cell struct {
	Typ  types.Type
	Kids []*Cell
	Val  Value // leaf cells
	Rep  *Rep  // whole-array representation value of a [4]uint64 cell (overrides Kids' values)
	Obj  *Object
	Up   *Cell
	Idx  int
}

func (c *Cell) Path() string {
	if c.Up == nil {
		if c.Obj != nil {
			return c.Obj.Name
		}
		return "?"
	}
	p := c.Up.Path()
	switch u := c.Up.Typ.Underlying().(type) {
	case *types.Struct:
		return p + "." + u.Field(c.Idx).Name()
	default:
		return fmt.Sprintf("%s[%d]", p, c.Idx)
	}
}

// zero value of a type
func (it *Interp) zeroValue(t types.Type) Value {
	switch u := t.Underlying().(type) {
	case *types.Basic:
		switch {
		case u.Info()&types.IsBoolean != 0:
			return KBool(false)
		case u.Info()&types.IsString != 0:
			return KStr("")
		case u.Info()&types.IsFloat != 0:
			return KFloat(0)
		case u.Info()&types.IsInteger != 0:
			return KInt{new(big.Int)}
		}
		return Top{Why: "zero of " + t.String()}
	case *types.Pointer, *types.Slice, *types.Map, *types.Chan, *types.Signature, *types.Interface:
		return Nil{}
	}
	return Top{Why: "zero of " + t.String()}
}

func (it *Interp) newCell(t types.Type, obj *Object, up *Cell, idx int) *Cell {
	c := &Cell{Typ: t, Obj: obj, Up: up, Idx: idx}
	switch u := t.Underlying().(type) {
	case *types.Struct:
		for i := 0; i < u.NumFields(); i++ {
			c.Kids = append(c.Kids, it.newCell(u.Field(i).Type(), obj, c, i))
		}
	case *types.Array:
		for i := int64(0); i < u.Len(); i++ {
			c.Kids = append(c.Kids, it.newCell(u.Elem(), obj, c, int(i)))
		}
	default:
		c.Val = it.zeroValue(t)
	}
	return c
}

// NewObject allocates a zero-valued object of type t.
func (it *Interp) NewObject(t types.Type, name string, input bool) *Object {
	it.nobj++
	o := &Object{Name: name, Input: input, ID: it.nobj}
	o.Root = it.newCell(t, o, nil, 0)
	if input {
		it.inputRoots = append(it.inputRoots, o.Root)
	}
	return o
}

// NewArrayObject allocates an array object of n elements of type elem.
func (it *Interp) NewArrayObject(elem types.Type, n int, name string, input bool) *Object {
	return it.NewObject(types.NewArray(elem, int64(n)), name, input)
}

// journal entry
type jent struct {
	c      *Cell
	oldVal Value
	oldRep *Rep
}

func (it *Interp) setCell(c *Cell, v Value) {
	it.journal = append(it.journal, jent{c, c.Val, c.Rep})
	c.Val = v
}

func (it *Interp) setRep(c *Cell, r *Rep) {
	it.journal = append(it.journal, jent{c, c.Val, c.Rep})
	c.Rep = r
}

func (it *Interp) undoTo(mark int) {
	for i := len(it.journal) - 1; i >= mark; i-- {
		e := it.journal[i]
		e.c.Val = e.oldVal
		e.c.Rep = e.oldRep
	}
	it.journal = it.journal[:mark]
}

// cellState is the observable content of one journaled cell.
type cellState struct {
	val Value
	rep *Rep
}

// written returns the final state of every cell journaled since mark.
func (it *Interp) written(mark int) map[*Cell]cellState {
	out := map[*Cell]cellState{}
	for i := mark; i < len(it.journal); i++ {
		c := it.journal[i].c
		out[c] = cellState{c.Val, c.Rep}
	}
	return out
}

// WrittenInputs lists input-object cells written since mark whose final
// state differs from their state at mark.
func (it *Interp) WrittenInputs(mark int) []*Cell {
	first := map[*Cell]jent{}
	var order []*Cell
	for i := mark; i < len(it.journal); i++ {
		e := it.journal[i]
		if _, ok := first[e.c]; !ok {
			first[e.c] = e
			order = append(order, e.c)
		}
	}
	var out []*Cell
	for _, c := range order {
		if c.Obj == nil || !c.Obj.Input {
			continue
		}
		out = append(out, c)
	}
	return out
}

// storeValue stores v (scalar or aggregate) into cell c.
func (it *Interp) storeValue(c *Cell, v Value) {
	if a, ok := v.(Agg); ok {
		it.copyCell(c, a.C)
		return
	}
	if len(c.Kids) > 0 {
		// storing a non-aggregate into an aggregate cell: only Top is meaningful
		it.smash(c, v)
		return
	}
	if c.Up != nil && c.Up.Rep != nil {
		it.materialise(c.Up)
	}
	it.setCell(c, v)
}

func (it *Interp) smash(c *Cell, v Value) {
	if c.Rep != nil {
		it.setRep(c, nil)
	}
	if len(c.Kids) == 0 {
		it.setCell(c, v)
		return
	}
	for _, k := range c.Kids {
		it.smash(k, v)
	}
}

func (it *Interp) copyCell(dst, src *Cell) {
	if len(dst.Kids) != len(src.Kids) {
		it.smash(dst, Top{Why: "aggregate shape mismatch"})
		return
	}
	if src.Rep != nil || dst.Rep != nil {
		if dst.Up != nil && dst.Up.Rep != nil {
			it.materialise(dst.Up)
		}
		it.setRep(dst, src.Rep)
		if src.Rep != nil {
			return
		}
	}
	if len(dst.Kids) == 0 {
		if dst.Up != nil && dst.Up.Rep != nil {
			it.materialise(dst.Up)
		}
		it.setCell(dst, src.Val)
		return
	}
	for i := range dst.Kids {
		it.copyCell(dst.Kids[i], src.Kids[i])
	}
}

// snapshot returns a private copy of a cell tree (an aggregate value).
func (it *Interp) snapshot(c *Cell) *Cell {
	n := &Cell{Typ: c.Typ, Val: c.Val, Rep: c.Rep, Idx: c.Idx}
	for _, k := range c.Kids {
		kk := it.snapshot(k)
		kk.Up = n
		n.Kids = append(n.Kids, kk)
	}
	return n
}

// loadValue loads the content of cell c as a value.
func (it *Interp) loadValue(c *Cell) Value {
	if len(c.Kids) > 0 {
		return Agg{it.snapshot(c)}
	}
	if c.Up != nil && c.Up.Rep != nil {
		return it.limbOfRep(c.Up.Rep, c.Idx)
	}
	return c.Val
}

func show(v Value) string {
	switch x := v.(type) {
	case nil:
		return "<nil>"
	case Top:
		s := "⊤"
		if x.Taint {
			s += "(secret)"
		}
		if x.Why != "" {
			s += "[" + x.Why + "]"
		}
		return s
	case KInt:
		return x.V.String()
	case KBool:
		return fmt.Sprint(bool(x))
	case KStr:
		return fmt.Sprintf("%q", string(x))
	case Ptr:
		return "&" + x.C.Path()
	case SliceV:
		return fmt.Sprintf("%s[%d:+%s]", x.Arr.Path(), x.Lo, x.Len)
	case PredV:
		return x.P.String()
	case TermV:
		return x.T.String()
	case Tuple:
		var s []string
		for _, e := range x {
			s = append(s, show(e))
		}
		return "(" + strings.Join(s, ", ") + ")"
	case Iface:
		return "iface{" + show(x.Dyn) + "}"
	case Agg:
		return "agg"
	case Nil:
		return "nil"
	}
	return fmt.Sprintf("%T", v)
}
