package absint

import (
	"fmt"
	"math/big"
	"sort"
	"strings"
)

// Field describes one of the two prime fields.
type Field struct {
	Name string
	M    *big.Int // modulus
	R    *big.Int // 2^256 mod M
	RInv *big.Int
	M1   *big.Int // M-1
	M2   *big.Int // M-2
}

func newField(name, hex string) *Field {
	m, _ := new(big.Int).SetString(hex, 16)
	r := new(big.Int).Lsh(big.NewInt(1), 256)
	r.Mod(r, m)
	return &Field{Name: name, M: m, R: r, RInv: new(big.Int).ModInverse(r, m),
		M1: new(big.Int).Sub(m, big.NewInt(1)), M2: new(big.Int).Sub(m, big.NewInt(2))}
}

var (
	// FP is the base field, FN the scalar field of secp256k1.
	FP = newField("Fp", "fffffffffffffffffffffffffffffffffffffffffffffffffffffffefffffc2f")
	FN = newField("Fn", "fffffffffffffffffffffffffffffffebaaedce6af48a03bbfd25e8cd0364141")
)

var (
	bigZero = big.NewInt(0)
	bigOne  = big.NewInt(1)
	two64   = new(big.Int).Lsh(big.NewInt(1), 64)
	two256  = new(big.Int).Lsh(big.NewInt(1), 256)
	mask64  = new(big.Int).Sub(two64, big.NewInt(1))
	max256  = new(big.Int).Sub(two256, big.NewInt(1))
)

// ---------------------------------------------------------------------------
// Integer atoms

type IKind int

const (
	ISym    IKind = iota // free integer symbol with a range
	ICanon               // canonical integer in [0,m) of a field value
	IMont                // Montgomery representative (v*R mod m) of a field value
	ILimb                // 64-bit limb i of integer term T (T in [0,2^256))
	IByte                // byte j (little-endian index) of integer term T
	ICDiff               // difference word of a bits.Sub64 borrow chain
	IWOp                 // opaque word operation
	INzFold              // a word that is zero iff the 256-bit integer T is zero (Fiat Nonzero)
)

// IAtom is an integer-valued atom with a known range.
type IAtom struct {
	ID    int
	Kind  IKind
	Name  string
	T     *Term   // ILimb, IByte, INzFold: base term
	Idx   int     // limb / byte index; bit width for IWOp
	F     *Field  // ICanon, IMont
	V     *Poly   // ICanon, IMont
	Chain *Chain  // ICDiff
	Op    string  // IWOp
	Args  []*Term // IWOp
	Lo    *big.Int
	Hi    *big.Int
	key   string
}

// Chain is a bits.Sub64 borrow chain x_0-y_0, x_1-y_1-b_0, ...
type Chain struct {
	Prev *Chain
	X, Y *Term
	N    int   // number of limbs so far
	A, B *Term // A = sum x_i 2^(64i), B likewise
	key  string
}

// ---------------------------------------------------------------------------
// Predicate atoms

type PKind int

const (
	PLT  PKind = iota // A < B (integers)
	PEQZ              // T == 0 (integer)
	PISZ              // field value == 0
	PBit              // bit K of integer term A
	PSym              // free boolean symbol
)

type PAtom struct {
	ID   int
	Kind PKind
	A, B *Term
	V    *Poly
	K    int
	Name string
	key  string
}

func (a *PAtom) String() string {
	switch a.Kind {
	case PLT:
		return "LT(" + a.A.String() + ", " + a.B.String() + ")"
	case PEQZ:
		return "EQZ(" + a.A.String() + ")"
	case PISZ:
		return "ISZ(" + a.V.String() + ")"
	case PBit:
		return fmt.Sprintf("BIT(%s,%d)", a.A.String(), a.K)
	}
	return a.Name
}

// ---------------------------------------------------------------------------
// Terms: integer-valued, normal form  sum c * (product of predicate atoms) * [integer atom]

type mon struct {
	c     *big.Int
	preds []*PAtom // sorted by ID, distinct
	atom  *IAtom   // may be nil
}

type Term struct {
	mons map[string]*mon
	key  string
	lo   *big.Int
	hi   *big.Int
}

// Alg interns atoms.  One per process: atoms must stay comparable across
// the re-executions of ENUM exploration.
type Alg struct {
	iatoms map[string]*IAtom
	patoms map[string]*PAtom
	fvars  map[string]*FVar
	chains map[string]*Chain
	borrow map[*PAtom]*Chain // LT atom produced by a borrow chain
	nextID int
}

var A = &Alg{iatoms: map[string]*IAtom{}, patoms: map[string]*PAtom{}, fvars: map[string]*FVar{}, chains: map[string]*Chain{}, borrow: map[*PAtom]*Chain{}}

func (a *Alg) id() int { a.nextID++; return a.nextID }

func monKey(preds []*PAtom, atom *IAtom) string {
	var sb strings.Builder
	for _, p := range preds {
		fmt.Fprintf(&sb, "p%d.", p.ID)
	}
	if atom != nil {
		fmt.Fprintf(&sb, "a%d", atom.ID)
	}
	return sb.String()
}

func newTerm() *Term { return &Term{mons: map[string]*mon{}} }

// TConst is the constant term c.
func TConst(c *big.Int) *Term {
	t := newTerm()
	if c.Sign() != 0 {
		t.mons[""] = &mon{c: new(big.Int).Set(c)}
	}
	return t
}
func TInt(c int64) *Term { return TConst(big.NewInt(c)) }

// TAtom is the term 1*atom.
func TAtom(a *IAtom) *Term {
	t := newTerm()
	t.mons[monKey(nil, a)] = &mon{c: big.NewInt(1), atom: a}
	return t
}

// TPred is the 0/1 term of predicate atom p.
func TPred(p *PAtom) *Term {
	t := newTerm()
	ps := []*PAtom{p}
	t.mons[monKey(ps, nil)] = &mon{c: big.NewInt(1), preds: ps}
	return t
}

func (t *Term) addMon(c *big.Int, preds []*PAtom, atom *IAtom) {
	if c.Sign() == 0 {
		return
	}
	tickN(1 + len(preds)*len(preds)/4)
	k := monKey(preds, atom)
	if m, ok := t.mons[k]; ok {
		m.c = new(big.Int).Add(m.c, c)
		if m.c.Sign() == 0 {
			delete(t.mons, k)
		}
		return
	}
	t.mons[k] = &mon{c: new(big.Int).Set(c), preds: preds, atom: atom}
}

func (t *Term) clone() *Term {
	n := newTerm()
	for k, m := range t.mons {
		n.mons[k] = &mon{c: m.c, preds: m.preds, atom: m.atom}
	}
	return n
}

// Add returns t+u.
func (t *Term) Add(u *Term) *Term {
	Work += int64(len(u.mons))
	tick()
	n := t.clone()
	for _, m := range u.mons {
		n.addMon(m.c, m.preds, m.atom)
	}
	return n.norm()
}

// Sub returns t-u.
func (t *Term) Sub(u *Term) *Term {
	n := t.clone()
	for _, m := range u.mons {
		n.addMon(new(big.Int).Neg(m.c), m.preds, m.atom)
	}
	return n.norm()
}

func (t *Term) Neg() *Term { return TInt(0).Sub(t) }

// Scale returns c*t.
func (t *Term) Scale(c *big.Int) *Term {
	n := newTerm()
	for _, m := range t.mons {
		n.addMon(new(big.Int).Mul(m.c, c), m.preds, m.atom)
	}
	return n
}

func mergePreds(a, b []*PAtom) []*PAtom {
	tickN(1 + (len(a)+len(b))/2)
	out := make([]*PAtom, 0, len(a)+len(b))
	i, j := 0, 0
	for i < len(a) || j < len(b) {
		switch {
		case j >= len(b) || (i < len(a) && a[i].ID < b[j].ID):
			out = append(out, a[i])
			i++
		case i >= len(a) || b[j].ID < a[i].ID:
			out = append(out, b[j])
			j++
		default:
			out = append(out, a[i])
			i++
			j++
		}
	}
	return out
}

// Mul returns t*u, or nil if a product of two integer atoms would be needed.
func (t *Term) Mul(u *Term) *Term {
	n := newTerm()
	Work += int64(len(t.mons)) * int64(len(u.mons))
	if Work > WorkLimit {
		panic(&abort{"analysis budget exceeded: the term computation grows beyond what the domain can follow"})
	}
	for _, m := range t.mons {
		for _, k := range u.mons {
			if m.atom != nil && k.atom != nil {
				return nil
			}
			at := m.atom
			if at == nil {
				at = k.atom
			}
			n.addMon(new(big.Int).Mul(m.c, k.c), mergePreds(m.preds, k.preds), at)
		}
	}
	return n.norm()
}

// IsConst reports whether t is a constant.
func (t *Term) IsConst() (*big.Int, bool) {
	if len(t.mons) == 0 {
		return new(big.Int), true
	}
	if len(t.mons) == 1 {
		if m, ok := t.mons[""]; ok {
			return m.c, true
		}
	}
	return nil, false
}

// IsPred reports whether t has no integer atom (a multilinear polynomial in predicate atoms).
func (t *Term) IsPred() bool {
	for _, m := range t.mons {
		if m.atom != nil {
			return false
		}
	}
	return true
}

// SingleAtom returns the atom if t == 1*atom.
func (t *Term) SingleAtom() *IAtom {
	if len(t.mons) != 1 {
		return nil
	}
	for _, m := range t.mons {
		if m.atom != nil && len(m.preds) == 0 && m.c.Cmp(bigOne) == 0 {
			return m.atom
		}
	}
	return nil
}

// SinglePred returns the predicate atom if t == 1*p.
func (t *Term) SinglePred() *PAtom {
	if len(t.mons) != 1 {
		return nil
	}
	for _, m := range t.mons {
		if m.atom == nil && len(m.preds) == 1 && m.c.Cmp(bigOne) == 0 {
			return m.preds[0]
		}
	}
	return nil
}

func (t *Term) sortedMons() []*mon {
	ks := make([]string, 0, len(t.mons))
	for k := range t.mons {
		ks = append(ks, k)
	}
	sort.Strings(ks)
	out := make([]*mon, len(ks))
	for i, k := range ks {
		out[i] = t.mons[k]
	}
	return out
}

// Key is the canonical key of t.
func (t *Term) Key() string {
	if t.key != "" {
		return t.key
	}
	ks := make([]string, 0, len(t.mons))
	for k, m := range t.mons {
		ks = append(ks, m.c.String()+"*"+k)
	}
	sort.Strings(ks)
	t.key = "{" + strings.Join(ks, "+") + "}"
	return t.key
}

func (t *Term) Equal(u *Term) bool { return t.Key() == u.Key() }

func (t *Term) String() string {
	if len(t.mons) == 0 {
		return "0"
	}
	var parts []string
	for i, m := range t.sortedMons() {
		if i >= 6 {
			parts = append(parts, fmt.Sprintf("…(%d terms)", len(t.mons)))
			break
		}
		var f []string
		if m.c.Cmp(bigOne) != 0 || (len(m.preds) == 0 && m.atom == nil) {
			f = append(f, cstr(m.c))
		}
		for _, p := range m.preds {
			f = append(f, p.String())
		}
		if m.atom != nil {
			f = append(f, m.atom.String())
		}
		parts = append(parts, strings.Join(f, "·"))
	}
	return strings.Join(parts, " + ")
}

func cstr(c *big.Int) string {
	if c.BitLen() > 40 {
		return "0x" + c.Text(16)
	}
	return c.String()
}

func (a *IAtom) String() string {
	switch a.Kind {
	case ISym:
		return a.Name
	case ICanon:
		return "Canon[" + a.F.Name + "](" + a.V.String() + ")"
	case IMont:
		return "MontRep[" + a.F.Name + "](" + a.V.String() + ")"
	case ILimb:
		return fmt.Sprintf("limb%d(%s)", a.Idx, a.T.String())
	case IByte:
		return fmt.Sprintf("byte%d(%s)", a.Idx, a.T.String())
	case ICDiff:
		return fmt.Sprintf("difflimb%d(%s - %s)", a.Chain.N-1, a.Chain.A.String(), a.Chain.B.String())
	case INzFold:
		return "nzfold(" + a.T.String() + ")"
	case IWOp:
		var s []string
		for _, x := range a.Args {
			s = append(s, x.String())
		}
		return a.Op + "(" + strings.Join(s, ", ") + ")"
	}
	return "?"
}

// Bounds returns an interval containing every value of t.
func (t *Term) Bounds() (lo, hi *big.Int) {
	if t.lo != nil {
		return t.lo, t.hi
	}
	if t.IsPred() {
		if atoms := t.PredAtoms(); len(atoms) > 1 && len(atoms) <= 10 {
			// exact range of a multilinear polynomial in 0/1 atoms
			for mask := 0; mask < 1<<len(atoms); mask++ {
				as := map[*PAtom]bool{}
				for i, a := range atoms {
					as[a] = mask>>i&1 == 1
				}
				if !feasibleAssign(atoms, as) {
					continue
				}
				v := t.evalPure(as)
				if lo == nil || v.Cmp(lo) < 0 {
					lo = v
				}
				if hi == nil || v.Cmp(hi) > 0 {
					hi = v
				}
			}
			if lo == nil {
				lo, hi = new(big.Int), new(big.Int)
			}
			t.lo, t.hi = lo, hi
			return
		}
	}
	lo, hi = new(big.Int), new(big.Int)
	for _, m := range t.mons {
		alo, ahi := bigOne, bigOne
		if m.atom != nil {
			alo, ahi = m.atom.Lo, m.atom.Hi
		}
		x := new(big.Int).Mul(m.c, alo)
		y := new(big.Int).Mul(m.c, ahi)
		if x.Cmp(y) > 0 {
			x, y = y, x
		}
		if len(m.preds) > 0 {
			if x.Sign() > 0 {
				x = new(big.Int)
			}
			if y.Sign() < 0 {
				y = new(big.Int)
			}
		}
		lo.Add(lo, x)
		hi.Add(hi, y)
	}
	t.lo, t.hi = lo, hi
	return
}

// SubstPred replaces predicate atom p by the constant v (0 or 1).
func (t *Term) SubstPred(p *PAtom, v bool) *Term {
	n := newTerm()
	for _, m := range t.mons {
		idx := -1
		for i, q := range m.preds {
			if q == p {
				idx = i
			}
		}
		if idx < 0 {
			n.addMon(m.c, m.preds, m.atom)
			continue
		}
		if !v {
			continue
		}
		ps := append(append([]*PAtom{}, m.preds[:idx]...), m.preds[idx+1:]...)
		n.addMon(m.c, ps, m.atom)
	}
	return n.norm()
}

// PredAtoms lists the predicate atoms occurring in t (sorted by ID).
func (t *Term) PredAtoms() []*PAtom {
	seen := map[*PAtom]bool{}
	var out []*PAtom
	for _, m := range t.mons {
		for _, p := range m.preds {
			if !seen[p] {
				seen[p] = true
				out = append(out, p)
			}
		}
	}
	sort.Slice(out, func(i, j int) bool { return out[i].ID < out[j].ID })
	return out
}

// boolean connectives on 0/1 terms
func PNot(p *Term) *Term    { return TInt(1).Sub(p) }
func PAnd(p, q *Term) *Term { return p.Mul(q) }
func POr(p, q *Term) *Term  { return p.Add(q).Sub(p.Mul(q)) }
func PXor(p, q *Term) *Term { return p.Add(q).Sub(p.Mul(q).Scale(big.NewInt(2))) }

// Ite returns ite(p, a, b) = b + p*(a-b) for a 0/1 term p; nil if not representable.
func Ite(p, a, b *Term) *Term {
	d := p.Mul(a.Sub(b))
	if d == nil {
		return nil
	}
	return b.Add(d)
}

// feasibleAssign rejects truth assignments that contradict the relations between comparison atoms: two equalities
// [E = 0], [E + c = 0] (c != 0) cannot both hold; [A < B] and [A = B] cannot both hold; under [E = 0] a comparison
// whose difference is α·E + β has the value [β > 0].
func feasibleAssign(atoms []*PAtom, as map[*PAtom]bool) bool {
	for _, p := range atoms {
		if !as[p] {
			// "some symbol of S is non-zero" contradicts true tests whose zero sets cover S
			if p.Kind == PEQZ && symZeroSet(p.A) {
				covered := map[*IAtom]bool{}
				for _, q := range atoms {
					if q != p && as[q] && q.Kind == PEQZ {
						for a := range zeroSet(q.A) {
							covered[a] = true
						}
					}
				}
				all := true
				for _, m := range p.A.mons {
					if !covered[m.atom] {
						all = false
					}
				}
				if all {
					return false
				}
			}
			continue
		}
		switch p.Kind {
		case PEQZ:
			for _, q := range atoms {
				if q == p {
					continue
				}
				switch q.Kind {
				case PEQZ:
					if v, ok := valueUnder(q.A, p.A); ok && (v.Sign() == 0) != as[q] {
						return false
					}
				case PLT:
					if beta, ok := valueUnder(q.B.Sub(q.A), p.A); ok && (beta.Sign() > 0) != as[q] {
						return false
					}
				}
			}
		case PLT:
			if eq := EQ(p.A, p.B).SinglePred(); eq != nil && as[eq] {
				return false
			}
		}
	}
	return true
}
