package absint

import (
	"fmt"
	"go/types"
	"math/big"
	"reflect"
	"sort"
	"strconv"
	"strings"

	"golang.org/x/tools/go/ssa"
)

// ReadState is a canonical rendering of the whole abstract state (the registers of every active frame and every
// object reachable from them) taken just before an entropy read.  Objects are numbered in order of discovery, so two
// states that differ only in which allocation holds what compare equal.
type ReadState struct {
	Site ssa.Instruction
	// Lines: the state with block j renamed to j; Shifted: with block j renamed to j-1.  The induction step holds
	// when Shifted of one draw equals Lines of the draw before.
	Lines, Shifted []string
}

type digester struct {
	it    *Interp
	objs  map[*Object]int
	queue []*Object
	hobjs map[*HashObj]int
	seen  map[uintptr]bool
	out   []string
	sub   *Subst
}

// shiftSubst renames entropy block j (its 32 byte symbols and its read-status symbol) to block j-by of a scratch
// name space; terms are rebuilt through their constructors, so two renderings are comparable by key.
func (it *Interp) shiftSubst(by int) *Subst {
	s := NewSubst(nil, false)
	s.Chains = true
	s.IBind = map[*IAtom]*Term{}
	s.PBind = map[*PAtom]*Term{}
	for j := 1; j <= it.nreads; j++ {
		for i := 0; i < 64; i++ {
			if a := SymByte(fmt.Sprintf("entropy#%d[%d]", j, i)).SingleAtom(); a != nil {
				s.IBind[a] = SymByte(fmt.Sprintf("draw#%d[%d]", j-by, i))
			}
		}
		if pa := SymBool(fmt.Sprintf("readok#%d", j)).SinglePred(); pa != nil {
			s.PBind[pa] = SymBool(fmt.Sprintf("drawok#%d", j-by))
		}
	}
	return s
}

func (it *Interp) stateDigest(by int) []string {
	d := &digester{it: it, objs: map[*Object]int{}, hobjs: map[*HashObj]int{}, seen: map[uintptr]bool{}, sub: it.shiftSubst(by)}
	for i, fr := range it.stack {
		var names []string
		byName := map[string]Value{}
		for k, v := range fr.regs {
			n := k.Name()
			if _, dup := byName[n]; dup {
				n = n + "@" + fmt.Sprint(k.Pos())
			}
			byName[n] = v
			names = append(names, n)
		}
		sort.Strings(names)
		for _, n := range names {
			d.out = append(d.out, fmt.Sprintf("frame %d %s: %s = %s", i, fr.fn.Name(), n, d.value(byName[n])))
		}
	}
	for i := 0; i < len(d.queue); i++ {
		o := d.queue[i]
		d.cellTree(fmt.Sprintf("o%d", d.objs[o]), o.Root)
	}
	return d.out
}

func (d *digester) cellTree(prefix string, c *Cell) {
	if c.Rep != nil {
		d.out = append(d.out, prefix+" rep "+d.sub.Term(c.Rep.T).Key())
		return
	}
	if len(c.Kids) == 0 {
		d.out = append(d.out, prefix+" = "+d.value(c.Val))
		return
	}
	// runs of identical leaves are folded
	for i, k := range c.Kids {
		d.cellTree(fmt.Sprintf("%s.%d", prefix, i), k)
	}
}

func (d *digester) cellRef(c *Cell) string {
	if c == nil {
		return "nilcell"
	}
	var path []string
	x := c
	for x.Up != nil {
		path = append([]string{strconv.Itoa(x.Idx)}, path...)
		x = x.Up
	}
	o := x.Obj
	if o == nil {
		// a detached cell tree (an aggregate value): rendered in place
		key := reflect.ValueOf(x).Pointer()
		if d.seen[key] {
			return "agg(seen)"
		}
		d.seen[key] = true
		var sub digester = *d
		sub.out = nil
		sub.cellTree("", x)
		d.queue = sub.queue
		return "agg{" + strings.Join(sub.out, ";") + "}." + strings.Join(path, ".")
	}
	n, ok := d.objs[o]
	if !ok {
		n = len(d.objs) + 1
		d.objs[o] = n
		d.queue = append(d.queue, o)
	}
	return fmt.Sprintf("&o%d.%s", n, strings.Join(path, "."))
}

func (d *digester) value(v Value) string {
	if v == nil {
		return "<nil>"
	}
	return d.refl(reflect.ValueOf(v), 0)
}

func (d *digester) refl(v reflect.Value, depth int) string {
	if depth > 12 {
		return "…"
	}
	if !v.IsValid() {
		return "<invalid>"
	}
	if v.CanInterface() {
		switch x := v.Interface().(type) {
		case *Cell:
			return d.cellRef(x)
		case *Term:
			if x == nil {
				return "nilterm"
			}
			return d.sub.Term(x).Key()
		case *Poly:
			if x == nil {
				return "nilpoly"
			}
			return d.sub.Poly(x).Key()
		case *big.Int:
			if x == nil {
				return "nilint"
			}
			return x.String()
		case *ssa.Function:
			if x == nil {
				return "nilfn"
			}
			return x.String()
		case types.Type:
			if x == nil {
				return "niltype"
			}
			return x.String()
		case *HashObj:
			if x == nil {
				return "nilhash"
			}
			n, ok := d.hobjs[x]
			if !ok {
				n = len(d.hobjs) + 1
				d.hobjs[x] = n
			}
			return fmt.Sprintf("hash%d{alg %d pending %s sums %d}", n, x.Alg, showSegs(x.Pending), x.Sums)
		case *Object:
			return "obj"
		}
	}
	switch v.Kind() {
	case reflect.Interface:
		if v.IsNil() {
			return "<nil>"
		}
		return d.refl(v.Elem(), depth+1)
	case reflect.Ptr:
		if v.IsNil() {
			return "nilptr"
		}
		return "*" + d.refl(v.Elem(), depth+1)
	case reflect.Struct:
		var parts []string
		for i := 0; i < v.NumField(); i++ {
			f := v.Type().Field(i)
			if f.PkgPath != "" { // unexported
				continue
			}
			parts = append(parts, f.Name+":"+d.refl(v.Field(i), depth+1))
		}
		return v.Type().Name() + "{" + strings.Join(parts, ",") + "}"
	case reflect.Slice, reflect.Array:
		var parts []string
		for i := 0; i < v.Len(); i++ {
			parts = append(parts, d.refl(v.Index(i), depth+1))
		}
		return "[" + strings.Join(parts, ",") + "]"
	case reflect.Map:
		return fmt.Sprintf("map(%d)", v.Len())
	case reflect.Func, reflect.Chan, reflect.UnsafePointer:
		return v.Kind().String()
	}
	return fmt.Sprint(v)
}
