package absint

import "math/big"

// Powers with a symbolic exponent.  A fixed-window exponentiation computes acc = acc^(2^w) · base^d for a digit d of
// the exponent that it obtains by a constant-time table look-up; the value is base^T for an integer *term* T.  Such a
// value is the single variable FExp(base, T).  The Fiat leaves Mul and Square add and double exponents when both
// operands are powers of one base (a constant power base^j, a formal power, or a look-up Σ_j [d = j]·base^j), so the
// accumulator stays one monomial.  Everything else treats FExp as an opaque variable.

// ExpVar is base^t.
func ExpVar(f *Field, base *Poly, t *Term) *Poly {
	if k, ok := t.IsConst(); ok && k.Sign() >= 0 {
		return base.Pow(k)
	}
	return PolyVar(A.internF("fexp:"+f.Name+":"+base.Key()+":"+t.Key(), func() *FVar { return &FVar{Kind: FExp, F: f, Q: base, T: t} }))
}

// monoExp reads a monomial with coefficient 1 (ignoring predicate variables, which are returned) as base^T.
func monoExp(f *Field, m *pmon, base **Poly) (t *Term, preds []*FVar, ok bool) {
	t = TInt(0)
	for _, x := range m.vars {
		switch x.v.Kind {
		case FPV:
			preds = append(preds, x.v)
		case FExp:
			if *base == nil {
				*base = x.v.Q
			} else if !(*base).Equal(x.v.Q) {
				return nil, nil, false
			}
			t = t.Add(x.v.T.Scale(x.e))
		case FSym:
			b := PolyVar(x.v)
			if *base == nil {
				*base = b
			} else if !(*base).Equal(b) {
				return nil, nil, false
			}
			t = t.Add(TConst(x.e))
		default:
			return nil, nil, false
		}
	}
	return t, preds, true
}

// asExp reads p as base^T: the constant 1, a power of the base, a formal power, or a complete look-up among powers
// written as  base^E0 + Σ_p [p]·(base^Ep − base^E0)  with mutually exclusive tests p (CompleteFamilies' form).
func asExp(p *Poly, base **Poly) (*Term, bool) {
	f := p.F
	if len(p.mons) == 0 {
		return nil, false
	}
	var m0 *pmon
	type arm struct{ plus, minus *Term }
	arms := map[*FVar]*arm{}
	var order []*FVar
	for _, m := range p.sorted() {
		t, preds, ok := monoExp(f, m, base)
		if !ok || len(preds) > 1 {
			return nil, false
		}
		one := m.c.Cmp(bigOne) == 0
		minusOne := new(big.Int).Add(m.c, bigOne).Cmp(f.M) == 0 || m.c.Cmp(big.NewInt(-1)) == 0
		if len(preds) == 0 {
			if !one || m0 != nil {
				return nil, false
			}
			m0 = m
			continue
		}
		a := arms[preds[0]]
		if a == nil {
			a = &arm{}
			arms[preds[0]] = a
			order = append(order, preds[0])
		}
		switch {
		case one && a.plus == nil:
			a.plus = t
		case minusOne && a.minus == nil:
			a.minus = t
		default:
			return nil, false
		}
	}
	if m0 == nil {
		return nil, false
	}
	e0, _, _ := monoExp(f, m0, base)
	if len(arms) == 0 {
		return e0, true
	}
	// the tests must be equality tests of one term with different constants (at most one holds)
	tt := TInt(0)
	for _, pvr := range order {
		tt = tt.Add(TPred(pvr.P))
	}
	fams := eqFamilies(tt)
	if len(fams) != 1 || len(fams[0].atoms) != len(order) {
		return nil, false
	}
	out := e0
	for _, pvr := range order {
		a := arms[pvr]
		if a.plus == nil || a.minus == nil || !a.minus.Equal(e0) {
			return nil, false
		}
		out = out.Add(TPred(pvr.P).Mul(a.plus.Sub(e0)))
	}
	return out, true
}

// expMul returns a·b as one formal power when both are powers of one base and the exponent is symbolic; nil otherwise.
func expMul(a, b *Poly) *Poly {
	var base *Poly
	ta, ok := asExp(a, &base)
	if !ok {
		return nil
	}
	tb, ok := asExp(b, &base)
	if !ok || base == nil {
		return nil
	}
	t := ta.Add(tb)
	if _, isC := t.IsConst(); isC {
		return nil // ordinary powers: the polynomial domain handles them
	}
	return ExpVar(a.F, base, t)
}

// ExpOf reads p as a single formal power base^T (coefficient 1).
func ExpOf(p *Poly) (base *Poly, t *Term, ok bool) {
	if len(p.mons) != 1 {
		return nil, nil, false
	}
	for _, m := range p.mons {
		if m.c.Cmp(bigOne) != 0 || len(m.vars) != 1 || m.vars[0].v.Kind != FExp || m.vars[0].e.Cmp(bigOne) != 0 {
			return nil, nil, false
		}
		return m.vars[0].v.Q, m.vars[0].v.T, true
	}
	return nil, nil, false
}
