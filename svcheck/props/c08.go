package props

import (
	"fmt"
	"math/big"
	"os"
	"strings"

	"golang.org/x/tools/go/ssa"

	"svcheck/absint"
	"svcheck/load"
	"svcheck/report"
)

const sha256ID = 5

func constSeg(bs ...int64) absint.Seg {
	var ts []*absint.Term
	for _, b := range bs {
		ts = append(ts, absint.TInt(b))
	}
	return absint.Seg{Bytes: ts}
}

func strSeg(s string) absint.Seg {
	var ts []*absint.Term
	for i := 0; i < len(s); i++ {
		ts = append(ts, absint.TInt(int64(s[i])))
	}
	return absint.Seg{Bytes: ts}
}

func digestBytes(d *absint.Term) []*absint.Term {
	out := make([]*absint.Term, 32)
	for i := range out {
		out[i] = absint.ByteOf(d, 31-i)
	}
	return out
}

// specExpandXMD is expand_message_xmd(SHA-256) of RFC 9380 5.3.1 / 5.3.3 for
// the path's DST length class; it returns the first n uniform bytes.
func specExpandXMD(it *absint.Interp, n int, oversize bool) []*absint.Term {
	msg := absint.SymBytes("msg").Segs[0]
	dst := absint.SymBytes("dst").Segs[0]
	var dstPrime []absint.Seg
	if oversize {
		d := absint.HashDigest(sha256ID, []absint.Seg{strSeg("H2C-OVERSIZE-DST-"), dst})
		dstPrime = []absint.Seg{{Bytes: digestBytes(d)}, constSeg(32)}
	} else {
		dstPrime = []absint.Seg{dst, {Bytes: []*absint.Term{it.ApplyTerm(dst.Len)}}}
	}
	zpad := make([]int64, 64)
	cat := func(parts ...[]absint.Seg) []absint.Seg {
		var out []absint.Seg
		for _, p := range parts {
			out = append(out, p...)
		}
		return out
	}
	msgSegs := []absint.Seg{msg}
	if k, isC := it.ApplyTerm(msg.Len).IsConst(); isC && k.Sign() == 0 {
		msgSegs = nil // a path on which the message is empty: nothing is absorbed for it
	}
	b0 := absint.HashDigest(sha256ID, cat([]absint.Seg{constSeg(zpad...)}, msgSegs, []absint.Seg{constSeg(int64(n>>8), int64(n&0xff)), constSeg(0)}, dstPrime))
	b0b := digestBytes(b0)
	ell := (n + 31) / 32
	var uniform []*absint.Term
	prev := absint.HashDigest(sha256ID, cat([]absint.Seg{{Bytes: b0b}, constSeg(1)}, dstPrime))
	uniform = append(uniform, digestBytes(prev)...)
	for i := 2; i <= ell; i++ {
		pb := digestBytes(prev)
		x := make([]*absint.Term, 32)
		for k := range x {
			x[k] = absint.WXor(pb[k], b0b[k], 8)
		}
		prev = absint.HashDigest(sha256ID, cat([]absint.Seg{{Bytes: x}, constSeg(int64(i))}, dstPrime))
		uniform = append(uniform, digestBytes(prev)...)
	}
	return uniform[:n]
}

func os2ipTerms(bs []*absint.Term) *absint.Term {
	t := absint.TInt(0)
	n := len(bs)
	for k, b := range bs {
		t = t.Add(b.Scale(new(big.Int).Lsh(big.NewInt(1), uint(8*(n-1-k)))))
	}
	return t.Recompose()
}

// dstClass classifies a path by the DST length facts it assumes.
func dstClass(it *absint.Interp) (class string, oversize bool) {
	l := it.ApplyTerm(absint.SymInt("len(dst)", big.NewInt(0), big.NewInt(1<<62)))
	lo, hi := l.Bounds()
	switch {
	case hi.Sign() == 0:
		return "empty DST", false
	case lo.Cmp(big.NewInt(255)) > 0:
		return "DST longer than 255 bytes", true
	case lo.Sign() > 0 && hi.Cmp(big.NewInt(255)) <= 0:
		return fmt.Sprintf("DST of %s..%s bytes", lo, hi), false
	}
	return fmt.Sprintf("DST length in [%s,%s] (not separated at 0/255)", lo, hi), false
}

// hashEntry runs one of the three hashing entry points over all DST length classes.
func hashEntry(p *load.Prog, r *report.Report, prop string, fn *ssa.Function, cfg absint.Config, reset func(), onAbort func(res *absint.PathResult, construct string) bool, visit func(res *absint.PathResult, class string, oversize bool)) {
	pos := p.Pos(fn.Pos())
	classes := map[string]int{}
	poolBad := 0
	defer func() {
		if poolBad == 0 {
			r.OK(prop+".poolstate", fn.Name(), "no path (returning or panicking) puts a nil pointer into a shared pool")
		}
	}()
	explore(p, cfg, fn, func(it *absint.Interp) []absint.Value {
		if reset != nil {
			reset()
		}
		return []absint.Value{absint.SymBytes("msg"), absint.SymBytes("dst")}
	}, func(res *absint.PathResult) {
		class, oversize := dstClass(res.It)
		classes[class]++
		construct := fn.Name() + " (" + class + ")"
		for _, e := range eventsOf(res, "pool-nil") {
			poolBad++
			r.Fail(prop+".poolstate", construct, p.Pos(e.Pos), "this call leaves shared state behind that makes a later call fail: "+e.Msg)
		}
		if class == "empty DST" {
			r.Check(res.Exit == "panic", prop+".emptydst", construct, pos, "panics before any hashing", "an empty DST does not panic")
			if res.Exit == "panic" {
				for _, h := range res.It.Hashes[res.It.InitHashes:] {
					if h.Sums > 0 || len(h.Pending) > 0 {
						r.Fail(prop+".emptydst", construct+" order", pos, "hashing starts before the empty-DST check")
					}
				}
			}
			return
		}
		if res.Exit == "panic" {
			r.Fail(prop+".total", construct, p.Pos(res.PanicAt), "panics for a non-empty DST: "+absint.Show(res.Panic))
			return
		}
		if res.Exit != "return" {
			if onAbort != nil && onAbort(res, construct) {
				return
			}
			r.Undecided(prop+".expander", construct, pos, res.Abort)
			return
		}
		for _, e := range eventsOf(res, "bounds") {
			r.Fail(prop+".total", construct+" (bounds)", p.Pos(e.Pos), e.Msg)
		}
		if reportEvents(p, r, prop+".expander", construct, res) {
			return
		}
		visit(res, class, oversize)
	})
	var cs []string
	for c := range classes {
		cs = append(cs, c)
	}
	has := func(sub string) bool {
		for _, c := range cs {
			if strings.Contains(c, sub) {
				return true
			}
		}
		return false
	}
	r.Check(has("empty") && has("longer than 255") && len(cs) >= 3, prop+".classes", fn.Name()+" DST length classes", pos, fmt.Sprintf("classes: %s", strings.Join(cs, "; ")), fmt.Sprintf("the code does not separate DST lengths at 0 and at 255 as RFC 9380 requires: %s", strings.Join(cs, "; ")))
}

// C09: HashToScalar is RFC 9380 hash_to_field over the scalar field.
func C09(p *load.Prog, r *report.Report) {
	r.Explanation = "E1 byte-string term domain: HashToScalar is interpreted with symbolic msg and DST of symbolic length; the hash object is abstract (Reset/Write/Sum build the term H(segments)), the DST length tests are enumerated (empty -> panic before hashing; <= 255; > 255 -> oversize rule). On each class the 48 expander bytes must equal the RFC 9380 5.3.1 term (b0 = H(Z_pad ‖ msg ‖ I2OSP(48,2) ‖ 0 ‖ DST'), b1 = H(b0 ‖ 1 ‖ DST'), b2 = H((b0 xor b1) ‖ 2 ‖ DST'), DST' = DST ‖ I2OSP(len,1), oversize DST = H(\"H2C-OVERSIZE-DST-\" ‖ DST)), and the scalar must be OS2IP(those 48 bytes) mod n: the wide reduction a + b·2^192 with the code's Montgomery constants is compared as a linear form over the 48 byte atoms. NOT decided: SHA-256 itself (a trusted leaf) and the Fiat word-level arithmetic."
	r.NotDecided = []string{"the SHA-256 implementation (crypto/sha256)", "Fiat-generated word-level arithmetic"}
	r.Trusted = []string{"crypto/sha256 computes SHA-256; hash.Hash contract", "Fiat leaf specifications", "RFC 9380 5.2, 5.3.1, 5.3.3 as the oracle", "go/ssa"}
	m, err := discoverModel(p)
	if err != nil {
		r.Undecided("C09.model", "layout", "", err.Error())
		return
	}
	m.stateGuard(r, "C09", false, true)
	fn := p.Root.Func("HashToScalar")
	if fn == nil {
		r.Undecided("C09.anchor", "HashToScalar", "", "function not found")
		return
	}
	hashFrame(p, r, "C09", "HashToScalar")
	pos := p.Pos(fn.Pos())
	hashEntry(p, r, "C09", fn, absint.Config{}, nil, nil, func(res *absint.PathResult, class string, oversize bool) {
		construct := "HashToScalar (" + class + ")"
		pr, ok := res.Ret.(absint.Ptr)
		if !ok {
			r.Undecided("C09.value", construct, pos, "result is "+absint.Show(res.Ret))
			return
		}
		got, why := m.scalarVal(res.It, pr.C)
		if why != "" {
			r.Undecided("C09.value", construct, pos, why)
			return
		}
		want := absint.EmbTerm(FN, os2ipTerms(specExpandXMD(res.It, 48, oversize)))
		if os.Getenv("SVDEBUG") != "" && !got.EqualMod(want) {
			fmt.Fprintf(os.Stderr, "CLASS %s\nGOT  %s\nWANT %s\n", class, got.ExpandEmb().String(), want.ExpandEmb().String())
		}
		r.Check(got.EqualMod(want), "C09.value", construct, pos, "scalar = OS2IP(expand_message_xmd(SHA-256, msg, DST, 48)) mod n", "the scalar is not OS2IP(expand_message_xmd(msg, DST, 48)) mod n (expander term or wide reduction differs from RFC 9380)")
		r.Sample(map[string]interface{}{"entry": "HashToScalar", "class": class, "hash_invocations": len(res.It.Hashes), "value_terms": got.ExpandEmb().NumTerms()})
	})
}

// C08: HashToGroup / EncodeToGroup conform to RFC 9380.
func C08(p *load.Prog, r *report.Report) {
	r.Explanation = "E1 byte-string term domain + group-level composition: HashToGroup and EncodeToGroup are interpreted with symbolic msg/DST. (1) Expander: on each DST length class the 96 (48) uniform bytes must be the RFC 9380 5.3.1 term (as in C09); empty DST panics before hashing. (2) hash_to_field: every field element handed to the map must be OS2IP(48-byte block) mod p. (3) Composition: the map functions are summarised at the group level (SSWU(u) = a formal point S(u) of E', the isogeny I(·), both decided by C11 and re-run here; complete additions are found by their polynomial summaries as in C01/C02): the result must be exactly I(S(u0)) + I(S(u1)) for the RO suite, with the sum computed by a complete addition (an addition with an unguarded inverse of x2-x1 is not total: it fails when the two mapped points share an x coordinate), and I(S(u0)) for the NU suite. (4) Determinism: the result mentions only msg, DST. NOT decided: SHA-256 and the Fiat word-level arithmetic."
	r.NotDecided = []string{"the SHA-256 implementation (crypto/sha256)", "Fiat-generated word-level arithmetic"}
	r.Trusted = []string{"crypto/sha256 computes SHA-256; hash.Hash contract", "Fiat leaf specifications", "RFC 9380 as the oracle (3, 5.2, 5.3.1, 5.3.3, 6.6.2, 8.7, E.1)", "C02/C11 obligations (re-run)", "go/ssa"}
	m, err := discoverModel(p)
	if err != nil {
		r.Undecided("C08.model", "layout", "", err.Error())
		return
	}
	m.stateGuard(r, "C08", true, false)
	inherit(p, r, "C08", "C11", C11)
	hashFrame(p, r, "C08", "HashToGroup", "EncodeToGroup")
	sswu := p.Root.Func("SSWU")
	iso := p.Root.Func("IsogenySecp256k13iso")
	if sswu == nil || iso == nil {
		r.Undecided("C08.anchor", "SSWU / IsogenySecp256k13iso", "", "functions not found")
		return
	}
	for _, suite := range []struct {
		name  string
		count int
	}{{"HashToGroup", 2}, {"EncodeToGroup", 1}} {
		fn := p.Root.Func(suite.name)
		if fn == nil {
			r.Undecided("C08.anchor", suite.name, "", "function not found")
			continue
		}
		pos := p.Pos(fn.Pos())
		// composition run
		d := newGroupDomain(m)
		sums, desc := groupSummaries(p, m, d, fn)
		var mapArgs []*absint.Poly
		var isoProblems []string
		sums[sswu] = func(it *absint.Interp, args []absint.Value) absint.Value {
			pa, ok := args[0].(absint.Ptr)
			if !ok {
				it.Abort("SSWU called with a non-pointer")
			}
			u, why := it.ReadMont(FP, m.limbCell(pa.C))
			if u == nil {
				it.Abort("SSWU argument: " + why)
			}
			k := len(mapArgs)
			mapArgs = append(mapArgs, u)
			c := d.coordsOf(gelt{fmt.Sprintf("S#%d", k): absint.TInt(1)})
			o := m.newElemLocal(it, fmt.Sprintf("sswu#%d", k), c[0], c[1], pInt(FP, 1))
			return ptr(o)
		}
		sums[iso] = func(it *absint.Interp, args []absint.Value) absint.Value {
			pa, ok := args[0].(absint.Ptr)
			if !ok {
				it.Abort("isogeny called with a non-pointer")
			}
			x, y, _, why := m.coords(it, pa.C)
			if why != "" {
				it.Abort("isogeny argument: " + why)
			}
			// the argument must be one mapped point S#k (its z is ignored by the isogeny, C11.iso-z)
			g, w := d.decodeXY(x, y)
			name := ""
			if w == "" && len(g) == 1 {
				for k, wt := range g {
					if c, isC := wt.IsConst(); isC && c.Cmp(big.NewInt(1)) == 0 && strings.HasPrefix(k, "S#") {
						name = k
					}
				}
			}
			if name == "" {
				msg := "the argument of the isogeny is not a mapped point SSWU(u) but the result of coordinate arithmetic on the isogenous curve"
				if strings.Contains(x.String(), "^-1") {
					msg += ": an addition that inverts a coordinate difference without a zero guard (x = " + truncate(x.String(), 160) + "); it is undefined when the two mapped points share an x coordinate (e.g. u1 = ±u0), where the complete formulas of C02 are required"
				}
				isoProblems = append(isoProblems, msg)
				it.Abort("isogeny applied to a non-mapped point")
			}
			c := d.coordsOf(gelt{"I(" + name + ")": absint.TInt(1)})
			it.StoreMont(FP, m.limbCell(pa.C.Kids[m.ix]), c[0])
			it.StoreMont(FP, m.limbCell(pa.C.Kids[m.iy]), c[1])
			it.StoreMont(FP, m.limbCell(pa.C.Kids[m.iz]), c[2])
			return args[0]
		}
		hashEntry(p, r, "C08", fn, absint.Config{Summaries: sums}, func() { mapArgs = nil }, func(res *absint.PathResult, construct string) bool {
			if len(isoProblems) > 0 {
				r.Fail("C08.composition", construct, pos, isoProblems[len(isoProblems)-1])
				return true
			}
			return false
		}, func(res *absint.PathResult, class string, oversize bool) {
			construct := suite.name + " (" + class + ")"
			// (1)+(2): the field elements given to the map
			uniform := specExpandXMD(res.It, 48*suite.count, oversize)
			good := len(mapArgs) == suite.count
			for k := 0; good && k < suite.count; k++ {
				want := absint.EmbTerm(FP, os2ipTerms(uniform[48*k:48*k+48]))
				if !mapArgs[k].EqualMod(want) {
					good = false
				}
			}
			r.Check(good, "C08.hash_to_field", construct, pos, fmt.Sprintf("%d field element(s) = OS2IP(48-byte block of expand_message_xmd(msg, DST, %d)) mod p", suite.count, 48*suite.count), "the field elements handed to the map are not hash_to_field(msg, count) of RFC 9380 (expander term or wide reduction differs)")
			// (3) composition
			pr, ok := res.Ret.(absint.Ptr)
			if !ok {
				r.Undecided("C08.composition", construct, pos, "result is "+absint.Show(res.Ret))
				return
			}
			x, y, z, why := m.coords(res.It, pr.C)
			if why != "" {
				r.Undecided("C08.composition", construct, pos, why)
				return
			}
			g, w := d.decode(x, y, z)
			if w != "" {
				r.Fail("C08.composition", construct, pos, "the result is not a group-level combination of mapped points: "+w)
				return
			}
			okc := len(g) == suite.count
			for k := 0; k < suite.count; k++ {
				wt := g[fmt.Sprintf("I(S#%d)", k)]
				if wt == nil {
					okc = false
					continue
				}
				if c, isC := wt.IsConst(); !isC || c.Cmp(big.NewInt(1)) != 0 {
					okc = false
				}
			}
			want := "I(S(u0))"
			if suite.count == 2 {
				want = "I(S(u0)) + I(S(u1)), summed by a complete addition (" + strings.Join(desc, " | ") + ")"
			}
			r.Check(okc, "C08.composition", construct, pos, "result = "+want, "the result is "+g.String()+", expected "+want)
			r.Sample(map[string]interface{}{"entry": suite.name, "class": class, "result": g.String()})
		})
	}
}

func truncate(s string, n int) string {
	if len(s) <= n {
		return s
	}
	return s[:n] + "…"
}
