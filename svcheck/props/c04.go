package props

import (
	"fmt"
	"math/big"

	"svcheck/absint"
	"svcheck/load"
	"svcheck/report"
)

// affineSpec: (x·inv0(z), ite(z = 0, 1, y·inv0(z))) - the normal form of the point.
func affineSpec(P pt) (xa, ya *absint.Poly) {
	zi := P.Z.Inv()
	xa = P.X.Mul(zi)
	ya = cmov(P.Y.Mul(zi), pInt(FP, 1), absint.ISZ(P.Z))
	// x·inv0(z) is already 0 when z = 0
	return
}

type encOut struct {
	bytes []*absint.Term
	ln    *absint.Term
	guard []*absint.PathResult
}

// runEncoder interprets an encoder method on the element (X:Y:Z) and returns, per path, the bytes and length.
func runEncoder(p *load.Prog, r *report.Report, m *elemModel, meth string, P pt, visit func(res *absint.PathResult, bs []*absint.Term, ln *absint.Term, hex bool)) {
	fn := p.Method(p.Root, "Element", meth)
	if fn == nil {
		r.Undecided("C04.anchor", meth, "", "method not found")
		return
	}
	explore(p, absint.Config{}, fn, func(it *absint.Interp) []absint.Value {
		return []absint.Value{ptr(m.newElem(it, "P", P.X, P.Y, P.Z))}
	}, func(res *absint.PathResult) {
		name := meth
		if res.Exit != "return" {
			if res.Exit == "panic" {
				r.Fail("C04.nopanic", name, p.Pos(res.PanicAt), "the encoder can panic: "+absint.Show(res.Panic)+" "+guardString(res))
			} else {
				r.Undecided("C04.encode", name, p.Pos(fn.Pos()), res.Abort)
			}
			return
		}
		for _, e := range eventsOf(res, "bounds") {
			r.Fail("C04.nopanic", name+" (bounds)", p.Pos(e.Pos), e.Msg)
		}
		if reportEvents(p, r, "C04.encode", name, res) {
			return
		}
		ret := res.Ret
		if tup, ok := ret.(absint.Tuple); ok && len(tup) == 2 {
			if _, isNil := tup[1].(absint.Nil); !isNil {
				r.Fail("C04.encode", name+" error", p.Pos(fn.Pos()), "non-nil error")
			}
			ret = tup[0]
		}
		if hs, isHex := ret.(absint.HexStr); isHex {
			visit(res, hs.Bytes, hs.Len, true)
			return
		}
		bs, ln, ok := res.It.SliceContent(ret)
		if !ok {
			r.Undecided("C04.encode", name, p.Pos(fn.Pos()), "result is "+absint.Show(ret))
			return
		}
		visit(res, bs, ln, false)
		// the element itself must not change as a group element: coordinates unchanged
		x, y, z, why := m.coords(res.It, res.It.InputRoots()[0])
		if why != "" || !x.Equal(P.X) || !y.Equal(P.Y) || !z.Equal(P.Z) {
			r.Fail("C04.pure", name, p.Pos(fn.Pos()), "encoding modifies the element")
		}
	})
}

// relevant compares got and want where the position is inside the encoding: multiplied by the 0/1 term rel.
func sameUnder(rel, got, want *absint.Term) bool {
	a, b := rel.Mul(got), rel.Mul(want)
	if a == nil || b == nil {
		return got.Equal(want)
	}
	return a.Equal(b)
}

// C04: element encodings are canonical SEC1 and round-trip through Decode.
func C04(p *load.Prog, r *report.Report) {
	r.Explanation = "E1 polynomial + byte-layout analysis of the encoders on a symbolic projective point (X:Y:Z): (1) the affine normalisation must be (X·inv0(Z), ite(Z=0, 1, Y·inv0(Z))); (2) layout: Encode = [ite(Z=0, 00, 02 + sgn0(y_aff))] followed by BE32(Canon(x_aff)), of length 1 iff Z = 0; EncodeUncompressed = 04, BE32(Canon x_aff), BE32(Canon y_aff) for Z != 0; XCoordinate/Hex/MarshalBinary are views of Encode; (3) scaling invariance: encoding (λX:λY:λZ) under the assumption λ != 0 yields the same bytes (normal form with multiplicative inv0 and x^(p-1) = [x != 0]); (4) encoder/decoder agreement: every encoder's output for the identity, a constant byte string, is fed to the Decode analysis by constant folding and must be accepted as the identity; for other points round-tripping follows from C03's success state (decoder picks the root whose parity is the prefix bit) and the parity/prefix polarity checked here."
	r.Trusted = []string{"Fiat leaf specifications", "C03 (decoder table)", "a curve point is determined by x and the parity of y", "crypto/subtle, encoding/binary contracts", "go/ssa"}
	m, err := discoverModel(p)
	if err != nil {
		r.Undecided("C04.model", "layout", "", err.Error())
		return
	}
	m.stateGuard(r, "C04", true, false)
	// the round trip needs the decoder to accept every canonical encoding and to reconstruct the encoded point; what
	// it does with other inputs is C03's business only
	inherit(p, r, "C04", "C03", C03, "C03.reject", "C03.state", "C03.model", "C03.anchor", "C03.decode")
	P := symPt("")
	xa, ya := affineSpec(P)
	cx, cy := absint.CanonOf(FP, xa), absint.CanonOf(FP, ya)
	isID := absint.ISZ(P.Z)
	notID := absint.PNot(isID)
	encPos := ""
	if fn := p.Method(p.Root, "Element", "Encode"); fn != nil {
		encPos = p.Pos(fn.Pos())
	}
	// compressed form and its views
	checkCompressed := func(meth string, skip int) func(res *absint.PathResult, bs []*absint.Term, ln *absint.Term, hex bool) {
		return func(res *absint.PathResult, bs []*absint.Term, ln *absint.Term, hex bool) {
			it := res.It
			idHere := it.ApplyTerm(isID)
			nid := absint.PNot(idHere)
			wantLen := absint.Ite(idHere, absint.TInt(int64(1-skip)), absint.TInt(int64(33-skip)))
			good := ln.Equal(wantLen)
			detail := ""
			if !good {
				detail = fmt.Sprintf("length is %s, expected %s", ln, wantLen)
			}
			nidConst, nidIsConst := nid.IsConst()
			for k := skip; good && k < 33; k++ {
				i := k - skip
				if k >= 1 && nidIsConst && nidConst.Sign() == 0 {
					break // a path on which the point is the identity: the encoding ends after the first byte
				}
				if i >= len(bs) {
					good, detail = false, "result too short"
					break
				}
				var want, rel *absint.Term
				if k == 0 {
					want = absint.Ite(idHere, absint.TInt(0), absint.TInt(2).Add(absint.BIT(cy, 0)))
					rel = absint.TInt(1)
				} else {
					want = absint.ByteOf(cx, 32-k)
					rel = nid
				}
				if !sameUnder(rel, it.DeepApplyTerm(bs[i]), it.DeepApplyTerm(want)) {
					good, detail = false, fmt.Sprintf("byte %d is %s, expected %s", k, bs[i], want)
				}
			}
			construct := meth
			if len(res.Guards) > 0 {
				construct = meth + " path " + shortGuards(res)
			}
			r.Check(good, "C04.layout", construct, encPos, "[ite(Z=0, 00, 02|sgn0(y_aff))] ‖ BE32(Canon x_aff); 1 byte iff identity", "not the SEC1 compressed encoding of the normal form: "+detail)
			if good && len(bs) > 0 {
				r.Sample(map[string]interface{}{"encoder": meth, "length": ln.String(), "byte0": bs[0].String()})
			}
		}
	}
	runEncoder(p, r, m, "Encode", P, checkCompressed("Encode", 0))
	runEncoder(p, r, m, "MarshalBinary", P, checkCompressed("MarshalBinary", 0))
	runEncoder(p, r, m, "Hex", P, checkCompressed("Hex", 0))
	runEncoder(p, r, m, "XCoordinate", P, checkCompressed("XCoordinate", 1))
	// uncompressed form: for non-identity points 04 ‖ x ‖ y; the identity's output is decided by the agreement rule below
	nUnc := 0
	runEncoder(p, r, m, "EncodeUncompressed", P, func(res *absint.PathResult, bs []*absint.Term, ln *absint.Term, hex bool) {
		it := res.It
		nUnc++
		idHere, decided := known(it, isID)
		if decided && idHere {
			return // identity path: handled by the agreement rule
		}
		// compare under Z != 0
		good := true
		detail := ""
		l65 := sameUnder(it.ApplyTerm(notID), ln, absint.TInt(65))
		if !l65 {
			good, detail = false, fmt.Sprintf("length is %s, expected 65 for a non-identity point", ln)
		}
		for k := 0; good && k < 65; k++ {
			if k >= len(bs) {
				good, detail = false, "result too short"
				break
			}
			var want *absint.Term
			switch {
			case k == 0:
				want = absint.TInt(4)
			case k <= 32:
				want = absint.ByteOf(cx, 32-k)
			default:
				want = absint.ByteOf(cy, 64-k)
			}
			if !sameUnder(it.ApplyTerm(notID), it.DeepApplyTerm(bs[k]), it.DeepApplyTerm(want)) {
				good, detail = false, fmt.Sprintf("byte %d is %s, expected %s", k, bs[k], want)
			}
		}
		construct := "EncodeUncompressed (Z != 0)"
		r.Check(good, "C04.layout", construct, encPos, "04 ‖ BE32(Canon x_aff) ‖ BE32(Canon y_aff)", "not the SEC1 uncompressed encoding of the normal form: "+detail)
	})
	// scaling invariance: the layout obligations above hold for every (X:Y:Z), so the bytes are a function of the
	// normal form (x_aff, y_aff, [Z = 0]) alone; it remains to show that the normal form is invariant under
	// (X:Y:Z) -> (λX:λY:λZ), λ != 0.  This is decided on the reference polynomials by substituting [λ = 0] := 0.
	lam := absint.FieldSym(FP, "λ")
	lamZero := absint.SubstAtomOf(absint.ISZ(lam))
	S := pt{P.X.Mul(lam), P.Y.Mul(lam), P.Z.Mul(lam)}
	sx, sy := affineSpec(S)
	if lamZero == nil {
		r.Undecided("C04.scaling", "normal form", encPos, "internal: [λ = 0] is not an atom")
	} else {
		sub := absint.NewSubst(lamZero, false)
		okx := sub.Poly(sx).Equal(xa)
		oky := sub.Poly(sy).Equal(ya)
		okz := sub.Term(absint.ISZ(S.Z)).Equal(isID)
		r.Check(okx && oky && okz, "C04.scaling", "normal form of (λX:λY:λZ), λ != 0", encPos, "x_aff, y_aff and [Z = 0] are invariant under projective scaling (inv0 is multiplicative, x^(p-1) = [x != 0]); with the layout obligations, which hold for every (X:Y:Z), the bytes depend on the group element only", fmt.Sprintf("the normal form is not scaling invariant: x %v y %v z %v", okx, oky, okz))
	}
	// identity agreement: the constant identity output of each encoder must decode to the identity
	dec := p.Method(p.Root, "Element", "Decode")
	for _, meth := range []string{"Encode", "EncodeUncompressed", "MarshalBinary"} {
		fn := p.Method(p.Root, "Element", meth)
		if fn == nil || dec == nil {
			continue
		}
		// run the encoder on (0 : Y : 0) - every representation of the identity
		var idBytes []int64
		okConst := false
		Pid := pt{pInt(FP, 0), absint.FieldSym(FP, "Yid"), pInt(FP, 0)}
		runEncoder(p, r, m, meth, Pid, func(res *absint.PathResult, bs []*absint.Term, ln *absint.Term, hex bool) {
			l, isC := ln.IsConst()
			if !isC {
				return
			}
			idBytes = nil
			okConst = true
			for k := 0; k < int(l.Int64()) && k < len(bs); k++ {
				c, isC := bs[k].IsConst()
				if !isC {
					okConst = false
					return
				}
				idBytes = append(idBytes, c.Int64())
			}
		})
		construct := meth + "(identity) -> Decode"
		if !okConst {
			r.Fail("C04.identity", construct, p.Pos(fn.Pos()), "the encoding of the identity (0:Y:0) is not a constant byte string: it depends on the representation")
			continue
		}
		accepted, isIdentity := false, false
		explore(p, absint.Config{}, dec, func(it *absint.Interp) []absint.Value {
			recv := m.newElem(it, "recv", absint.FieldSym(FP, "X0"), absint.FieldSym(FP, "Y0"), absint.FieldSym(FP, "Z0"))
			return []absint.Value{ptr(recv), it.ConstBytes(idBytes)}
		}, func(res *absint.PathResult) {
			if res.Exit != "return" {
				return
			}
			if _, isNil := res.Ret.(absint.Nil); isNil {
				accepted = true
				x, y, z, why := m.coords(res.It, res.It.InputRoots()[0])
				if why == "" && x.IsZero() && z.IsZero() {
					if c, ok := y.IsConst(); ok && c.Sign() != 0 {
						isIdentity = true
					}
				}
			}
		})
		hexs := ""
		for i, b := range idBytes {
			if i >= 4 {
				hexs += "…"
				break
			}
			hexs += fmt.Sprintf("%02x", b)
		}
		r.Check(accepted && isIdentity, "C04.identity", construct, p.Pos(fn.Pos()),
			fmt.Sprintf("identity encodes as %d byte(s) (%s), which Decode accepts as the identity", len(idBytes), hexs),
			fmt.Sprintf("the identity encodes as the %d-byte string %s, which Decode rejects (accepted=%v): Decode(%s(identity)) does not give back the identity", len(idBytes), hexs, accepted, meth))
	}
	_ = big.NewInt
	_ = nUnc
}
