package props

import (
	"go/types"
	"strings"

	"golang.org/x/tools/go/ssa"

	"svcheck/absint"
	"svcheck/load"
)

// Anchors in the two internal packages are looked up by name first. The internal packages are not API: a
// maintainer may rename a helper without changing behaviour. When a name is gone, the anchor is the unique
// function of the same receiver type with the anchor's signature that does not carry the name of another anchor;
// the obligations are then checked on it exactly as on the original (a function that is not the renamed anchor
// fails them). No candidate or several: the anchor is reported missing as before.

// anchorSigs: signature (parameter types -> result types, package qualifiers dropped) of each internal anchor.
var anchorSigs = map[string]map[string]string{
	"field.Element": {
		"Add": "(*Element,*Element)->(*Element)", "Subtract": "(*Element,*Element)->(*Element)", "Multiply": "(*Element,*Element)->(*Element)",
		"Square": "(*Element)->(*Element)", "Negate": "(*Element)->(*Element)", "Set": "(*Element)->(*Element)",
		"One": "()->(*Element)", "Equals": "(*Element)->(uint64)", "IsZero": "()->(uint64)", "Sgn0": "()->(uint64)",
		"CMove": "(uint64,*Element,*Element)->(*Element)", "SqrtRatio": "(*Element,*Element)->(*Element,uint64)",
		"Invert": "(Element)->(*Element)", "FromBytesWithReduce": "([32]byte)->(*Element,uint64)|(*[32]byte)->(*Element,uint64)|([]byte)->(*Element,uint64)|([32]byte)->(uint64)|(*[32]byte)->(uint64)|([]byte)->(uint64)",
		"Bytes":              "()->([]byte)|()->([32]byte)",
		"HashToFieldElement": "([48]byte)->(*Element)|(*[48]byte)->(*Element)|([]byte)->(*Element)|([48]byte)->()|(*[48]byte)->()",
	},
	"field.":  {"Reduce": "(*NonMontgomeryDomainFieldElement)->(uint64)"},
	"scalar.": {"Invert": "(*MontgomeryDomainFieldElement,MontgomeryDomainFieldElement)->()"},
}

func sigKey(fn *ssa.Function) string {
	q := func(*types.Package) string { return "" }
	var ps, rs []string
	sig := fn.Signature
	for i := 0; i < sig.Params().Len(); i++ {
		ps = append(ps, types.TypeString(sig.Params().At(i).Type(), q))
	}
	for i := 0; i < sig.Results().Len(); i++ {
		rs = append(rs, types.TypeString(sig.Results().At(i).Type(), q))
	}
	return "(" + strings.Join(ps, ",") + ")->(" + strings.Join(rs, ",") + ")"
}

// anchorMethod resolves a method anchor of an internal package.
func anchorMethod(p *load.Prog, pkg *ssa.Package, typ, name string) *ssa.Function {
	if fn := p.Method(pkg, typ, name); fn != nil {
		return fn
	}
	table := anchorSigs[pkg.Pkg.Name()+"."+typ]
	want, ok := table[name]
	if !ok {
		return nil
	}
	t := pkg.Type(typ)
	if t == nil {
		return nil
	}
	var cands []*ssa.Function
	seen := map[*ssa.Function]bool{}
	for _, tt := range []types.Type{types.NewPointer(t.Type()), t.Type()} {
		ms := p.SSA.MethodSets.MethodSet(tt)
		for i := 0; i < ms.Len(); i++ {
			fn := p.SSA.MethodValue(ms.At(i))
			if fn == nil || fn.Synthetic != "" || seen[fn] {
				continue
			}
			seen[fn] = true
			if _, other := table[fn.Name()]; other {
				continue
			}
			if sigMatches(want, sigKey(fn)) {
				cands = append(cands, fn)
			}
		}
	}
	if len(cands) == 1 {
		return cands[0]
	}
	return nil
}

// sigMatches: the anchor's accepted signatures are separated by "|" (the same operation may take its bytes as an
// array, a pointer to one or a slice, and return the receiver or not).
func sigMatches(want, got string) bool {
	for _, w := range strings.Split(want, "|") {
		if w == got {
			return true
		}
	}
	return false
}

// byteParam builds the symbolic byte-string operand name[0..n) in the form parameter i of fn takes it
// ([n]byte, *[n]byte or []byte).
func byteParam(it *absint.Interp, fn *ssa.Function, i int, name string, n int) absint.Value {
	agg := symByteArray(it, name, n).(absint.Agg)
	if i < len(fn.Params) {
		switch fn.Params[i].Type().Underlying().(type) {
		case *types.Pointer:
			return absint.Ptr{C: agg.C}
		case *types.Slice:
			return absint.SliceV{Arr: agg.C, Lo: 0, Len: absint.TInt(int64(n)), Cap: n}
		}
	}
	return agg
}

// anchorFunc resolves a package-level function anchor of an internal package.
func anchorFunc(p *load.Prog, pkg *ssa.Package, name string) *ssa.Function {
	if fn := pkg.Func(name); fn != nil {
		return fn
	}
	table := anchorSigs[pkg.Pkg.Name()+"."]
	want, ok := table[name]
	if !ok {
		return nil
	}
	var cands []*ssa.Function
	for _, mem := range pkg.Members {
		fn, isF := mem.(*ssa.Function)
		if !isF || fn.Synthetic != "" {
			continue
		}
		if _, other := table[fn.Name()]; other {
			continue
		}
		if sigMatches(want, sigKey(fn)) {
			cands = append(cands, fn)
		}
	}
	if len(cands) == 1 {
		return cands[0]
	}
	return nil
}
