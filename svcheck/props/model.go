package props

import (
	"fmt"
	"go/types"
	"math/big"
	"strings"

	"golang.org/x/tools/go/ssa"

	"svcheck/absint"
	"svcheck/load"
	"svcheck/report"
)

var (
	FP = absint.FP
	FN = absint.FN
)

func hexInt(s string) *big.Int {
	v, ok := new(big.Int).SetString(s, 16)
	if !ok {
		panic("bad hex " + s)
	}
	return v
}

var (
	curveB = big.NewInt(7)
	baseGx = hexInt("79be667ef9dcbbac55a06295ce870b07029bfcdb2dce28d959f2815b16f81798")
	baseGy = hexInt("483ada7726a3c4655da4fbfc0e1108a8fd17b448a68554199c47d08ffb10d4b8")
)

// limbArrayField returns the index of the first field of struct type t whose type is [4]uint64 (the Fiat limb array).
func limbArrayField(t types.Type) int {
	st, ok := t.Underlying().(*types.Struct)
	if !ok {
		return -1
	}
	for i := 0; i < st.NumFields(); i++ {
		if a, ok := st.Field(i).Type().Underlying().(*types.Array); ok && a.Len() == 4 {
			if b, ok := a.Elem().Underlying().(*types.Basic); ok && b.Kind() == types.Uint64 {
				return i
			}
		}
	}
	return -1
}

// elemModel knows how an Element is laid out: which struct fields hold the
// projective coordinates.  The roles are discovered by analysing Base():
// the field that receives Gx is x, Gy is y, 1 is z.
type elemModel struct {
	p          *load.Prog
	elemT      types.Type
	fieldT     types.Type
	ix, iy, iz int
	ie         int // limb array inside field.Element
	scalarT    types.Type
	is         int // limb array inside Scalar
	// fields of Element / Scalar other than the value (and zero-size markers)
	extraElem, extraScalar []string
}

func (m *elemModel) limbCell(fe *absint.Cell) *absint.Cell { return fe.Kids[m.ie] }

func discoverModel(p *load.Prog) (*elemModel, error) {
	et := p.Root.Type("Element")
	st := p.Root.Type("Scalar")
	ft := p.Field.Type("Element")
	if et == nil || st == nil || ft == nil {
		return nil, fmt.Errorf("types Element/Scalar/field.Element not found")
	}
	m := &elemModel{p: p, elemT: et.Type(), fieldT: ft.Type(), scalarT: st.Type(), ix: -1, iy: -1, iz: -1}
	m.ie = limbArrayField(ft.Type())
	m.is = limbArrayField(st.Type())
	if m.ie < 0 || m.is < 0 {
		return nil, fmt.Errorf("limb arrays not found in field.Element / Scalar")
	}
	base := p.Method(p.Root, "Element", "Base")
	if base == nil {
		return nil, fmt.Errorf("(*Element).Base not found")
	}
	var err error
	func() {
		defer func() {
			if e := recover(); e != nil {
				if d := absint.DescribePanic(e); d != "" {
					err = fmt.Errorf("analysis of Base aborted: %s", d)
					return
				}
				panic(e)
			}
		}()
		it := absint.New(p, absint.Config{})
		o := it.NewObject(m.elemT, "e", true)
		it.CallFn(base, []absint.Value{absint.Ptr{C: o.Root}})
		est := m.elemT.Underlying().(*types.Struct)
		for i := 0; i < est.NumFields(); i++ {
			if !types.Identical(est.Field(i).Type(), m.fieldT) {
				continue
			}
			v, why := it.ReadMont(FP, m.limbCell(o.Root.Kids[i]))
			if v == nil {
				err = fmt.Errorf("Base(): coordinate %s: %s", est.Field(i).Name(), why)
				return
			}
			c, ok := v.IsConst()
			if !ok {
				continue
			}
			switch {
			case c.Cmp(baseGx) == 0:
				m.ix = i
			case c.Cmp(baseGy) == 0:
				m.iy = i
			case c.Cmp(big.NewInt(1)) == 0:
				m.iz = i
			}
		}
	}()
	if err != nil {
		return nil, err
	}
	// state beyond the value: any other field of non-zero size
	est := m.elemT.Underlying().(*types.Struct)
	for i := 0; i < est.NumFields(); i++ {
		if i != m.ix && i != m.iy && i != m.iz && !zeroSize(est.Field(i).Type()) {
			m.extraElem = append(m.extraElem, est.Field(i).Name())
		}
	}
	sst := m.scalarT.Underlying().(*types.Struct)
	for i := 0; i < sst.NumFields(); i++ {
		if i != m.is && !zeroSize(sst.Field(i).Type()) {
			m.extraScalar = append(m.extraScalar, sst.Field(i).Name())
		}
	}
	if m.ix < 0 || m.iy < 0 || m.iz < 0 {
		return nil, fmt.Errorf("Base() does not produce (Gx, Gy, 1): coordinate roles (x=%d y=%d z=%d) cannot be discovered", m.ix, m.iy, m.iz)
	}
	return m, nil
}

// newElem allocates an Element with the given coordinates.
func (m *elemModel) newElem(it *absint.Interp, name string, x, y, z *absint.Poly) *absint.Object {
	o := it.NewObject(m.elemT, name, true)
	it.SetMont(FP, m.limbCell(o.Root.Kids[m.ix]), x)
	it.SetMont(FP, m.limbCell(o.Root.Kids[m.iy]), y)
	it.SetMont(FP, m.limbCell(o.Root.Kids[m.iz]), z)
	return o
}

func (m *elemModel) symElem(it *absint.Interp, name, suffix string) *absint.Object {
	return m.newElem(it, name, absint.FieldSym(FP, "X"+suffix), absint.FieldSym(FP, "Y"+suffix), absint.FieldSym(FP, "Z"+suffix))
}

// coords reads the coordinates of an element cell.
func (m *elemModel) coords(it *absint.Interp, c *absint.Cell) (x, y, z *absint.Poly, why string) {
	rd := func(i int, n string) *absint.Poly {
		v, w := it.ReadMont(FP, m.limbCell(c.Kids[i]))
		if v == nil && why == "" {
			why = "coordinate " + n + ": " + w
		}
		return v
	}
	x, y, z = rd(m.ix, "x"), rd(m.iy, "y"), rd(m.iz, "z")
	return
}

func (m *elemModel) newScalar(it *absint.Interp, name string, v *absint.Poly) *absint.Object {
	o := it.NewObject(m.scalarT, name, true)
	it.SetMont(FN, o.Root.Kids[m.is], v)
	return o
}

func (m *elemModel) scalarVal(it *absint.Interp, c *absint.Cell) (*absint.Poly, string) {
	return it.ReadMont(FN, c.Kids[m.is])
}

func pInt(f *absint.Field, c int64) *absint.Poly { return absint.PolyInt(f, c) }

// explore1 runs fn on the inputs built by setup and hands every path to visit.
func explore(p *load.Prog, cfg absint.Config, fn *ssa.Function, setup func(it *absint.Interp) []absint.Value, visit func(res *absint.PathResult)) int {
	return absint.Explore(p, cfg, 4096, func(it *absint.Interp) (*ssa.Function, []absint.Value) {
		return fn, setup(it)
	}, visit)
}

func ptr(o *absint.Object) absint.Value { return absint.Ptr{C: o.Root} }

// eventsOf filters events.
func eventsOf(res *absint.PathResult, kinds ...string) []absint.Event {
	var out []absint.Event
	for _, e := range res.Events {
		for _, k := range kinds {
			if e.Kind == k {
				out = append(out, e)
			}
		}
	}
	return out
}

// newFE allocates a field.Element holding v.
func (m *elemModel) newFE(it *absint.Interp, name string, v *absint.Poly) *absint.Object {
	o := it.NewObject(m.fieldT, name, true)
	it.SetMont(FP, m.limbCell(o.Root), v)
	return o
}

// newElemLocal allocates a non-input Element (a value created by a summary).
func (m *elemModel) newElemLocal(it *absint.Interp, name string, x, y, z *absint.Poly) *absint.Object {
	o := it.NewObject(m.elemT, name, false)
	it.SetMont(FP, m.limbCell(o.Root.Kids[m.ix]), x)
	it.SetMont(FP, m.limbCell(o.Root.Kids[m.iy]), y)
	it.SetMont(FP, m.limbCell(o.Root.Kids[m.iz]), z)
	return o
}

func zeroSize(t types.Type) bool {
	switch u := t.Underlying().(type) {
	case *types.Array:
		return u.Len() == 0 || zeroSize(u.Elem())
	case *types.Struct:
		for i := 0; i < u.NumFields(); i++ {
			if !zeroSize(u.Field(i).Type()) {
				return false
			}
		}
		return true
	}
	return false
}

// stateGuard: the per-call analyses range over the value fields (three coordinates / the limb array) of their
// symbolic operands. A further field (a cache, a flag, a pointer) is state they do not range over: a call's result
// may then depend on the history of the object, which no per-call argument covers - the property is undecided.
func (m *elemModel) stateGuard(r *report.Report, prop string, elem, scalar bool) {
	if elem && len(m.extraElem) > 0 {
		r.Undecided(prop+".model", "Element state", "", fmt.Sprintf("Element carries state beyond its three coordinates (field %s): the analysis ranges over coordinates only and cannot cover the histories that state encodes", strings.Join(m.extraElem, ", ")))
	}
	if scalar && len(m.extraScalar) > 0 {
		r.Undecided(prop+".model", "Scalar state", "", fmt.Sprintf("Scalar carries state beyond its limb array (field %s): the analysis ranges over the value only and cannot cover the histories that state encodes", strings.Join(m.extraScalar, ", ")))
	}
}
