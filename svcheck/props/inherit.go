package props

import (
	"fmt"
	"strings"

	"svcheck/effects"
	"svcheck/load"
	"svcheck/report"
)

// inherit re-runs another property's driver on the same program and records its failures under prop:
// the obligations of `from` are hypotheses of `prop`.
func inherit(p *load.Prog, r *report.Report, prop, from string, driver func(*load.Prog, *report.Report), onlyRules ...string) {
	sub := report.New(from, r.Tier, "proof", r.VerifDir)
	sub.ControlsDir = r.ControlsDir
	sub.Quiet = true
	driver(p, sub)
	bad := 0
	for _, o := range sub.Obls {
		if len(onlyRules) > 0 {
			keep := false
			for _, pr := range onlyRules {
				if strings.HasPrefix(o.Rule, pr) {
					keep = true
				}
			}
			if !keep {
				continue
			}
		}
		if o.Status != report.Discharged {
			bad++
			if bad <= 6 {
				r.Fail(prop+".inherited", from+": "+o.Rule+" "+o.Construct, o.Pos, "an obligation of "+from+" that "+prop+" depends on fails: "+o.Detail)
			}
		}
	}
	if bad == 0 {
		r.OK(prop+".inherited", from, fmt.Sprintf("%d obligations of %s re-run and discharged", len(sub.Obls), from))
	}
}

// hashFrame: the hashing entry points must not write caller memory (their result must depend on the
// contents of msg and DST only, however the two slices are laid out in memory).
func hashFrame(p *load.Prog, r *report.Report, prop string, names ...string) {
	a := effects.Run(p)
	for _, n := range names {
		fn := p.Root.Func(n)
		if fn == nil {
			continue
		}
		sum := a.Sums[fn]
		bad := false
		for k, w := range sum.Wr {
			if strings.HasPrefix(k, "P") {
				bad = true
				r.Fail(prop+".inputs-readonly", n, p.Pos(w.Leaf().Pos), "the function may write into its msg/DST argument ("+w.Chain(p)+"): when msg and DST share a buffer the hashed message is altered, so the result is not a function of (msg, DST)")
			}
		}
		if !bad {
			r.OK(prop+".inputs-readonly", n, "msg and DST are only read (E2 effect summary): the result cannot depend on slice layout or aliasing")
		}
	}
}
