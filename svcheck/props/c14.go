package props

import (
	"fmt"

	"svcheck/absint"
	"svcheck/load"
	"svcheck/report"
)

// bitsOf runs Scalar.Bits on a symbolic scalar and returns entry i as a term (nil where unknown).
func bitsOf(p *load.Prog, m *elemModel, k *absint.Poly) (entries []*absint.Term, n int, problems []string) {
	fn := p.Method(p.Root, "Scalar", "Bits")
	if fn == nil {
		return nil, 0, []string{"(*Scalar).Bits not found"}
	}
	explore(p, absint.Config{}, fn, func(it *absint.Interp) []absint.Value {
		return []absint.Value{ptr(m.newScalar(it, "k", k))}
	}, func(res *absint.PathResult) {
		if res.Exit != "return" || len(res.Guards) > 0 {
			problems = append(problems, "Bits is not straight-line: "+res.Exit+" "+res.Abort+" "+guardString(res))
			return
		}
		for _, e := range eventsOf(res, "precond", "selector", "unmodelled", "top-branch", "bounds", "unknown-index") {
			problems = append(problems, e.Kind+": "+e.Msg)
		}
		agg, ok := res.Ret.(absint.Agg)
		if !ok {
			problems = append(problems, "Bits returns "+absint.Show(res.Ret))
			return
		}
		n = len(agg.C.Kids)
		for _, c := range agg.C.Kids {
			t, ok := absint.AsTerm(c.Val)
			if !ok {
				entries = append(entries, nil)
				continue
			}
			entries = append(entries, res.It.ApplyTerm(t))
		}
	})
	return
}

// C14: scalar bit expansion is the exact 256-bit binary representation.
func C14(p *load.Prog, r *report.Report) {
	r.Explanation = "E1 integer/bit domain: Scalar.Bits is interpreted on a symbolic scalar k; after the Montgomery->canonical conversion the local holds Canon(k), and every one of the 256 entries of the returned array must be exactly BIT(Canon(k), i) (so the entries are 0/1 and sum bits[i]·2^i is the canonical value). The loop is unrolled by constant propagation, so the set of written indices is computed, not assumed."
	r.Trusted = []string{"Fiat FromMontgomery leaf specification", "go/ssa"}
	m, err := discoverModel(p)
	if err != nil {
		r.Undecided("C14.model", "layout", "", err.Error())
		return
	}
	m.stateGuard(r, "C14", false, true)
	k := absint.FieldSym(FN, "k")
	canon := absint.CanonOf(FN, k)
	entries, n, problems := bitsOf(p, m, k)
	fn := p.Method(p.Root, "Scalar", "Bits")
	pos := ""
	if fn != nil {
		pos = p.Pos(fn.Pos())
	}
	for _, pr := range problems {
		r.Undecided("C14.analysis", "(*Scalar).Bits", pos, pr)
	}
	if entries == nil {
		return
	}
	r.Check(n == 256, "C14.length", "(*Scalar).Bits result", pos, "256 entries", fmt.Sprintf("%d entries", n))
	var wrong []int
	firstDetail := ""
	for i, e := range entries {
		want := absint.BIT(canon, i)
		if e == nil || !e.Equal(want) {
			wrong = append(wrong, i)
			if firstDetail == "" {
				got := "unknown"
				if e != nil {
					got = e.String()
				}
				firstDetail = fmt.Sprintf("entry %d is %s, expected %s", i, got, want)
			}
		}
	}
	r.Analysed["entries_checked"] = len(entries)
	if len(wrong) == 0 {
		r.OK("C14.bits", "(*Scalar).Bits entries 0..255", "entry i = BIT(Canon(k), i) for every i in [0,256)")
	} else {
		r.Fail("C14.bits", "(*Scalar).Bits entries 0..255", pos, fmt.Sprintf("%d of %d entries are not the corresponding bit of the canonical value (positions %s): %s", len(wrong), len(entries), compressInts(wrong), firstDetail))
	}
	for _, i := range []int{0, 63, 64, 255} {
		if i < len(entries) && entries[i] != nil {
			r.Sample(map[string]interface{}{"entry": i, "value": entries[i].String()})
		}
	}
}

func compressInts(xs []int) string {
	s := ""
	for i := 0; i < len(xs); {
		j := i
		for j+1 < len(xs) && xs[j+1] == xs[j]+1 {
			j++
		}
		if s != "" {
			s += ","
		}
		if j > i {
			s += fmt.Sprintf("%d-%d", xs[i], xs[j])
		} else {
			s += fmt.Sprintf("%d", xs[i])
		}
		i = j + 1
	}
	return s
}
