package props

import (
	"fmt"
	"go/types"
	"sort"
	"strings"

	"golang.org/x/tools/go/ssa"

	"svcheck/effects"
	"svcheck/load"
	"svcheck/report"
)

// in/out parameters by design: exported functions over *internal* types (an
// importer cannot even name these types), one named symbol each with a reason.
var inOutByDesign = map[string]string{
	"IsogenySecp256k13iso": "maps its argument in place and returns it (internal plumbing between SSWU and the group; parameter type *Element is used as in/out by design)",
	"Secp256Polynomial":    "y is the output parameter of y = x^3+7 (internal field type, not constructible by an importer)",
}

type frameOpts struct {
	prop         string
	argWrites    bool // no write through a non-receiver parameter
	freshBytes   bool // returned []byte fresh
	ptrResults   bool // pointer results ⊆ {receiver, fresh}; constructors/Copy fresh
	globals      bool // no write to / hand-out of / retention in package-level state
	receiverOnly bool
	label        string
}

func hasRecv(f *ssa.Function) bool { return f.Signature.Recv() != nil }

func paramName(f *ssa.Function, i int) string {
	if i < len(f.Params) {
		return f.Params[i].Name()
	}
	return fmt.Sprintf("#%d", i)
}

// frameChecks applies the E2 rules to every exported function of pkg.
// pooledResults: no module function may hand out (return) memory of an object it has given back to a sync.Pool
// (also through a deferred Put): whoever takes the object from the pool next writes into what the caller still reads.
func pooledResults(p *load.Prog, a *effects.Analysis, r *report.Report, prop string) {
	pools := map[string]bool{}
	for _, sp := range p.ModSSA {
		for _, m := range sp.Members {
			if g, ok := m.(*ssa.Global); ok {
				t := g.Type().(*types.Pointer).Elem()
				if strings.HasSuffix(t.String(), "sync.Pool") {
					pools["G:"+g.Pkg.Pkg.Path()+"."+g.Name()] = true
				}
			}
		}
	}
	n := 0
	for _, f := range p.ModFuncs() {
		sum := a.Sums[f]
		if sum == nil {
			continue
		}
		for i, ret := range sum.Ret {
			for k := range ret {
				if pools[k] {
					n++
					r.Fail(prop+".pooluse", fmt.Sprintf("%s result %d", f.Name(), i), p.Pos(f.Pos()), "the result shares memory with an object the function hands back to the pool "+strings.TrimPrefix(k, "G:")+": the next call that takes the object from the pool overwrites what this call's caller still reads (use after Put)")
				}
			}
		}
	}
	if len(pools) > 0 && n == 0 {
		r.OK(prop+".pooluse", "pooled objects", fmt.Sprintf("%d pool(s): no function returns memory of an object it puts back", len(pools)))
	}
}

func frameChecks(p *load.Prog, a *effects.Analysis, pkg *ssa.Package, r *report.Report, o frameOpts) (nfuncs int) {
	api := p.ExportedAPIOf(pkg)
	for _, f := range api {
		nfuncs++
		sum := a.Sums[f]
		if sum == nil {
			r.Undecided(o.prop+".frame", f.String(), p.Pos(f.Pos()), "no effect summary")
			continue
		}
		fname := strings.TrimPrefix(f.String(), pkg.Pkg.Path()+".")
		fname = strings.ReplaceAll(fname, pkg.Pkg.Path()+".", "")
		recvIdx := -1
		if hasRecv(f) {
			recvIdx = 0
		}
		if o.argWrites {
			var bad []string
			for k := range sum.Wr {
				if !strings.HasPrefix(k, "P") {
					continue
				}
				var i int
				fmt.Sscanf(k, "P%d", &i)
				if i == recvIdx {
					continue
				}
				bad = append(bad, k)
			}
			sort.Strings(bad)
			if len(bad) == 0 {
				r.OK(o.prop+".argwrite", fname, "no write reaches memory of a non-receiver parameter")
			}
			for _, k := range bad {
				var i int
				fmt.Sscanf(k, "P%d", &i)
				w := sum.Wr[k]
				if isAppender(f, sum, k) {
					r.OK(o.prop+".argwrite", fname+" param "+paramName(f, i), "output buffer: the only writes are appends behind its length, and the extended slice is what the call returns (the append contract: the caller hands the buffer over to be extended)")
					continue
				}
				if why, ok := inOutByDesign[f.Name()]; ok && !hasRecv(f) {
					r.OK(o.prop+".argwrite", fname+" param "+paramName(f, i), "named exception: "+why)
					continue
				}
				r.Fail(o.prop+".argwrite", fname+" param "+paramName(f, i), p.Pos(w.Leaf().Pos),
					"memory reachable from caller-owned parameter "+paramName(f, i)+" may be written: "+w.Chain(p))
			}
		}
		if o.globals {
			var bad []string
			for k := range sum.Wr {
				if strings.HasPrefix(k, "G:") && strings.HasPrefix(k, "G:"+p.ModPrefix) {
					bad = append(bad, k)
				}
			}
			sort.Strings(bad)
			if len(bad) == 0 {
				r.OK(o.prop+".globalwrite", fname, "no store to package-level state")
			}
			for _, k := range bad {
				w := sum.Wr[k]
				r.Fail(o.prop+".globalwrite", fname+" writes "+strings.TrimPrefix(k, "G:"+p.ModPrefix), p.Pos(w.Leaf().Pos),
					"package-level variable written outside init: "+w.Chain(p))
			}
			for k, e := range sum.Esc {
				if strings.HasPrefix(k, "G:"+p.ModPrefix) {
					for v := range e {
						if strings.HasPrefix(v, "P") {
							var i int
							fmt.Sscanf(v, "P%d", &i)
							r.Fail(o.prop+".retain", fname+" retains "+paramName(f, i)+" in "+strings.TrimPrefix(k, "G:"+p.ModPrefix), p.Pos(f.Pos()), "a pointer into caller memory is stored in package-level state")
						}
					}
				}
			}
		}
		res := f.Signature.Results()
		for i := 0; i < res.Len(); i++ {
			t := res.At(i).Type()
			if isErr(t) {
				continue
			}
			_, isSlice := t.Underlying().(*types.Slice)
			_, isPtr := t.Underlying().(*types.Pointer)
			if !isSlice && !isPtr {
				continue
			}
			ret := sum.Ret[i]
			var ks []string
			for k := range ret {
				ks = append(ks, k)
			}
			sort.Strings(ks)
			construct := fmt.Sprintf("%s result %d", fname, i)
			if isSlice && o.freshBytes {
				ok := true
				for _, k := range ks {
					if k != "Fresh" && isAppender(f, sum, k) {
						continue // the caller's own output buffer, extended (see argwrite)
					}
					if k != "Fresh" {
						ok = false
						what := k
						if strings.HasPrefix(k, "P") {
							var j int
							fmt.Sscanf(k, "P%d", &j)
							what = "parameter " + paramName(f, j)
						}
						r.Fail(o.prop+".freshresult", construct, p.Pos(f.Pos()), "returned slice may share memory with "+what+" (not a fresh allocation)")
					}
				}
				if ok {
					r.OK(o.prop+".freshresult", construct, "returned slice is freshly allocated on every path")
				}
			}
			if isPtr && o.ptrResults {
				mustFresh := !hasRecv(f) || f.Name() == "Copy"
				ok := true
				for _, k := range ks {
					switch {
					case k == "Fresh":
					case k == "P0" && hasRecv(f) && !mustFresh:
					default:
						if _, exc := inOutByDesign[f.Name()]; exc && !hasRecv(f) && strings.HasPrefix(k, "P") {
							continue
						}
						ok = false
						r.Fail(o.prop+".ptrresult", construct, p.Pos(f.Pos()), fmt.Sprintf("returned pointer may alias %s (allowed: %s)", k, map[bool]string{true: "fresh memory only", false: "receiver or fresh memory"}[mustFresh]))
					}
				}
				if ok {
					r.OK(o.prop+".ptrresult", construct, map[bool]string{true: "fresh on every path", false: "receiver or fresh"}[mustFresh])
				}
			}
			if o.globals {
				for _, k := range ks {
					if strings.HasPrefix(k, "G:"+p.ModPrefix) {
						r.Fail(o.prop+".globalout", construct, p.Pos(f.Pos()), "a pointer into package-level state "+strings.TrimPrefix(k, "G:")+" is handed to the caller (shared mutable memory)")
					}
				}
			}
		}
	}
	return
}

func isErr(t types.Type) bool {
	n, ok := t.(*types.Named)
	return ok && n.Obj().Pkg() == nil && n.Obj().Name() == "error"
}

// isAppender: parameter key k of f is a byte-slice output buffer in the sense of the append contract - f is named
// Append…, every write f makes to the parameter is an append behind its length, and a slice result of f is (an
// extension of) it.
func isAppender(f *ssa.Function, sum *effects.Summary, k string) bool {
	if !strings.HasPrefix(k, "P") || sum.OtherWr[k] || sum.Wr[k] == nil {
		return false
	}
	// Go's convention for this contract is the name: strconv.AppendInt, binary.AppendUvarint,
	// encoding.BinaryAppender.AppendBinary, encoding.TextAppender.AppendText. A function that extends and returns a
	// caller's slice under any other name (the pinned vetDSTXMD pattern) is not exempt.
	if !strings.HasPrefix(f.Name(), "Append") {
		return false
	}
	var i int
	fmt.Sscanf(k, "P%d", &i)
	if i >= len(f.Params) {
		return false
	}
	if _, isSlice := f.Params[i].Type().Underlying().(*types.Slice); !isSlice {
		return false
	}
	res := f.Signature.Results()
	for j := 0; j < res.Len() && j < len(sum.Ret); j++ {
		if _, isSlice := res.At(j).Type().Underlying().(*types.Slice); isSlice && sum.Ret[j][k] {
			return true
		}
	}
	return false
}

// pooledOrder: within one function, an object that has been handed back to a sync.Pool - by a direct, non-deferred Put,
// or by a non-deferred call of a release closure that one call returned together with the object - must not be used on
// any path after that: the next taker of the pool owns it (use after Put inside the call, C16-r10-2).
func pooledOrder(p *load.Prog, r *report.Report, prop string) {
	isPut := func(c *ssa.CallCommon) bool {
		f := c.StaticCallee()
		return f != nil && f.Pkg != nil && f.Pkg.Pkg.Path() == "sync" && f.Name() == "Put" && f.Signature.Recv() != nil &&
			strings.HasSuffix(f.Signature.Recv().Type().String(), "sync.Pool")
	}
	strip := func(v ssa.Value) ssa.Value {
		for {
			switch x := v.(type) {
			case *ssa.MakeInterface:
				v = x.X
			case *ssa.ChangeInterface:
				v = x.X
			case *ssa.ChangeType:
				v = x.X
			case *ssa.TypeAssert:
				v = x.X
			default:
				return v
			}
		}
	}
	putters := map[*ssa.Function]bool{}
	for _, f := range p.ModFuncs() {
		for _, b := range f.Blocks {
			for _, in := range b.Instrs {
				if c, ok := in.(*ssa.Call); ok && isPut(&c.Call) {
					putters[f] = true
				}
			}
		}
	}
	// functions that return a putting closure: result indices of function type
	releasers := map[*ssa.Function]map[int]bool{}
	for _, f := range p.ModFuncs() {
		makes := false
		for _, b := range f.Blocks {
			for _, in := range b.Instrs {
				if mc, ok := in.(*ssa.MakeClosure); ok {
					if g, ok := mc.Fn.(*ssa.Function); ok && putters[g] {
						makes = true
					}
				}
			}
		}
		if !makes {
			continue
		}
		res := f.Signature.Results()
		for i := 0; i < res.Len(); i++ {
			if _, ok := res.At(i).Type().Underlying().(*types.Signature); ok {
				if releasers[f] == nil {
					releasers[f] = map[int]bool{}
				}
				releasers[f][i] = true
			}
		}
	}
	nsites, nfail := 0, 0
	for _, f := range p.ModFuncs() {
		for _, b := range f.Blocks {
			for ci, in := range b.Instrs {
				c, ok := in.(*ssa.Call)
				if !ok {
					continue
				}
				var roots []ssa.Value
				if isPut(&c.Call) && len(c.Call.Args) >= 2 {
					roots = append(roots, strip(c.Call.Args[1]))
				} else if e, ok := c.Call.Value.(*ssa.Extract); ok {
					if tc, ok := e.Tuple.(*ssa.Call); ok {
						if g := tc.Call.StaticCallee(); g != nil && releasers[g][e.Index] {
							for _, ref := range *tc.Referrers() {
								if s, ok := ref.(*ssa.Extract); ok && !releasers[g][s.Index] {
									roots = append(roots, s)
								}
							}
						}
					}
				}
				if len(roots) == 0 {
					continue
				}
				nsites++
				for _, root := range roots {
					if _, isConst := root.(*ssa.Const); isConst {
						continue
					}
					var defBlock *ssa.BasicBlock
					if ri, ok := root.(ssa.Instruction); ok {
						defBlock = ri.Block()
					}
					reach := map[*ssa.BasicBlock]bool{}
					var walk func(x *ssa.BasicBlock)
					walk = func(x *ssa.BasicBlock) {
						if reach[x] || (x == defBlock && x != b) {
							return
						}
						reach[x] = true
						for _, s := range x.Succs {
							walk(s)
						}
					}
					for _, s := range b.Succs {
						if s != b {
							walk(s)
						}
					}
					report := func(u ssa.Instruction) {
						nfail++
						r.Fail(prop+".poolorder", fmt.Sprintf("%s uses a pooled object after giving it back", f.Name()), p.Pos(u.Pos()),
							"the object was handed back to a sync.Pool at "+p.Pos(c.Pos())+" and is used afterwards on a path of the same function: a concurrent call that takes it from the pool shares it (use after Put)")
					}
					for _, ub := range f.Blocks {
						for ui, u := range ub.Instrs {
							if u == in {
								continue
							}
							switch u.(type) {
							case *ssa.DebugRef, *ssa.MakeInterface, *ssa.ChangeInterface, *ssa.ChangeType, *ssa.TypeAssert, *ssa.Extract:
								continue
							}
							after := (ub == b && ui > ci) || (ub != b && reach[ub])
							if !after {
								continue
							}
							for _, op := range u.Operands(nil) {
								if op != nil && *op != nil && strip(*op) == root {
									report(u)
									break
								}
							}
						}
					}
				}
			}
		}
	}
	if nsites > 0 && nfail == 0 {
		r.OK(prop+".poolorder", "pooled objects", fmt.Sprintf("%d hand-back site(s): no use of the object after it", nsites))
	}
}
