package props

import (
	"fmt"
	"os"
	"strings"

	"svcheck/absint"
	"svcheck/load"
	"svcheck/report"
)

// C18: random scalars are non-zero, canonical and correct for every entropy stream.
func C18(p *load.Prog, r *report.Report) {
	unroll := 3
	if r.Tier == "thorough" {
		unroll = 6
	}
	r.Explanation = fmt.Sprintf("E1 on Scalar.Random with the entropy reads modelled as fresh symbolic 32-byte blocks B1, B2, … and symbolic read errors. The data-dependent retry loop is unrolled %d times by path enumeration; the rest is induction on the iteration count, whose step is checked (C18.induction): on the all-rejected path the complete abstract state (registers of every frame and every reachable object) before draw k+1 must equal the state before draw k with block indices shifted by one, so no counter, accumulator or stale buffer is carried from draw to draw. Obligations on every path: an exit in iteration k assumes [Bj mod n = 0] for all j<k and [Bk mod n != 0], and stores exactly Montgomery(Bk mod n) into the receiver (the single conditional subtraction is justified by the interval 2^256 < 2n; Fiat's < n precondition is proven by the guard-refined interval); a failed read panics before anything is stored; every read takes 32 bytes from crypto/rand.Reader.", unroll)
	r.Trusted = []string{"io.ReadFull contract (fills the buffer or returns an error)", "crypto/rand.Reader is the system randomness source", "Fiat ToMontgomery leaf specification", "induction over loop iterations; its step (no state but the current block is carried from draw to draw) is checked by comparing the abstract states before consecutive draws"}
	m, err := discoverModel(p)
	if err != nil {
		r.Undecided("C18.model", "layout", "", err.Error())
		return
	}
	m.stateGuard(r, "C18", false, true)
	fn := p.Method(p.Root, "Scalar", "Random")
	if fn == nil {
		r.Undecided("C18.anchor", "(*Scalar).Random", "", "method not found")
		return
	}
	pos := p.Pos(fn.Pos())
	old := absint.FieldSym(FN, "old")
	block := func(k int) *absint.Poly { return absint.EmbTerm(FN, os2ip(fmt.Sprintf("entropy#%d", k), 0, 32)) }
	nexit, npanic, ncap, ninduct := 0, 0, 0, 0
	explore(p, absint.Config{LoopUnroll: unroll}, fn, func(it *absint.Interp) []absint.Value {
		return []absint.Value{ptr(m.newScalar(it, "recv", old))}
	}, func(res *absint.PathResult) {
		it := res.It
		// how many reads happened, and which succeeded
		reads := 0
		for _, e := range eventsOf(res, "entropy") {
			reads++
			parts := strings.Split(e.Msg, "|")
			src, ln := parts[0], parts[1]
			if src != "crypto/rand.Reader" || ln != "32" {
				r.Fail("C18.source", fmt.Sprintf("read %d", reads), p.Pos(e.Pos), fmt.Sprintf("entropy read of %s bytes from %s; required: 32 bytes from crypto/rand.Reader", ln, src))
			}
		}
		label := fmt.Sprintf("reads=%d %s", reads, res.Exit)
		if res.Exit == "abort" {
			if strings.HasPrefix(res.Abort, "loop-cap") {
				ncap++
				// the retry edge: every block so far must be assumed zero mod n and every read ok
				// (the cap is hit at the test that follows the last read, before that block's test is decided)
				// the induction step: the state in which draw k+1 starts must be the state in which draw k started, with
				// every block index moved up by one.  Anything else (an attempt counter, an accumulator, a buffer that
				// keeps bytes of earlier blocks) is state carried from draw to draw, and the unrolled prefix says nothing
				// about the iterations beyond it
				ninduct++
				if rs := it.ReadStates; len(rs) < 3 {
					r.Undecided("C18.induction", fmt.Sprintf("retry after %d reads", reads), pos, "fewer than three draws on the retry path: the induction step cannot be compared")
				} else if a, b := rs[len(rs)-2], rs[len(rs)-1]; a.Site != b.Site {
					r.Undecided("C18.induction", fmt.Sprintf("retry after %d reads", reads), p.Pos(b.Site.Pos()), "consecutive draws happen at different call sites: the loop is not uniform")
				} else {
					sh := b.Shifted
					diff := ""
					if len(sh) != len(a.Lines) {
						diff = fmt.Sprintf("%d state entries before draw %d, %d before draw %d", len(a.Lines), len(rs)-1, len(sh), len(rs))
					}
					for i := 0; i < len(sh) && i < len(a.Lines) && diff == ""; i++ {
						if sh[i] != a.Lines[i] {
							diff = fmt.Sprintf("before draw %d: %s; before draw %d: %s", len(rs)-1, clipStr(a.Lines[i], clipN), len(rs), clipStr(b.Lines[i], clipN))
						}
					}
					if diff != "" {
						r.Fail("C18.induction", fmt.Sprintf("retry after %d reads", reads), p.Pos(b.Site.Pos()), "state other than the block just drawn is carried from one draw to the next, so draws beyond the "+fmt.Sprint(unroll)+" analysed ones may behave differently (a bounded number of attempts falls through with a rejected value): "+diff)
					} else {
						r.OK("C18.induction", fmt.Sprintf("retry after %d reads", reads), fmt.Sprintf("the state before draw %d equals the state before draw %d with block indices shifted (%d entries compared)", len(rs), len(rs)-1, len(sh)))
					}
				}
				for k := 1; k < reads; k++ {
					z, dz := known(it, absint.ISZ(block(k)))
					ok, dok := known(it, absint.SymBool(fmt.Sprintf("readok#%d", k)))
					if !(dz && z && dok && ok) {
						r.Fail("C18.retry", fmt.Sprintf("retry after %d reads", reads), pos, fmt.Sprintf("the loop continues after block %d although the path does not say that block is zero mod n: %s", k, guardString(res)))
					}
				}
				return
			}
			r.Undecided("C18.analysis", label, pos, res.Abort)
			return
		}
		if reportEvents(p, r, "C18.analysis", label, res) {
			return
		}
		if res.Exit == "panic" {
			npanic++
			// must be caused by the last read failing
			ok, dok := known(it, absint.SymBool(fmt.Sprintf("readok#%d", reads)))
			r.Check(reads >= 1 && dok && !ok, "C18.panic", fmt.Sprintf("panic after read %d", reads), p.Pos(res.PanicAt), "panics exactly when the read fails", "a panic that is not caused by a failing entropy read")
			got, why := m.scalarVal(it, it.InputRoots()[0])
			r.Check(why == "" && got.Equal(old), "C18.panic-clean", fmt.Sprintf("panic after read %d", reads), p.Pos(res.PanicAt), "nothing stored before the panic", "the receiver is written although the entropy source failed")
			return
		}
		nexit++
		construct := fmt.Sprintf("exit in iteration %d", reads)
		if reads < 1 {
			r.Fail("C18.value", construct, pos, "Random returns without reading entropy")
			return
		}
		good := true
		for k := 1; k <= reads; k++ {
			ok, dok := known(it, absint.SymBool(fmt.Sprintf("readok#%d", k)))
			if !(dok && ok) {
				r.Fail("C18.errcheck", construct, pos, fmt.Sprintf("returns although read %d may have failed (error not checked)", k))
				good = false
			}
			z, dz := known(it, absint.ISZ(block(k)))
			if k < reads && !(dz && z) {
				r.Fail("C18.first", construct, pos, fmt.Sprintf("block %d is skipped although the path does not say it is zero mod n", k))
				good = false
			}
			if k == reads && !(dz && !z) {
				r.Fail("C18.nonzero", construct, pos, "returns without having established that the value is non-zero: "+guardString(res))
				good = false
			}
		}
		got, why := m.scalarVal(it, it.InputRoots()[0])
		want := block(reads)
		if why != "" || !got.EqualMod(want) {
			r.Fail("C18.value", construct, pos, fmt.Sprintf("stored value is %v (%s); expected block %d reduced mod n", got, why, reads))
			good = false
		}
		if pr, ok := res.Ret.(absint.Ptr); !ok || pr.C != it.InputRoots()[0] {
			r.Fail("C18.value", construct+" result", pos, "does not return the receiver")
			good = false
		}
		if good {
			r.OK("C18.value", construct, fmt.Sprintf("blocks 1..%d assumed zero mod n, block %d non-zero; receiver = Montgomery(B%d mod n), canonical", reads-1, reads, reads))
			r.Sample(map[string]interface{}{"exit_iteration": reads, "guards": guardString(res), "stored": got.String()})
		}
	})
	r.Analysed["exit_paths"] = nexit
	r.Analysed["panic_paths"] = npanic
	r.Analysed["retry_edges_at_cap"] = ncap
	r.RequireCount("C18.exits", "exit paths (one per unrolled iteration)", nexit, 2)
	r.RequireCount("C18.panics", "panic paths (failed read)", npanic, 1)
	r.RequireCount("C18.induction", "retry paths on which the induction step was compared", ninduct, 1)
	r.RequireCount("C18.retry", "retry edge reached at the unrolling cap (the loop really loops)", ncap, 1)
}

func clipStr(s string, n int) string {
	if len(s) > n {
		return s[:n] + "…"
	}
	return s
}

var clipN = func() int {
	if os.Getenv("SVDEBUGIND") != "" {
		return 100000
	}
	return 160
}()
