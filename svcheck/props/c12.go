package props

import (
	"fmt"
	"go/types"
	"math/big"

	"golang.org/x/tools/go/ssa"

	"svcheck/absint"
	"svcheck/load"
	"svcheck/report"
)

// runEach runs fn on the inputs and hands every path that returns to body; the specification a body compares with
// must be specialised to the path (sp/st below): a function with fast paths for special inputs is checked path by
// path under each path's own constraints. Paths that do not return, and analysis events, are reported here.
func runEach(p *load.Prog, r *report.Report, rule, construct string, fn *ssa.Function, setup func(it *absint.Interp) []absint.Value, body func(res *absint.PathResult)) {
	n := 0
	explore(p, absint.Config{}, fn, setup, func(res *absint.PathResult) {
		n++
		if n > 24 {
			if n == 25 {
				r.Undecided(rule, construct, p.Pos(fn.Pos()), "more than 24 paths")
			}
			return
		}
		if res.Exit != "return" {
			r.Undecided(rule, construct, p.Pos(fn.Pos()), fmt.Sprintf("a path does not return (exit %s %s %s)", res.Exit, res.Abort, guardString(res)))
			return
		}
		if reportEvents(p, r, rule, construct, res) {
			return
		}
		body(res)
	})
	if n == 0 {
		r.Undecided(rule, construct, "", "no path")
	}
}

// sp and st specialise a specification (polynomial / term) to the constraints of a path.
func sp(res *absint.PathResult, q *absint.Poly) *absint.Poly { return res.It.DeepApplyPoly(q) }
func st(res *absint.PathResult, t *absint.Term) *absint.Term { return res.It.DeepApplyTerm(t) }

// arithCase is one wrapper obligation: method name, operand pattern and the expected value of the receiver.
type arithCase struct {
	meth    string
	pattern string // e.g. "e,u,v" distinct; "e,e,v": first operand is the receiver, etc.
	want    func(e, u, v *absint.Poly) *absint.Poly
}

// fieldWrappers checks the one-line wrappers of a Fiat package over field f.
func fieldArith(p *load.Prog, r *report.Report, m *elemModel, prop string) {
	e0, a, b := absint.FieldSym(FP, "e"), absint.FieldSym(FP, "a"), absint.FieldSym(FP, "b")
	type opdef struct {
		meth string
		args int
		want func(x, y *absint.Poly) *absint.Poly
	}
	ops := []opdef{
		{"Add", 2, func(x, y *absint.Poly) *absint.Poly { return x.Add(y) }},
		{"Subtract", 2, func(x, y *absint.Poly) *absint.Poly { return x.Sub(y) }},
		{"Multiply", 2, func(x, y *absint.Poly) *absint.Poly { return x.Mul(y) }},
		{"Square", 1, func(x, y *absint.Poly) *absint.Poly { return x.Mul(x) }},
		{"Negate", 1, func(x, y *absint.Poly) *absint.Poly { return x.Neg() }},
		{"Set", 1, func(x, y *absint.Poly) *absint.Poly { return x }},
		{"One", 0, func(x, y *absint.Poly) *absint.Poly { return pInt(FP, 1) }},
	}
	// aliasing patterns: which operand (if any) is the receiver, and whether both operands are the same object
	type pat struct {
		name string
		u, v string // "e", "a", "b"
	}
	pats2 := []pat{{"distinct", "a", "b"}, {"u is the receiver", "e", "b"}, {"v is the receiver", "a", "e"}, {"u and v are the same", "a", "a"}, {"all the same", "e", "e"}}
	pats1 := []pat{{"distinct", "a", ""}, {"argument is the receiver", "e", ""}}
	val := map[string]*absint.Poly{"e": e0, "a": a, "b": b}
	for _, op := range ops {
		fn := anchorMethod(p, p.Field, "Element", op.meth)
		if fn == nil {
			r.Undecided(prop+".anchor", "field.Element."+op.meth, "", "method not found")
			continue
		}
		pats := pats2
		if op.args == 1 {
			pats = pats1
		}
		if op.args == 0 {
			pats = []pat{{"", "", ""}}
		}
		for _, pt := range pats {
			construct := fmt.Sprintf("field.Element.%s (%s)", op.meth, pt.name)
			runEach(p, r, prop+".wrapper", construct, fn, func(it *absint.Interp) []absint.Value {
				objs := map[string]*absint.Object{"e": m.newFE(it, "e", e0)}
				get := func(n string) absint.Value {
					if objs[n] == nil {
						objs[n] = m.newFE(it, n, val[n])
					}
					return ptr(objs[n])
				}
				args := []absint.Value{ptr(objs["e"])}
				if op.args >= 1 {
					args = append(args, get(pt.u))
				}
				if op.args >= 2 {
					args = append(args, get(pt.v))
				}
				return args
			}, func(res *absint.PathResult) {
				got, why := res.It.ReadMont(FP, m.limbCell(res.It.InputRoots()[0]))
				if got != nil {
					got = sp(res, got)
				}
				want := sp(res, op.want(val[pt.u], val[pt.v]))
				r.Check(why == "" && got.Equal(want), prop+".wrapper", construct, p.Pos(fn.Pos()), "receiver = "+op.want(val[pt.u], val[pt.v]).String(), fmt.Sprintf("receiver is %v (%s), expected %s", got, why, want))
				// operands other than the receiver keep their value
				for _, c := range res.It.InputRoots()[1:] {
					g, w := res.It.ReadMont(FP, m.limbCell(c))
					if w != "" || !g.Equal(sp(res, val[c.Obj.Name])) {
						r.Fail(prop+".wrapper", construct+" operand "+c.Obj.Name, p.Pos(fn.Pos()), "an operand is modified")
					}
				}
			})
		}
	}
}

// chainExponent runs a chain function on a symbolic α and returns the exponent of the resulting monomial.
func chainExponent(p *load.Prog, r *report.Report, m *elemModel, prop, construct string, fn *ssa.Function, f *absint.Field, setup func(it *absint.Interp, alpha *absint.Poly) ([]absint.Value, func() *absint.Cell), want *big.Int, wantName string) {
	alpha := absint.FieldSym(f, "α")
	var outCell func() *absint.Cell
	runEach(p, r, prop+".chain", construct, fn, func(it *absint.Interp) []absint.Value {
		args, oc := setup(it, alpha)
		outCell = oc
		return args
	}, func(res *absint.PathResult) {
		got, why := res.It.ReadMont(f, outCell())
		if got != nil {
			got = sp(res, got)
		}
		wantP := sp(res, alpha.Pow(want))
		detail := ""
		if why == "" && !got.Equal(wantP) {
			detail = fmt.Sprintf("the chain computes %s", got)
		}
		r.Check(why == "" && got.Equal(wantP), prop+".chain", construct, p.Pos(fn.Pos()), fmt.Sprintf("α ↦ α^(%s): exponent computed from the chain's own code", wantName), "the addition chain does not compute α^("+wantName+"): "+detail+why)
	})
}

// C12: base-field layer computes exact, canonical arithmetic in F_p.
func C12(p *load.Prog, r *report.Report) {
	r.Explanation = "Decides the hand-written part of the base-field layer by E1, with the Fiat primitives as trusted leaves: (1) each wrapper (Add, Subtract, Multiply, Square, Negate, Set, One) passes its operands to the right primitive in the right order under every receiver/operand aliasing; (2) the two addition chains compute exactly α^(p-2) and α^((p-3)/4) (exponent arithmetic on a symbolic α through the chain's own code); (3) SqrtRatio = RFC 9380 F.2.1.2 (c2^2 = -Z); (4) Sgn0 = bit 0 of the canonical value, IsZero/Equals whole-value tests, CMove(c,u,v) = ite(c, v, u) on a 0/1 condition; (5) Reduce(x) = (ite(x<p, x, x-p), [x<p]) with p's limbs as found in the code, FromBytesWithReduce = (OS2IP mod p, [OS2IP < p]), Bytes = BE32(Canon), HashToFieldElement = OS2IP(48 bytes) mod p via 2^192/2^384 constants; (6) every argument of every Fiat primitive reached is proven < p (typestate), so stored values stay canonical. NOT decided: the word-level carry chains inside the Fiat-generated primitives (assumed correct; the sibling cross-check of the two generated files is in the thorough tier)."
	r.NotDecided = []string{"word-level correctness of the Fiat-Crypto generated Mul/Square/Add/Sub/Opp/ToMontgomery/FromMontgomery/Selectznz/Nonzero (4x64-bit carry chains, final conditional subtraction): trusted leaf specifications"}
	r.Trusted = []string{"Fiat-Crypto leaf specifications", "RFC 9380 F.2.1.2", "Fermat's little theorem", "math/bits, encoding/binary contracts", "go/ssa"}
	m, err := discoverModel(p)
	if err != nil {
		r.Undecided("C12.model", "layout", "", err.Error())
		return
	}
	fieldArith(p, r, m, "C12")
	siblingChecks(p, r, "C12")
	// chains
	if fn := anchorMethod(p, p.Field, "Element", "Invert"); fn != nil {
		chainExponent(p, r, m, "C12", "field.Element.Invert", fn, FP, func(it *absint.Interp, alpha *absint.Poly) ([]absint.Value, func() *absint.Cell) {
			z := m.newFE(it, "z", pInt(FP, 0))
			x := m.newFE(it, "x", alpha)
			return []absint.Value{ptr(z), it.LoadAgg(x.Root)}, func() *absint.Cell { return m.limbCell(z.Root) }
		}, FP.M2, "p-2")
		// receiver = argument (the call sites pass *z)
		chainExponent(p, r, m, "C12", "field.Element.Invert (receiver is the argument's source)", fn, FP, func(it *absint.Interp, alpha *absint.Poly) ([]absint.Value, func() *absint.Cell) {
			z := m.newFE(it, "z", alpha)
			return []absint.Value{ptr(z), it.LoadAgg(z.Root)}, func() *absint.Cell { return m.limbCell(z.Root) }
		}, FP.M2, "p-2")
	} else {
		r.Undecided("C12.anchor", "field.Element.Invert", "", "method not found")
	}
	// (p-3)/4: found as the heavy callee of SqrtRatio
	if sr := anchorMethod(p, p.Field, "Element", "SqrtRatio"); sr != nil {
		var chain *ssa.Function
		for _, c := range p.StaticCallees(sr) {
			if absint.IsHeavy(c) {
				chain = c
			}
		}
		if chain == nil {
			r.Undecided("C12.chain", "exponentiation used by SqrtRatio", p.Pos(sr.Pos()), "no addition chain is called by SqrtRatio")
		} else {
			chainExponent(p, r, m, "C12", "field."+chain.Name()+" (called by SqrtRatio)", chain, FP, func(it *absint.Interp, alpha *absint.Poly) ([]absint.Value, func() *absint.Cell) {
				z := m.newFE(it, "z", pInt(FP, 0))
				x := m.newFE(it, "x", alpha)
				return []absint.Value{ptr(z), ptr(x)}, func() *absint.Cell { return m.limbCell(z.Root) }
			}, pMinus3Div4, "(p-3)/4")
		}
	}
	// sqrt_ratio, Sgn0, IsZero, Equals, CMove
	roots := sqrtMinusZ()
	u, v := absint.FieldSym(FP, "u"), absint.FieldSym(FP, "v")
	if fn := anchorMethod(p, p.Field, "Element", "SqrtRatio"); fn != nil {
		runEach(p, r, "C12.sqrt_ratio", "field.Element.SqrtRatio", fn, func(it *absint.Interp) []absint.Value {
			return []absint.Value{ptr(m.newFE(it, "out", pInt(FP, 0))), ptr(m.newFE(it, "u", u)), ptr(m.newFE(it, "v", v))}
		}, func(res *absint.PathResult) {
			good := false
			if tup, ok := res.Ret.(absint.Tuple); ok && len(tup) == 2 {
				got, _ := res.It.ReadMont(FP, m.limbCell(res.It.InputRoots()[0]))
				flag, fok := retTerm(res.It, tup[1])
				for _, c2 := range roots {
					wy, wq := specSqrtRatio(u, v, c2)
					if got != nil && fok && got.Equal(sp(res, wy)) && flag.Equal(st(res, wq)) {
						good = true
					}
				}
			}
			r.Check(good, "C12.sqrt_ratio", "field.Element.SqrtRatio", p.Pos(fn.Pos()), "= sqrt_ratio_3mod4 of RFC 9380 F.2.1.2 on symbolic (u, v)", "differs from RFC 9380 F.2.1.2")
		})
	}
	// SqrtRatio under aliasing of receiver and arguments
	if fn := anchorMethod(p, p.Field, "Element", "SqrtRatio"); fn != nil {
		for _, pat := range []string{"receiver is u", "receiver is v", "u and v are the same", "all the same"} {
			construct := "field.Element.SqrtRatio (" + pat + ")"
			uu, vv := u, v
			if pat == "u and v are the same" || pat == "all the same" {
				vv = u
			}
			runEach(p, r, "C12.sqrt_ratio", construct, fn, func(it *absint.Interp) []absint.Value {
				uo := m.newFE(it, "u", u)
				vo := uo
				if vv != u {
					vo = m.newFE(it, "v", v)
				}
				var eo *absint.Object
				switch pat {
				case "receiver is u", "all the same":
					eo = uo
				case "receiver is v":
					eo = vo
				default:
					eo = m.newFE(it, "out", pInt(FP, 0))
				}
				return []absint.Value{ptr(eo), ptr(uo), ptr(vo)}
			}, func(res *absint.PathResult) {
				good := false
				if tup, ok := res.Ret.(absint.Tuple); ok && len(tup) == 2 {
					var got *absint.Poly
					if pr, ok := tup[0].(absint.Ptr); ok {
						got, _ = res.It.ReadMont(FP, m.limbCell(pr.C))
					}
					flag, fok := retTerm(res.It, tup[1])
					for _, c2 := range roots {
						wy, wq := specSqrtRatio(uu, vv, c2)
						if got != nil && fok && got.Equal(sp(res, wy)) && flag.Equal(st(res, wq)) {
							good = true
						}
					}
				}
				r.Check(good, "C12.sqrt_ratio", construct, p.Pos(fn.Pos()), "= sqrt_ratio_3mod4 also when operands share storage", "the result is wrong when the receiver or the operands share storage (an operand is overwritten before its last use)")
			})
		}
	}
	a, b := absint.FieldSym(FP, "a"), absint.FieldSym(FP, "b")
	type predCase struct {
		meth string
		args int
		want *absint.Term
		what string
	}
	for _, c := range []predCase{
		{"Sgn0", 1, absint.BIT(absint.CanonOf(FP, a), 0), "bit 0 of the canonical value"},
		{"IsZero", 1, absint.ISZ(a), "[a = 0]"},
		{"Equals", 2, absint.ISZ(a.Sub(b)), "[a = b] over all four limbs"},
	} {
		fn := anchorMethod(p, p.Field, "Element", c.meth)
		if fn == nil {
			r.Undecided("C12.anchor", "field.Element."+c.meth, "", "method not found")
			continue
		}
		runEach(p, r, "C12.predicate", "field.Element."+c.meth, fn, func(it *absint.Interp) []absint.Value {
			args := []absint.Value{ptr(m.newFE(it, "a", a))}
			if c.args == 2 {
				args = append(args, ptr(m.newFE(it, "b", b)))
			}
			return args
		}, func(res *absint.PathResult) {
			got, ok := retTerm(res.It, res.Ret)
			r.Check(ok && got.Equal(st(res, c.want)), "C12.predicate", "field.Element."+c.meth, p.Pos(fn.Pos()), "result = "+c.what, fmt.Sprintf("result is %s, expected %s", absint.Show(res.Ret), c.want))
		})
	}
	if fn := anchorMethod(p, p.Field, "Element", "CMove"); fn != nil {
		c := absint.SymBool("c")
		for _, pat := range []string{"distinct", "u is the receiver", "v is the receiver"} {
			construct := "field.Element.CMove (" + pat + ")"
			e0 := absint.FieldSym(FP, "e")
			uu, vv := a, b
			runEach(p, r, "C12.cmove", construct, fn, func(it *absint.Interp) []absint.Value {
				eo := m.newFE(it, "e", e0)
				uo, vo := eo, eo
				if pat != "u is the receiver" {
					uo = m.newFE(it, "a", a)
				}
				if pat != "v is the receiver" {
					vo = m.newFE(it, "b", b)
				}
				return []absint.Value{ptr(eo), absint.TermV{T: c}, ptr(uo), ptr(vo)}
			}, func(res *absint.PathResult) {
				if pat == "u is the receiver" {
					uu = e0
				}
				if pat == "v is the receiver" {
					vv = e0
				}
				got, why := res.It.ReadMont(FP, m.limbCell(res.It.InputRoots()[0]))
				want := sp(res, cmov(uu, vv, c))
				r.Check(why == "" && got.Equal(want), "C12.cmove", construct, p.Pos(fn.Pos()), "receiver = ite(c, v, u) for a 0/1 condition", fmt.Sprintf("receiver is %v, expected %s", got, want))
			})
		}
	}
	// Reduce on four symbolic words
	pT := absint.TConst(FP.M)
	if fn := anchorFunc(p, p.Field, "Reduce"); fn != nil {
		w := []*absint.Term{absint.SymWord("x0"), absint.SymWord("x1"), absint.SymWord("x2"), absint.SymWord("x3")}
		X := absint.LiftLimbs(w)
		runEach(p, r, "C12.reduce", "field.Reduce", fn, func(it *absint.Interp) []absint.Value {
			o := it.NewObject(fn.Params[0].Type().(*types.Pointer).Elem(), "x", true)
			for i, c := range o.Root.Kids {
				c.Val = absint.TermV{T: w[i]}
			}
			return []absint.Value{ptr(o)}
		}, func(res *absint.PathResult) {
			got, ok := res.It.ReadInt(res.It.InputRoots()[0])
			flag, fok := retTerm(res.It, res.Ret)
			lt := st(res, absint.LT(X, pT))
			want := st(res, X.Sub(pT).Add(absint.LT(X, pT).Scale(FP.M)))
			r.Check(ok && fok && got.Equal(want) && flag.Equal(lt), "C12.reduce", "field.Reduce", p.Pos(fn.Pos()), "x := ite(x < p, x, x - p), returns [x < p], with p's limbs as written in the code", fmt.Sprintf("x becomes %v and the flag %v; expected %s and %s", got, flag, want, lt))
		})
	} else {
		r.Undecided("C12.anchor", "field.Reduce", "", "function not found")
	}
	if fn := anchorMethod(p, p.Field, "Element", "FromBytesWithReduce"); fn != nil {
		X := os2ip("in", 0, 32)
		runEach(p, r, "C12.parse", "field.Element.FromBytesWithReduce", fn, func(it *absint.Interp) []absint.Value {
			return []absint.Value{ptr(m.newFE(it, "e", pInt(FP, 0))), byteParam(it, fn, 1, "in", 32)}
		}, func(res *absint.PathResult) {
			tup, _ := res.Ret.(absint.Tuple)
			if tup == nil && res.Ret != nil {
				// the variant that returns only the flag (the receiver is set in place)
				tup = absint.Tuple{nil, res.Ret}
			}
			good := false
			if len(tup) == 2 {
				got, why := res.It.ReadMont(FP, m.limbCell(res.It.InputRoots()[0]))
				flag, fok := retTerm(res.It, tup[1])
				good = why == "" && fok && got.EqualMod(sp(res, absint.EmbTerm(FP, X))) && flag.Equal(st(res, absint.LT(X, pT)))
			}
			r.Check(good, "C12.parse", "field.Element.FromBytesWithReduce", p.Pos(fn.Pos()), "value = OS2IP(in) mod p, flag = [OS2IP(in) < p]", "the parser does not return (OS2IP(in) mod p, [OS2IP(in) < p])")
		})
	} else {
		r.Undecided("C12.anchor", "field.Element.FromBytesWithReduce", "", "method not found")
	}
	if fn := anchorMethod(p, p.Field, "Element", "Bytes"); fn != nil {
		runEach(p, r, "C12.serialise", "field.Element.Bytes", fn, func(it *absint.Interp) []absint.Value {
			return []absint.Value{ptr(m.newFE(it, "a", a))}
		}, func(res *absint.PathResult) {
			bs, ln, ok := res.It.SliceContent(res.Ret)
			if !ok {
				// the variant that returns the 32 bytes as an array
				if ab, isArr := res.It.ArrayContent(res.Ret); isArr {
					bs, ln, ok = ab, absint.TInt(int64(len(ab))), true
				}
			}
			good := ok && len(bs) == 32
			if good {
				if k, isC := ln.IsConst(); !isC || k.Int64() != 32 {
					good = false
				}
			}
			ca := absint.CanonOf(FP, a)
			for k := 0; good && k < 32; k++ {
				good = bs[k].Equal(st(res, absint.ByteOf(ca, 31-k)))
			}
			r.Check(good, "C12.serialise", "field.Element.Bytes", p.Pos(fn.Pos()), "BE32(Canon(a))", "the serialiser does not emit the canonical big-endian value")
		})
	} else {
		r.Undecided("C12.anchor", "field.Element.Bytes", "", "method not found")
	}
	if fn := anchorMethod(p, p.Field, "Element", "HashToFieldElement"); fn != nil {
		X := os2ip("in", 0, 48)
		runEach(p, r, "C12.wide", "field.Element.HashToFieldElement", fn, func(it *absint.Interp) []absint.Value {
			return []absint.Value{ptr(m.newFE(it, "e", pInt(FP, 0))), byteParam(it, fn, 1, "in", 48)}
		}, func(res *absint.PathResult) {
			got, why := res.It.ReadMont(FP, m.limbCell(res.It.InputRoots()[0]))
			want := sp(res, absint.EmbTerm(FP, X))
			r.Check(why == "" && got.EqualMod(want), "C12.wide", "field.Element.HashToFieldElement", p.Pos(fn.Pos()), "value = OS2IP(48 bytes) mod p (a + b·2^192 with the code's Montgomery constants)", fmt.Sprintf("the wide reduction does not return the input integer mod p (%s)", why))
		})
	} else {
		r.Undecided("C12.anchor", "field.Element.HashToFieldElement", "", "method not found")
	}
}
