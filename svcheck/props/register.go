// Package props holds one driver per property.
package props

import (
	"svcheck/load"
	"svcheck/report"
)

// Register announces the implemented checks.
func Register(reg0 func(id, level string, f func(*load.Prog, *report.Report))) {
	// properties whose argument takes the generated primitives as trusted leaves also check that the primitives
	// they reach are intact
	reg := func(id, level string, f func(*load.Prog, *report.Report)) {
		_, l1 := leafEntries[id]
		_, l2 := stateEntries[id]
		if !l1 && !l2 {
			reg0(id, level, f)
			return
		}
		reg0(id, level, func(p *load.Prog, r *report.Report) {
			f(p, r)
			if l1 {
				leafIntegrity(p, r, id)
			}
			stableGlobals(p, r, id)
		})
	}
	reg("C01", "proof", C01)
	reg("C02", "proof", C02)
	reg("C03", "proof", C03)
	reg("C04", "proof", C04)
	reg("C05", "proof", C05)
	reg("C06", "other", C06)
	reg("C07", "proof", C07)
	reg("C08", "other", C08)
	reg("C09", "other", C09)
	reg("C10", "other", C10)
	reg("C11", "proof", C11)
	reg("C12", "other", C12)
	reg("C13", "proof", C13)
	reg("C14", "proof", C14)
	reg("C15", "proof", C15)
	reg("C16", "proof", C16)
	reg("C17", "proof", C17)
	reg("C18", "proof", C18)
	reg("C19", "proof", C19)
}
