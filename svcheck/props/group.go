package props

import (
	"fmt"
	"go/types"
	"math/big"
	"sort"
	"strings"

	"golang.org/x/tools/go/ssa"

	"svcheck/absint"
	"svcheck/load"
)

// D-group: formal sums  Σ T_i · S_i  of symbolic points S_i with weights
// T_i in Z[predicate atoms] (0/1 atoms, multilinear).  An element object
// holds such a value as three formal coordinate variables x⟨g⟩, y⟨g⟩, z⟨g⟩;
// copies and conditional merges of cells act on those variables, and the
// value is decoded back from the coordinates wherever arithmetic happens.
type gelt map[string]*absint.Term

func (g gelt) key() string {
	var ks []string
	for k, t := range g {
		ks = append(ks, k+"*"+t.Key())
	}
	sort.Strings(ks)
	return strings.Join(ks, "+")
}

func (g gelt) add(h gelt, scale int64) gelt {
	out := gelt{}
	for k, t := range g {
		out[k] = t
	}
	for k, t := range h {
		s := t.Scale(big.NewInt(scale))
		if o, ok := out[k]; ok {
			s = o.Add(s)
		}
		if c, isC := s.IsConst(); isC && c.Sign() == 0 {
			delete(out, k)
		} else {
			out[k] = s
		}
	}
	return out
}

func (g gelt) mulPred(p *absint.Term) gelt {
	out := gelt{}
	for k, t := range g {
		s := t.Mul(p)
		if c, isC := s.IsConst(); isC && c.Sign() == 0 {
			continue
		}
		out[k] = s
	}
	return out
}

func (g gelt) String() string {
	if len(g) == 0 {
		return "O"
	}
	var ks []string
	for k := range g {
		ks = append(ks, k)
	}
	sort.Strings(ks)
	var parts []string
	for _, k := range ks {
		parts = append(parts, "["+g[k].String()+"]·"+k)
	}
	return strings.Join(parts, " + ")
}

type groupDomain struct {
	m     *elemModel
	byVar map[string]struct {
		g    gelt
		axis int
	}
	byKey map[string][3]*absint.Poly
	n     int
}

func newGroupDomain(m *elemModel) *groupDomain {
	return &groupDomain{m: m, byVar: map[string]struct {
		g    gelt
		axis int
	}{}, byKey: map[string][3]*absint.Poly{}}
}

// coordsOf returns the formal coordinates of g; the zero element is (0:1:0).
func (d *groupDomain) coordsOf(g gelt) [3]*absint.Poly {
	if len(g) == 0 {
		return [3]*absint.Poly{pInt(FP, 0), pInt(FP, 1), pInt(FP, 0)}
	}
	k := g.key()
	if c, ok := d.byKey[k]; ok {
		return c
	}
	d.n++
	var c [3]*absint.Poly
	for axis, an := range []string{"x", "y", "z"} {
		name := fmt.Sprintf("%s⟨g%d⟩", an, d.n)
		c[axis] = absint.FieldSym(FP, name)
		d.byVar[name] = struct {
			g    gelt
			axis int
		}{g, axis}
	}
	d.byKey[k] = c
	return c
}

// decode reads a formal sum back from three coordinate polynomials.
func (d *groupDomain) decode(x, y, z *absint.Poly) (gelt, string) {
	dec := func(p *absint.Poly, axis int) (gelt, *absint.Term, string) {
		g := gelt{}
		konst := absint.TInt(0)
		parts, ok := p.LinearParts()
		if !ok {
			return nil, nil, "coordinate is not a combination of formal coordinates: " + p.String()
		}
		for _, pt := range parts {
			if pt.Var == "" {
				konst = konst.Add(pt.Weight)
				continue
			}
			e, ok := d.byVar[pt.Var]
			if !ok || e.axis != axis {
				return nil, nil, "coordinate mixes axes or unknown variables: " + p.String()
			}
			g = g.add(e.g.mulPred(pt.Weight), 1)
		}
		return g, konst, ""
	}
	gx, kx, w := dec(x, 0)
	if w != "" {
		return nil, w
	}
	gy, ky, w := dec(y, 1)
	if w != "" {
		return nil, w
	}
	gz, kz, w := dec(z, 2)
	if w != "" {
		return nil, w
	}
	if c, ok := kx.IsConst(); !ok || c.Sign() != 0 {
		return nil, "x coordinate has a constant part"
	}
	if c, ok := kz.IsConst(); !ok || c.Sign() != 0 {
		return nil, "z coordinate has a constant part"
	}
	_ = ky // weight of the concrete identity (0:c:0); it carries no point
	if gx.key() != gy.key() || gx.key() != gz.key() {
		return nil, "the three coordinates describe different combinations: x " + gx.String() + " | y " + gy.String() + " | z " + gz.String()
	}
	return gx, ""
}

// groupOp is a classified arithmetic function: target := op(srcA[, srcB]).
type groupOp struct {
	kind   string // "add", "double", "neg"
	target int    // parameter index written
	a, b   int    // parameter indices read
}

// classifyGroupFn analyses fn (whose parameters are all *Element) at the polynomial level under the given
// aliasing pattern (pattern[i] = index of the first parameter that is the same object) and recognises group
// operations.  A function may branch on the zero-ness of a z coordinate (identity shortcuts): the operation
// is read off the general path (no operand assumed to be the identity) and every other path must give the
// same group-law result under its own assumptions.
func classifyGroupFn(p *load.Prog, m *elemModel, fn *ssa.Function, pattern []int) ([]groupOp, bool) {
	n := len(fn.Params)
	pts := make([]pt, n)
	var sfx []string
	for i := range pts {
		pts[i] = symPt(fmt.Sprintf("%d", pattern[i]+1))
		sfx = append(sfx, fmt.Sprintf("%d", pattern[i]+1))
	}
	type pathRec struct {
		hyp     *pathHyp
		got     []pt // per parameter (nil X for aliased duplicates)
		general bool
	}
	var recs []pathRec
	ok := true
	explore(p, absint.Config{}, fn, func(it *absint.Interp) []absint.Value {
		objs := make([]*absint.Object, n)
		args := make([]absint.Value, n)
		for i := range objs {
			if pattern[i] != i {
				objs[i] = objs[pattern[i]]
			} else {
				objs[i] = m.newElem(it, fmt.Sprintf("S%d", i), pts[i].X, pts[i].Y, pts[i].Z)
			}
			args[i] = ptr(objs[i])
		}
		return args
	}, func(res *absint.PathResult) {
		if res.Exit != "return" || len(recs) > 16 {
			ok = false
			return
		}
		for _, e := range res.Events {
			switch e.Kind {
			case "precond", "selector", "unmodelled", "top-branch", "bounds":
				ok = false
			}
		}
		hyp := newPathHyp(res.It, sfx...)
		if !hyp.ok {
			ok = false
			return
		}
		rec := pathRec{hyp: hyp, got: make([]pt, n), general: true}
		for _, as := range res.It.Assumptions() {
			if as.Val && absint.IszVarName(as.Atom) != "" {
				rec.general = false
			}
		}
		roots := res.It.InputRoots()
		ri := 0
		for i := 0; i < n; i++ {
			if pattern[i] != i {
				continue
			}
			x, y, z, why := m.coords(res.It, roots[ri])
			ri++
			if why != "" {
				ok = false
				return
			}
			rec.got[i] = pt{x, y, z}
		}
		recs = append(recs, rec)
	})
	if !ok || len(recs) == 0 {
		return nil, false
	}
	candidates := func(i int) []struct {
		op   groupOp
		want pt
	} {
		var out []struct {
			op   groupOp
			want pt
		}
		for a := 0; a < n; a++ {
			out = append(out, struct {
				op   groupOp
				want pt
			}{groupOp{"double", i, a, -1}, rcbDouble(pts[a])})
			out = append(out, struct {
				op   groupOp
				want pt
			}{groupOp{"neg", i, a, -1}, negPt(pts[a])})
			for b := a; b < n; b++ {
				out = append(out, struct {
					op   groupOp
					want pt
				}{groupOp{"add", i, a, b}, rcbAdd(pts[a], pts[b])})
			}
			if a != i {
				out = append(out, struct {
					op   groupOp
					want pt
				}{groupOp{"copy", i, a, -1}, pts[a]})
			}
		}
		return out
	}
	// read the operations off a general path
	var gen *pathRec
	for k := range recs {
		if recs[k].general {
			gen = &recs[k]
			break
		}
	}
	if gen == nil {
		return nil, false
	}
	var ops []groupOp
	wants := map[int]pt{}
	for i := 0; i < n; i++ {
		if pattern[i] != i {
			continue
		}
		g := gen.hyp.pt(gen.got[i])
		if g.X.Equal(gen.hyp.poly(pts[i].X)) && g.Y.Equal(gen.hyp.poly(pts[i].Y)) && g.Z.Equal(gen.hyp.poly(pts[i].Z)) {
			continue // unchanged
		}
		found := false
		for _, c := range candidates(i) {
			if same, _ := samePoint(g, gen.hyp.pt(c.want), sfx...); same {
				ops = append(ops, c.op)
				wants[i] = c.want
				found = true
				break
			}
		}
		if !found {
			return nil, false
		}
	}
	// every path must agree
	for _, rec := range recs {
		for i := 0; i < n; i++ {
			if pattern[i] != i {
				continue
			}
			want, changed := wants[i]
			if !changed {
				want = pts[i]
			}
			if same, _ := samePoint(rec.hyp.pt(rec.got[i]), rec.hyp.pt(want), sfx...); !same {
				return nil, false
			}
		}
	}
	return ops, true
}

func isElemPtr(t types.Type, m *elemModel) bool {
	pt, ok := t.(*types.Pointer)
	return ok && types.Identical(pt.Elem(), m.elemT)
}

// groupSummaries builds interpreter summaries for every root-package
// function over *Element that performs group arithmetic, as classified by
// the polynomial analysis (the functions are found by what they compute, not
// by their names).  It returns the summaries and a description.
func groupSummaries(p *load.Prog, m *elemModel, d *groupDomain, from *ssa.Function) (map[*ssa.Function]absint.Summary, []string) {
	sums := map[*ssa.Function]absint.Summary{}
	var desc []string
	reach := p.Reachable(from)
	for _, fn := range p.ModFuncs() {
		if !reach[fn] || fn == from {
			continue
		}
		if fn.Package() != p.Root || len(fn.Params) == 0 || len(fn.Params) > 3 {
			continue
		}
		all := true
		for _, prm := range fn.Params {
			if !isElemPtr(prm.Type(), m) {
				all = false
			}
		}
		res := fn.Signature.Results()
		if !all || res.Len() > 1 || (res.Len() == 1 && !isElemPtr(res.At(0).Type(), m)) {
			continue
		}
		n := len(fn.Params)
		distinct := make([]int, n)
		for i := range distinct {
			distinct[i] = i
		}
		ops, ok := classifyGroupFn(p, m, fn, distinct)
		if !ok || len(ops) == 0 {
			continue
		}
		arith := false
		for _, o := range ops {
			if o.kind != "copy" {
				arith = true
			}
		}
		if !arith {
			continue
		}
		fnc := fn
		cache := map[string][]groupOp{fmt.Sprint(distinct): ops}
		var od []string
		for _, o := range ops {
			od = append(od, fmt.Sprintf("param%d := %s(param%d,param%d)", o.target, o.kind, o.a, o.b))
		}
		desc = append(desc, fn.Name()+": "+strings.Join(od, "; "))
		sums[fn] = func(it *absint.Interp, args []absint.Value) absint.Value {
			// aliasing pattern of this call
			pat := make([]int, n)
			cells := make([]*absint.Cell, n)
			for i, a := range args {
				pa, ok := a.(absint.Ptr)
				if !ok {
					it.Abort("group-level call of " + fnc.Name() + " with a non-pointer operand")
				}
				cells[i] = pa.C
				pat[i] = i
				for j := 0; j < i; j++ {
					if cells[j] == pa.C {
						pat[i] = j
						break
					}
				}
			}
			key := fmt.Sprint(pat)
			cops, ok := cache[key]
			if !ok {
				var good bool
				cops, good = classifyGroupFn(p, m, fnc, pat)
				if !good {
					it.Abort("group operation " + fnc.Name() + " is not the group law under the aliasing pattern " + key + " of this call")
				}
				cache[key] = cops
			}
			vals := make([]gelt, n)
			for i := range cells {
				x, y, z, why := m.coords(it, cells[i])
				if why != "" {
					it.Abort("operand of " + fnc.Name() + ": " + why)
				}
				g, w := d.decode(x, y, z)
				if w != "" {
					it.Abort("operand of " + fnc.Name() + " is not a formal group element: " + w)
				}
				vals[i] = g
			}
			for _, o := range cops {
				var rr gelt
				switch o.kind {
				case "add":
					rr = vals[o.a].add(vals[o.b], 1)
				case "double":
					rr = vals[o.a].add(vals[o.a], 1)
				case "neg":
					rr = gelt{}.add(vals[o.a], -1)
				case "copy":
					rr = vals[o.a]
				}
				c := d.coordsOf(rr)
				it.StoreMont(FP, m.limbCell(cells[o.target].Kids[m.ix]), c[0])
				it.StoreMont(FP, m.limbCell(cells[o.target].Kids[m.iy]), c[1])
				it.StoreMont(FP, m.limbCell(cells[o.target].Kids[m.iz]), c[2])
			}
			if fnc.Signature.Results().Len() == 1 {
				// which parameter is returned is found by running the real function's return on pointers: all
				// arithmetic functions of this package return their receiver
				return args[0]
			}
			return nil
		}
	}
	sort.Strings(desc)
	return sums, desc
}

// decodeXY decodes a formal point from its x and y coordinates only (affine points whose z is not meaningful).
func (d *groupDomain) decodeXY(x, y *absint.Poly) (gelt, string) {
	dec := func(p *absint.Poly, axis int) (gelt, string) {
		g := gelt{}
		parts, ok := p.LinearParts()
		if !ok {
			return nil, "coordinate is not a combination of formal coordinates"
		}
		for _, pt := range parts {
			e, ok := d.byVar[pt.Var]
			if pt.Var == "" || !ok || e.axis != axis {
				return nil, "coordinate is not a formal coordinate"
			}
			g = g.add(e.g.mulPred(pt.Weight), 1)
		}
		return g, ""
	}
	gx, w := dec(x, 0)
	if w != "" {
		return nil, w
	}
	gy, w := dec(y, 1)
	if w != "" {
		return nil, w
	}
	if gx.key() != gy.key() {
		return nil, "x and y describe different points"
	}
	return gx, ""
}
