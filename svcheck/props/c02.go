package props

import (
	"fmt"
	"math/big"

	"svcheck/absint"
	"svcheck/load"
	"svcheck/report"
)

type pt struct{ X, Y, Z *absint.Poly }

func symPt(suffix string) pt {
	return pt{absint.FieldSym(FP, "X"+suffix), absint.FieldSym(FP, "Y"+suffix), absint.FieldSym(FP, "Z"+suffix)}
}

// rcbAdd: output polynomials of Renes-Costello-Batina Algorithm 7 (a = 0), b3 = 3b = 21.
func rcbAdd(p, q pt) pt {
	b3 := pInt(FP, 21)
	three := pInt(FP, 3)
	x1y2 := p.X.Mul(q.Y).Add(q.X.Mul(p.Y))
	y1z2 := p.Y.Mul(q.Z).Add(q.Y.Mul(p.Z))
	x1z2 := p.X.Mul(q.Z).Add(q.X.Mul(p.Z))
	yy := p.Y.Mul(q.Y)
	zz := b3.Mul(p.Z.Mul(q.Z))
	xx := p.X.Mul(q.X)
	X3 := x1y2.Mul(yy.Sub(zz)).Sub(b3.Mul(y1z2).Mul(x1z2))
	Y3 := yy.Add(zz).Mul(yy.Sub(zz)).Add(three.Mul(b3).Mul(xx).Mul(x1z2))
	Z3 := y1z2.Mul(yy.Add(zz)).Add(three.Mul(xx).Mul(x1y2))
	return pt{X3, Y3, Z3}
}

// rcbDouble: output polynomials of RCB Algorithm 9 (a = 0).
func rcbDouble(p pt) pt {
	b3 := pInt(FP, 21)
	y2 := p.Y.Mul(p.Y)
	z2 := p.Z.Mul(p.Z)
	t := y2.Sub(pInt(FP, 3).Mul(b3).Mul(z2)) // Y^2 - 3 b3 Z^2
	X3 := pInt(FP, 2).Mul(p.X).Mul(p.Y).Mul(t)
	Y3 := t.Mul(y2.Add(b3.Mul(z2))).Add(pInt(FP, 8).Mul(b3).Mul(y2).Mul(z2))
	Z3 := pInt(FP, 8).Mul(y2).Mul(p.Y).Mul(p.Z)
	return pt{X3, Y3, Z3}
}

func negPt(p pt) pt { return pt{p.X, p.Y.Neg(), p.Z} }

// reduceCurve reduces modulo the curve equations of the symbolic input points:
// X^3 -> Y^2 Z - 7 Z^3 for each suffix.
func reduceCurve(q *absint.Poly, suffixes ...string) *absint.Poly {
	for _, s := range suffixes {
		Y, Z := absint.FieldSym(FP, "Y"+s), absint.FieldSym(FP, "Z"+s)
		repl := Y.Mul(Y).Mul(Z).Sub(pInt(FP, 7).Mul(Z).Mul(Z).Mul(Z))
		q = q.ReducePow(absint.SymVar(FP, "X"+s), 3, repl)
	}
	return q
}

// samePoint decides whether got represents the same projective point as
// want: first got = λ·want for a non-zero constant λ, then all 2x2 minors
// vanish modulo the curve equations of the inputs.
func samePoint(got, want pt, suffixes ...string) (bool, string) {
	// constant multiple
	ref, gref := want.Z, got.Z
	if ref.IsZero() {
		ref, gref = want.Y, got.Y
	}
	if ref.IsZero() {
		ref, gref = want.X, got.X
	}
	if got.X.IsZero() && got.Y.IsZero() && got.Z.IsZero() {
		return false, "all three coordinates are the zero polynomial: not a projective point"
	}
	if c, key := ref.LeadCoef(); c != nil {
		g := gref.CoefOf(key)
		if g.Sign() != 0 {
			lam := new(big.Int).Mul(g, new(big.Int).ModInverse(c, FP.M))
			lam.Mod(lam, FP.M)
			if got.X.Equal(want.X.ScaleC(lam)) && got.Y.Equal(want.Y.ScaleC(lam)) && got.Z.Equal(want.Z.ScaleC(lam)) {
				if lam.Cmp(big.NewInt(1)) == 0 {
					return true, "coordinates equal the reference polynomials"
				}
				return true, "coordinates equal the reference polynomials scaled by the non-zero constant " + lam.String()
			}
		}
	}
	m1 := reduceCurve(got.X.Mul(want.Y).Sub(want.X.Mul(got.Y)), suffixes...)
	m2 := reduceCurve(got.X.Mul(want.Z).Sub(want.X.Mul(got.Z)), suffixes...)
	m3 := reduceCurve(got.Y.Mul(want.Z).Sub(want.Y.Mul(got.Z)), suffixes...)
	if m1.IsZero() && m2.IsZero() && m3.IsZero() {
		return true, "projectively equal to the reference modulo the curve equation"
	}
	return false, fmt.Sprintf("x = %s; reference X3 = %s", got.X, want.X)
}

type c02case struct {
	name   string
	method string
	alias  bool // argument is the receiver itself
	unary  bool
	want   func(p, q pt) pt
}

// C02: Add, Double, Subtract, Negate implement the group law with no exceptional cases.
func C02(p *load.Prog, r *report.Report) {
	r.Explanation = "E1 polynomial constant propagation: the real code of Add/Double/Subtract/Negate (through add, addProjectiveComplete, the field wrappers, down to the Fiat primitives as trusted ring operations) is interpreted with symbolic projective coordinates; the receiver's final coordinates must be, as polynomials over F_p in X1..Z2, a non-zero constant multiple of the Renes-Costello-Batina complete-addition/doubling polynomials (or projectively equal to them modulo the curve equation), for a distinct argument and for argument = receiver; the argument must be unchanged and nothing but the receiver written; nil arguments leave the receiver untouched. Completeness on every pair of points then is RCB's theorem for prime-order a=0 curves."
	r.Trusted = []string{"Fiat-Crypto leaf specifications (Mul/Square/Add/Sub/Opp are the ring operations of F_p on Montgomery representatives < p)", "Renes-Costello-Batina 2015/1060, Alg. 7 and 9 are complete for prime-order short Weierstrass curves with a = 0", "go/ssa"}
	m, err := discoverModel(p)
	if err != nil {
		r.Undecided("C02.model", "coordinate roles", "", err.Error())
		return
	}
	m.stateGuard(r, "C02", true, false)
	cases := []c02case{
		{"Add(P,Q)", "Add", false, false, func(a, b pt) pt { return rcbAdd(a, b) }},
		{"Add(P,P) argument is the receiver", "Add", true, false, func(a, b pt) pt { return rcbAdd(a, a) }},
		{"Subtract(P,Q)", "Subtract", false, false, func(a, b pt) pt { return rcbAdd(a, negPt(b)) }},
		{"Subtract(P,P) argument is the receiver", "Subtract", true, false, func(a, b pt) pt { return rcbAdd(a, negPt(a)) }},
		{"Double(P)", "Double", false, true, func(a, b pt) pt { return rcbDouble(a) }},
	}
	P1, P2 := symPt("1"), symPt("2")
	for _, c := range cases {
		fn := p.Method(p.Root, "Element", c.method)
		if fn == nil {
			r.Undecided("C02.anchor", c.method, "", "method not found")
			continue
		}
		npaths := 0
		explore(p, absint.Config{}, fn, func(it *absint.Interp) []absint.Value {
			recv := m.newElem(it, "P", P1.X, P1.Y, P1.Z)
			if c.unary {
				return []absint.Value{ptr(recv)}
			}
			if c.alias {
				return []absint.Value{ptr(recv), ptr(recv)}
			}
			arg := m.newElem(it, "Q", P2.X, P2.Y, P2.Z)
			return []absint.Value{ptr(recv), ptr(arg)}
		}, func(res *absint.PathResult) {
			npaths++
			construct := c.name
			if npaths > 1 {
				construct = fmt.Sprintf("%s path %d", c.name, npaths)
			}
			if res.Exit != "return" {
				r.Undecided("C02.law", construct, p.Pos(res.PanicAt), "path ends with "+res.Exit+" "+res.Abort)
				return
			}
			hyp := newPathHyp(res.It, "1", "2")
			if !hyp.ok {
				r.Undecided("C02.law", construct, p.Pos(res.Guards[0].Pos), "the operation branches on data in a way the analysis cannot relate to the operands ("+hyp.String()+")")
				return
			}
			if len(res.Guards) > 0 {
				construct = fmt.Sprintf("%s [%s]", c.name, hyp.String())
			}
			for _, e := range eventsOf(res, "precond", "selector", "unmodelled", "top-branch", "bounds", "global-store") {
				r.Undecided("C02.law", construct+" ("+e.Kind+")", p.Pos(e.Pos), e.Msg)
			}
			it := res.It
			var recv, arg *absint.Cell
			for _, c2 := range it.InputRoots() {
				switch c2.Obj.Name {
				case "P":
					recv = c2
				case "Q":
					arg = c2
				}
			}
			x, y, z, why := m.coords(it, recv)
			if why != "" {
				r.Undecided("C02.law", construct, p.Pos(fn.Pos()), why)
				return
			}
			ok, detail := samePoint(hyp.pt(pt{x, y, z}), hyp.pt(c.want(P1, P2)), "1", "2")
			r.Check(ok, "C02.law", construct, p.Pos(fn.Pos()), detail, "receiver after "+c.name+" is not the group-law result for all inputs: "+detail)
			r.Sample(map[string]interface{}{"case": c.name, "x3_terms": x.NumTerms(), "y3_terms": y.NumTerms(), "z3_terms": z.NumTerms(), "fiat_leaf_calls": it.LeafCalls})
			// frame: the argument keeps its value, nothing else is written
			if arg != nil {
				ax, ay, az, why := m.coords(it, arg)
				same := why == "" && ax.Equal(P2.X) && ay.Equal(P2.Y) && az.Equal(P2.Z)
				if !same && why == "" {
					same, _ = samePoint(hyp.pt(pt{ax, ay, az}), hyp.pt(P2), "1", "2")
				}
				r.Check(same, "C02.argument-unchanged", construct, p.Pos(fn.Pos()), "the argument's coordinates are unchanged", "the argument is modified by the operation")
			}
			// the returned pointer is the receiver
			if pr, ok := res.Ret.(absint.Ptr); !ok || pr.C != recv {
				r.Fail("C02.returns-receiver", construct, p.Pos(fn.Pos()), "the method does not return its receiver")
			}
		})
	}
	// nil argument leaves the receiver unchanged
	for _, meth := range []string{"Add", "Subtract"} {
		fn := p.Method(p.Root, "Element", meth)
		if fn == nil {
			continue
		}
		explore(p, absint.Config{}, fn, func(it *absint.Interp) []absint.Value {
			recv := m.newElem(it, "P", P1.X, P1.Y, P1.Z)
			return []absint.Value{ptr(recv), absint.Nil{}}
		}, func(res *absint.PathResult) {
			construct := meth + "(nil)"
			if res.Exit != "return" {
				r.Fail("C02.nil", construct, p.Pos(res.PanicAt), "a nil argument ends with "+res.Exit+" "+res.Abort+" instead of leaving the receiver unchanged")
				return
			}
			var recv *absint.Cell
			for _, c2 := range res.It.InputRoots() {
				recv = c2
			}
			x, y, z, why := m.coords(res.It, recv)
			same := why == "" && x.Equal(P1.X) && y.Equal(P1.Y) && z.Equal(P1.Z)
			r.Check(same, "C02.nil", construct, p.Pos(fn.Pos()), "receiver unchanged", "a nil argument changes the receiver")
		})
	}
	// Negate: -P on every path of its identity guard
	if fn := p.Method(p.Root, "Element", "Negate"); fn != nil {
		n := 0
		explore(p, absint.Config{}, fn, func(it *absint.Interp) []absint.Value {
			return []absint.Value{ptr(m.newElem(it, "P", P1.X, P1.Y, P1.Z))}
		}, func(res *absint.PathResult) {
			n++
			construct := fmt.Sprintf("Negate path %d %s", n, guardString(res))
			if res.Exit != "return" {
				r.Undecided("C02.negate", construct, p.Pos(res.PanicAt), res.Exit+" "+res.Abort)
				return
			}
			var recv *absint.Cell
			for _, c2 := range res.It.InputRoots() {
				recv = c2
			}
			x, y, z, why := m.coords(res.It, recv)
			if why != "" {
				r.Undecided("C02.negate", construct, p.Pos(fn.Pos()), why)
				return
			}
			// on this path some guard literals hold; the result must be (X : -Y : Z) up to representation.
			zIsZero := res.It.ApplyTerm(absint.ISZ(P1.Z))
			k, isC := zIsZero.IsConst()
			if isC && k.Sign() != 0 {
				// identity: any (x : y : 0) represents it
				r.Check(z.IsZero() || z.Equal(P1.Z), "C02.negate", construct, p.Pos(fn.Pos()), "identity stays the identity (z = 0 kept)", "the identity is not preserved")
				return
			}
			ok := x.Equal(P1.X) && y.Equal(P1.Y.Neg()) && z.Equal(P1.Z)
			if !ok {
				ok, _ = samePoint(pt{x, y, z}, negPt(P1), "1")
			}
			if !ok && !isC {
				// a branch-free guard: the result mentions [Z = 0]; decide the two cases separately
				if za := absint.ISZ(P1.Z).SinglePred(); za != nil {
					zv := absint.SymVar(FP, "Z1")
					x0, y0, z0 := x.SubstPred(za, true), y.SubstPred(za, true), z.SubstPred(za, true)
					z0 = absint.NewVarSubst(zv, pInt(FP, 0)).Poly(z0)
					_ = x0
					_ = y0
					x1, y1, z1 := x.SubstPred(za, false), y.SubstPred(za, false), z.SubstPred(za, false)
					ok1 := x1.Equal(P1.X) && y1.Equal(P1.Y.Neg()) && z1.Equal(P1.Z)
					if !ok1 {
						ok1, _ = samePoint(pt{x1, y1, z1}, negPt(P1), "1")
					}
					ok = z0.IsZero() && ok1
				}
			}
			r.Check(ok, "C02.negate", construct, p.Pos(fn.Pos()), "(X : -Y : Z)", fmt.Sprintf("result (%s : %s : %s) is not -P", x, y, z))
		})
		r.RequireCount("C02.negate", "paths through Negate", n, 1)
	} else {
		r.Undecided("C02.anchor", "Negate", "", "method not found")
	}
	// representation closure: Base is on the curve with z = 1 (discovered above), Identity is (0 : c : 0), c != 0
	gy2 := new(big.Int).Exp(baseGy, big.NewInt(2), FP.M)
	gx3 := new(big.Int).Exp(baseGx, big.NewInt(3), FP.M)
	gx3.Add(gx3, curveB).Mod(gx3, FP.M)
	r.Check(gy2.Cmp(gx3) == 0, "C02.closure", "Base()", "", "Base() writes (Gx : Gy : 1) with Gy^2 = Gx^3 + 7", "base point is not on the curve")
	for _, name := range []string{"Identity"} {
		fn := p.Method(p.Root, "Element", name)
		if fn == nil {
			r.Undecided("C02.anchor", name, "", "method not found")
			continue
		}
		explore(p, absint.Config{}, fn, func(it *absint.Interp) []absint.Value {
			return []absint.Value{ptr(m.newElem(it, "P", P1.X, P1.Y, P1.Z))}
		}, func(res *absint.PathResult) {
			if res.Exit != "return" {
				r.Undecided("C02.closure", name+"()", "", res.Exit+" "+res.Abort)
				return
			}
			var recv *absint.Cell
			for _, c2 := range res.It.InputRoots() {
				recv = c2
			}
			x, y, z, why := m.coords(res.It, recv)
			yc, yok := (*big.Int)(nil), false
			if why == "" {
				yc, yok = y.IsConst()
			}
			ok := why == "" && x.IsZero() && z.IsZero() && yok && yc.Sign() != 0
			r.Check(ok, "C02.closure", name+"()", p.Pos(fn.Pos()), "writes (0 : c : 0) with c != 0, the representation of the identity the complete formulas expect", "does not write a valid representation of the identity")
		})
	}
}

func guardString(res *absint.PathResult) string {
	s := "{"
	for i, g := range res.Guards {
		if i > 0 {
			s += ", "
		}
		if !g.Taken {
			s += "not "
		}
		s += g.Cond.String()
	}
	return s + "}"
}
