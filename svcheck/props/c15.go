package props

import (
	"fmt"
	"go/types"
	"sort"
	"strings"

	"golang.org/x/tools/go/ssa"

	"svcheck/effects"
	"svcheck/load"
	"svcheck/report"
)

var frameControls = []struct {
	pkg    string
	expect []string
}{
	{"appendparam", []string{"argwrite", "freshresult"}},
	{"capcapped", nil},
	{"clonefirst", nil},
	{"staticbuf", []string{"freshresult", "globalout"}},
	{"lazyglobal", []string{"globalwrite"}},
	{"argmut", []string{"argwrite"}},
	{"viahelper", []string{"argwrite"}},
	{"sharedcopy", []string{"ptrresult"}},
	{"globalhash", []string{"globalwrite"}},
	{"retainkey", []string{"globalwrite", "retain"}},
}

// runFrameControls analyses the control packages under /verif/controls with
// the same rules; a positive control that is not flagged, or a negative
// control that is, fails the check.
func runFrameControls(r *report.Report, prop string, relevant map[string]bool) {
	dir := r.ControlsDir
	cp, err := load.LoadModule(dir, "controls")
	if err != nil {
		r.Undecided(prop+".control", "load controls", "", err.Error())
		return
	}
	ca := effects.Run(cp)
	for _, c := range frameControls {
		var pkg *ssa.Package
		for _, sp := range cp.ModSSA {
			if sp.Pkg.Path() == "controls/"+c.pkg {
				pkg = sp
			}
		}
		if pkg == nil {
			r.Undecided(prop+".control", c.pkg, "", "control package not found")
			continue
		}
		sr := report.New("ctl", "quick", "other", r.VerifDir)
		frameChecks(cp, ca, pkg, sr, frameOpts{prop: "ctl", argWrites: true, freshBytes: true, ptrResults: true, globals: true})
		got := map[string]bool{}
		for _, o := range sr.Obls {
			if o.Status == report.Violated || o.Status == report.Undecided {
				got[strings.TrimPrefix(o.Rule, "ctl.")] = true
			}
		}
		var gs []string
		for k := range got {
			gs = append(gs, k)
		}
		sort.Strings(gs)
		want := append([]string{}, c.expect...)
		sort.Strings(want)
		// only the rules this property uses are compared
		filter := func(in []string) []string {
			var out []string
			for _, s := range in {
				if relevant == nil || relevant[s] {
					out = append(out, s)
				}
			}
			return out
		}
		g, w := filter(gs), filter(want)
		kind := "positive"
		if len(c.expect) == 0 {
			kind = "negative"
		}
		if strings.Join(g, ",") == strings.Join(w, ",") {
			r.OK(prop+".control", c.pkg, fmt.Sprintf("%s control: rules fired = [%s] as expected", kind, strings.Join(g, ",")))
		} else {
			r.Fail(prop+".control", c.pkg, "", fmt.Sprintf("%s control: rules fired = [%s], expected [%s]: the analyser is broken", kind, strings.Join(g, ","), strings.Join(w, ",")))
		}
	}
}

// moduleHygiene: constructs the effect analysis cannot see through.
func moduleHygiene(p *load.Prog, r *report.Report, prop string) {
	for _, pk := range p.Mod {
		name := strings.TrimPrefix(pk.PkgPath, load.ModPath)
		if name == "" {
			name = "."
		}
		bad := ""
		for imp := range pk.Imports {
			if imp == "unsafe" || imp == "C" {
				bad = imp
			}
		}
		asm := 0
		for _, f := range pk.OtherFiles {
			if strings.HasSuffix(f, ".s") || strings.HasSuffix(f, ".c") || strings.HasSuffix(f, ".S") {
				asm++
			}
		}
		if bad != "" || asm > 0 {
			r.Undecided(prop+".hygiene", "package "+name, "", fmt.Sprintf("imports %q / %d non-Go source file(s): memory effects outside the reach of the SSA analysis", bad, asm))
		} else {
			r.OK(prop+".hygiene", "package "+name, "no unsafe, cgo or assembly: every memory effect is visible in the SSA")
		}
	}
	for _, f := range p.ModFuncs() {
		for _, b := range f.Blocks {
			for _, in := range b.Instrs {
				if g, ok := in.(*ssa.Go); ok {
					r.Undecided(prop+".hygiene", "go statement in "+f.Name(), p.Pos(g.Pos()), "a goroutine is started by library code; the frame argument does not cover it")
				}
			}
		}
	}
}

// C15: API calls never write to caller-owned memory and return fresh buffers.
func C15(p *load.Prog, r *report.Report) {
	r.Explanation = "E2 may-write/may-alias/freshness summaries (flow-insensitive points-to per function, module fixpoint) for every exported function and method of the root package: no write reaches memory reachable from a non-receiver parameter (append counts as a write to its first operand's backing array unless that operand is capacity-capped or fresh), and every returned []byte is a fresh allocation. Positive and negative control packages are analysed in the same run."
	r.Trusted = []string{"go/ssa", "effect models of the external callees listed in svcheck/effects/calls.go (stdlib contracts)", "an external callee without a model fails the check"}
	a := effects.Run(p)
	n := frameChecks(p, a, p.Root, r, frameOpts{prop: "C15", argWrites: true, freshBytes: true})
	r.Analysed["exported_functions"] = n
	r.RequireCount("C15.api", "exported functions and methods of the root package", n, 50)
	moduleHygiene(p, r, "C15")
	runFrameControls(r, "C15", map[string]bool{"argwrite": true, "freshresult": true})
	apiSamples(p, a, r)
}

func apiSamples(p *load.Prog, a *effects.Analysis, r *report.Report) {
	for _, name := range []string{"HashToGroup", "Order"} {
		if f := p.Root.Func(name); f != nil && a.Sums[f] != nil {
			s := a.Sums[f]
			wr := []string{}
			for k := range s.Wr {
				wr = append(wr, k)
			}
			sort.Strings(wr)
			ret := []string{}
			for _, x := range s.Ret {
				for k := range x {
					ret = append(ret, k)
				}
			}
			r.Sample(map[string]interface{}{"function": name, "may_write": wr, "result_roots": ret})
		}
	}
}

// valueOnly reports whether t has no pointer, slice, map, chan, interface or
// func component (zero-length arrays are empty).
func valueOnly(t types.Type) (bool, string) {
	switch u := t.Underlying().(type) {
	case *types.Basic:
		if u.Kind() == types.UnsafePointer {
			return false, "unsafe.Pointer"
		}
		return true, ""
	case *types.Array:
		if u.Len() == 0 {
			return true, ""
		}
		return valueOnly(u.Elem())
	case *types.Struct:
		for i := 0; i < u.NumFields(); i++ {
			if ok, why := valueOnly(u.Field(i).Type()); !ok {
				return false, "field " + u.Field(i).Name() + ": " + why
			}
		}
		return true, ""
	}
	return false, t.String()
}
