package props

import (
	"fmt"
	"go/types"
	"math/big"
	"os"

	"svcheck/absint"
	"svcheck/load"
	"svcheck/report"
)

type tri int

const (
	triUnknown tri = iota
	triTrue
	triFalse
)

func triOf(v, ok bool) tri {
	if !ok {
		return triUnknown
	}
	if v {
		return triTrue
	}
	return triFalse
}

func triAnd(ts ...tri) tri {
	r := triTrue
	for _, t := range ts {
		if t == triFalse {
			return triFalse
		}
		if t == triUnknown {
			r = triUnknown
		}
	}
	return r
}

// byteIs evaluates "byte atom == c" on the path.
func byteIs(it *absint.Interp, name string, c int64) tri {
	b := absint.SymByte(name)
	v, ok := known(it, absint.EQ(it.ApplyTerm(b), absint.TInt(c)))
	return triOf(v, ok)
}

func lenTri(it *absint.Interp, name string, n int64) tri {
	v, ok := lenIs(it, name, n)
	return triOf(v, ok)
}

// symByteArray builds a [n]byte aggregate of symbolic bytes name[i].
func symByteArray(it *absint.Interp, name string, n int) absint.Value {
	o := it.NewArrayObject(types.Typ[types.Uint8], n, name, true)
	for i, c := range o.Root.Kids {
		c.Val = absint.TermV{T: absint.SymByte(fmt.Sprintf("%s[%d]", name, i))}
	}
	return absint.Agg{C: o.Root}
}

type decCase struct {
	meth  string
	input string // "bytes", "hex", "coords"
	forms map[string]bool
}

func elemDecoder(p *load.Prog, r *report.Report, m *elemModel, dc decCase) {
	fn := p.Method(p.Root, "Element", dc.meth)
	if fn == nil {
		r.Undecided("C03.anchor", dc.meth, "", "method not found")
		return
	}
	pos := p.Pos(fn.Pos())
	in := "data"
	if dc.input == "hex" {
		in = "unhex(h)"
	}
	P0 := symPt("0")
	pT := absint.TConst(FP.M)
	seven := pInt(FP, 7)
	// the quantities of each form
	var Xc, Xu, Yu *absint.Term
	if dc.input == "coords" {
		Xu, Yu = os2ip("x", 0, 32), os2ip("y", 0, 32)
	} else {
		Xc = os2ip(in, 1, 32)
		Xu, Yu = os2ip(in, 1, 32), os2ip(in, 33, 32)
	}
	fe := func(t *absint.Term) *absint.Poly { return absint.EmbTerm(FP, t) }
	cube7 := func(x *absint.Poly) *absint.Poly { return x.Mul(x).Mul(x).Add(seven) }
	roots := sqrtMinusZ()
	var sq *absint.Term
	var R [2]*absint.Poly
	if Xc != nil {
		R[0], sq = specSqrtRatio(cube7(fe(Xc)), pInt(FP, 1), roots[0])
		R[1], _ = specSqrtRatio(cube7(fe(Xc)), pInt(FP, 1), roots[1])
	}
	onCurve := absint.ISZ(cube7(fe(Xu)).Sub(fe(Yu).Mul(fe(Yu))))
	npaths, nsucc := 0, map[string]int{}
	explore(p, absint.Config{}, fn, func(it *absint.Interp) []absint.Value {
		recv := m.newElem(it, "recv", P0.X, P0.Y, P0.Z)
		switch dc.input {
		case "hex":
			return []absint.Value{ptr(recv), absint.SymStr{Name: "h"}}
		case "coords":
			return []absint.Value{ptr(recv), symByteArray(it, "x", 32), symByteArray(it, "y", 32)}
		}
		return []absint.Value{ptr(recv), absint.SymBytes(in)}
	}, func(res *absint.PathResult) {
		npaths++
		it := res.It
		// facts of this path
		hexOK := triTrue
		if dc.input == "hex" {
			v, ok := known(it, absint.SymBool("hexvalid(h)"))
			hexOK = triOf(v, ok)
		}
		form := map[string]tri{}
		if dc.input == "coords" {
			form["uncompressed"] = triConj(it, absint.LT(Xu, pT), absint.LT(Yu, pT), onCurve)
		} else {
			form["identity"] = triAnd(hexOK, lenTri(it, in, 1), byteIs(it, in+"[0]", 0))
			pre := triFalse
			for _, c := range []int64{2, 3} {
				switch byteIs(it, in+"[0]", c) {
				case triTrue:
					pre = triTrue
				case triUnknown:
					if pre == triFalse {
						pre = triUnknown
					}
				}
			}
			form["compressed"] = triAnd(hexOK, lenTri(it, in, 33), pre, triConj(it, absint.LT(Xc, pT), sq))
			form["uncompressed"] = triAnd(hexOK, lenTri(it, in, 65), byteIs(it, in+"[0]", 4), triConj(it, absint.LT(Xu, pT), absint.LT(Yu, pT), onCurve))
		}
		accepted := ""
		allFalse := true
		label := ""
		for _, f := range []string{"identity", "compressed", "uncompressed"} {
			if !dc.forms[f] {
				continue
			}
			switch form[f] {
			case triTrue:
				accepted = f
				allFalse = false
			case triUnknown:
				allFalse = false
			}
		}
		label = fmt.Sprintf("#%d", npaths)
		construct := fmt.Sprintf("%s path %s", dc.meth, label)
		if accepted != "" {
			construct = fmt.Sprintf("%s path {canonical %s encoding}", dc.meth, accepted)
		}
		if res.Exit == "panic" {
			r.Fail("C03.nopanic", construct, p.Pos(res.PanicAt), "the decoder can panic on this input class: "+absint.Show(res.Panic)+" "+guardString(res))
			return
		}
		if res.Exit != "return" {
			r.Undecided("C03.decode", construct, pos, res.Abort)
			return
		}
		for _, e := range eventsOf(res, "bounds") {
			r.Fail("C03.nopanic", construct+" (bounds)", p.Pos(e.Pos), e.Msg)
		}
		if reportEvents(p, r, "C03.decode", construct, res) {
			return
		}
		_, isNil, ok := errIdentity(res.Ret)
		if !ok {
			r.Undecided("C03.decode", construct, pos, "result is "+absint.Show(res.Ret))
			return
		}
		x, y, z, why := m.coords(it, it.InputRoots()[0])
		if why == "" && isNil {
			// a decoder may compute the candidate first and test validity afterwards: what the path learned at the test
			// applies to the value stored before it
			x, y, z = it.DeepApplyPoly(x), it.DeepApplyPoly(y), it.DeepApplyPoly(z)
		}
		if !isNil {
			// rejection: must be justified, receiver unchanged
			if !allFalse {
				r.Fail("C03.reject", fmt.Sprintf("%s rejecting path %s", dc.meth, shortGuards(res)), pos, "the decoder rejects although the path constraints do not exclude a canonical encoding: "+guardString(res))
			}
			if why != "" || !x.Equal(P0.X) || !y.Equal(P0.Y) || !z.Equal(P0.Z) {
				r.Fail("C03.unchanged", fmt.Sprintf("%s rejecting path %s", dc.meth, shortGuards(res)), pos, "the receiver is modified although the input is rejected: "+guardString(res))
			}
			nsucc["reject-ok"]++
			return
		}
		if accepted == "" {
			r.Fail("C03.accept", fmt.Sprintf("%s accepting path %s", dc.meth, shortGuards(res)), pos, "the decoder accepts an input that the path constraints do not show to be a canonical encoding of a curve point (a check is missing): "+guardString(res))
			return
		}
		nsucc[accepted]++
		if why != "" {
			r.Undecided("C03.state", construct, pos, why)
			return
		}
		one := pInt(FP, 1)
		switch accepted {
		case "identity":
			yc, yok := y.IsConst()
			r.Check(x.IsZero() && z.IsZero() && yok && yc.Sign() != 0, "C03.state", construct, pos, "receiver = identity (0:c:0)", "the identity encoding does not set the identity")
		case "compressed":
			pfx, _ := it.ApplyTerm(absint.SymByte(in + "[0]")).IsConst()
			good := false
			if pfx != nil {
				b := boolTermOf(pfx.Bit(0) == 1)
				for _, Rk := range R {
					Rk = it.DeepApplyPoly(Rk)
					cond := absint.PXor(sgn0(Rk), b)
					want := cmov(Rk, Rk.Neg(), cond)
					if x.Equal(fe(Xc)) && y.Equal(want) && z.Equal(one) {
						good = true
					}
				}
			}
			if !good && os.Getenv("SVDEBUG") != "" && pfx != nil {
				b := boolTermOf(pfx.Bit(0) == 1)
				cond := absint.PXor(sgn0(R[0]), b)
				want := cmov(R[0], R[0].Neg(), cond)
				fmt.Fprintf(os.Stderr, "GOT  %s\nWANT %s\nxeq=%v zeq=%v\n", y.String(), want.String(), x.Equal(fe(Xc)), z.Equal(one))
				fmt.Fprintf(os.Stderr, "GUARDS %s\n", guardString(res))
				fmt.Fprintf(os.Stderr, "APPLIED y %d -> %d terms; preds %d; assumed %s\n", y.NumTerms(), it.ApplyPoly(y).NumTerms(), len(y.PredAtoms()), it.AssumedString())
				fmt.Fprintf(os.Stderr, "NT got=%d want=%d diff=%d\n", y.NumTerms(), want.NumTerms(), y.Sub(want).NumTerms())
				for _, Rk := range R {
					for _, bb := range []bool{false, true} {
						w2 := cmov(Rk, Rk.Neg(), absint.PXor(sgn0(Rk), boolTermOf(bb)))
						fmt.Fprintf(os.Stderr, "  variant diff=%d  negdiff=%d\n", y.Sub(w2).NumTerms(), y.Add(w2).NumTerms())
					}
				}
				fmt.Fprintf(os.Stderr, "DIFF %s\n", y.Sub(want).String())
			}
			r.Check(good, "C03.state", fmt.Sprintf("%s prefix %v", construct, pfx), pos, "receiver = (x : the root of x^3+7 whose parity is the prefix bit : 1)", fmt.Sprintf("after a successful decode the receiver is not the encoded point: y = %s", y))
		case "uncompressed":
			r.Check(x.Equal(fe(Xu)) && y.Equal(fe(Yu)) && z.Equal(one), "C03.state", construct, pos, "receiver = (x : y : 1)", "after a successful decode the receiver is not the encoded point")
		}
	})
	for f := range dc.forms {
		r.Check(nsucc[f] >= 1, "C03.form", dc.meth+" accepts "+f, pos, fmt.Sprintf("%d accepting path(s)", nsucc[f]), "no path accepts the canonical "+f+" form: the decoder rejects valid encodings")
	}
	r.Analysed["paths("+dc.meth+")"] = npaths
}

func boolTermOf(b bool) *absint.Term {
	if b {
		return absint.TInt(1)
	}
	return absint.TInt(0)
}

// shortGuards is a compact, order-independent key of a path: the number of guards taken and not taken.
func shortGuards(res *absint.PathResult) string {
	s := ""
	for _, g := range res.Guards {
		if g.Taken {
			s += "1"
		} else {
			s += "0"
		}
	}
	return "[" + s + "]"
}

// C03: element decoders accept exactly the canonical encodings of curve points.
func C03(p *load.Prog, r *report.Report) {
	r.Explanation = "E1 guard-set enumeration: each of the six decoders is interpreted on a symbolic input (byte string of symbolic length, hex string, or two 32-byte arrays) with an arbitrary prior receiver; every path to a return or panic is enumerated. The literals the property is made of - len = 1/33/65, prefix byte value, X < p and Y < p (the borrow of the 4-limb subtraction against p's limbs as found in the code, summarised as LT(OS2IP(..), p)), 'x^3+7 is a square' (the isQR predicate of RFC 9380's sqrt_ratio evaluated on x^3+7), 'y^2 = x^3+7' - are evaluated under the path's assumptions. A path that returns nil must make one allowed form's literals all true (no missing check) and leave the receiver equal to the encoded point (prefix parity selects the root); a path that returns an error must make every allowed form false (no over-rejection), and must leave the receiver unchanged; no path may panic and every index/slice is within the bounds implied by the path's length literal."
	r.Trusted = []string{"Fiat leaf specifications", "RFC 9380 sqrt_ratio decides squareness and returns a square root (q = 3 mod 4)", "a curve point is determined by x and the parity of y (y != 0 on secp256k1)", "encoding/hex, go/ssa"}
	m, err := discoverModel(p)
	if err != nil {
		r.Undecided("C03.model", "layout", "", err.Error())
		return
	}
	m.stateGuard(r, "C03", true, false)
	all := map[string]bool{"identity": true, "compressed": true, "uncompressed": true}
	elemDecoder(p, r, m, decCase{"Decode", "bytes", all})
	elemDecoder(p, r, m, decCase{"UnmarshalBinary", "bytes", all})
	elemDecoder(p, r, m, decCase{"DecodeHex", "hex", all})
	elemDecoder(p, r, m, decCase{"DecodeCompressed", "bytes", map[string]bool{"compressed": true}})
	elemDecoder(p, r, m, decCase{"DecodeUncompressed", "bytes", map[string]bool{"uncompressed": true}})
	elemDecoder(p, r, m, decCase{"DecodeCoordinates", "coords", map[string]bool{"uncompressed": true}})
	_ = big.NewInt
}
