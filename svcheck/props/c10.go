package props

import (
	"svcheck/effects"
	"svcheck/load"
	"svcheck/report"
)

// C10 (structural part): frame + independence + closure for every exported operation.
func C10(p *load.Prog, r *report.Report) {
	r.Explanation = "Decides the structural necessary conditions of the history property, not the history behaviour itself: for each exported function (frame) writes reach only the receiver and fresh memory, (independence) pointer results are the receiver or fresh, constructors/Copy/Base/hash results are fresh, Element/Scalar/field.Element contain no pointer, slice, map, chan, func or interface (so Set/Copy/assignment cannot share storage), (closure) package-level state is never written after init. With the per-operation functional correctness decided by C01-C09, C13, C14 for every input value and representation (their drivers are re-run here and their failures are failures of C10), agreement of any finite history with the abstract model follows by induction on the history (prose, DESIGN.md section 3 C10); that induction step is not mechanised."
	r.NotDecided = []string{"functional correctness of each operation (decided by C01-C09, C13, C14, not here)", "the induction over histories (prose argument)"}
	r.Trusted = []string{"go/ssa", "stdlib effect models", "induction over the history given per-operation correctness + frame"}
	a := effects.Run(p)
	n := frameChecks(p, a, p.Root, r, frameOpts{prop: "C10", argWrites: true, ptrResults: true, globals: true})
	r.Analysed["exported_functions"] = n
	r.RequireCount("C10.api", "exported functions and methods of the root package", n, 50)
	for _, tn := range []struct {
		pkg  string
		name string
	}{{"root", "Element"}, {"root", "Scalar"}, {"field", "Element"}} {
		sp := p.Root
		if tn.pkg == "field" {
			sp = p.Field
		}
		t := sp.Type(tn.name)
		construct := tn.pkg + "." + tn.name
		if t == nil {
			r.Undecided("C10.shape", construct, "", "type not found")
			continue
		}
		ok, why := valueOnly(t.Type())
		r.Check(ok, "C10.shape", construct, p.Pos(t.Pos()), "value-only type: assignment, Set and Copy cannot make two variables share storage", "type has a reference component ("+why+"): copies may share storage")
	}
	moduleHygiene(p, r, "C10")
	// per-operation functional correctness: the hypotheses of the induction over histories
	for _, d := range []struct {
		id string
		f  func(*load.Prog, *report.Report)
	}{{"C01", C01}, {"C02", C02}, {"C03", C03}, {"C04", C04}, {"C05", C05}, {"C06", C06}, {"C07", C07}, {"C08", C08}, {"C09", C09}, {"C13", C13}, {"C14", C14}} {
		switch d.id {
		case "C08":
			// the model only needs hashing to produce a valid element as a function of its arguments; which RFC bytes are hashed is C08's business
			inherit(p, r, "C10", d.id, d.f, "C08.inputs-readonly", "C08.composition", "C08.inherited", "C08.total", "C08.model", "C08.anchor")
		case "C09":
			inherit(p, r, "C10", d.id, d.f, "C09.inputs-readonly", "C09.total", "C09.model", "C09.anchor")
		default:
			inherit(p, r, "C10", d.id, d.f)
		}
	}
	runFrameControls(r, "C10", map[string]bool{"argwrite": true, "ptrresult": true, "globalwrite": true})
	apiSamples(p, a, r)
}
