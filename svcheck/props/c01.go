package props

import (
	"fmt"
	"math/big"
	"os"
	"strings"

	"svcheck/absint"
	"svcheck/load"
	"svcheck/report"
)

// C01: scalar multiplication equals k-fold addition.
func C01(p *load.Prog, r *report.Report) {
	r.Explanation = "E1 group-domain constant propagation: Element.Multiply is interpreted with the receiver a symbolic point P (formal coordinates) and the scalar a symbolic k. Functions of the root package that perform group arithmetic are found by their polynomial summaries (the RCB addition / doubling polynomials, see C02) and applied at the level of formal sums Σ T_i·S_i with T_i in Z[bit atoms]; everything else (copies, set, the bit expansion, the ladder's control flow) is the real code. The 256 data-dependent ladder branches are joined (ite on cells), so the final receiver is one formal sum; it must be exactly [Σ_{i<256} 2^i·BIT(Canon(k), i)]·P = [k]P. The k = 1 shortcut and the nil scalar are separate paths. The group law itself (all representations, aliasing) is C02's obligation and is re-run here."
	r.Trusted = []string{"C02's trusted base (Fiat leaves, RCB completeness)", "go/ssa"}
	m, err := discoverModel(p)
	if err != nil {
		r.Undecided("C01.model", "layout", "", err.Error())
		return
	}
	m.stateGuard(r, "C01", true, true)
	fn := p.Method(p.Root, "Element", "Multiply")
	if fn == nil {
		r.Undecided("C01.anchor", "(*Element).Multiply", "", "method not found")
		return
	}
	pos := p.Pos(fn.Pos())
	d := newGroupDomain(m)
	sums, desc := groupSummaries(p, m, d, fn)
	r.Analysed["group_operations_found"] = desc
	hasAdd, hasDbl := false, false
	for _, s := range desc {
		if strings.Contains(s, "add(") {
			hasAdd = true
		}
		if strings.Contains(s, "double(") {
			hasDbl = true
		}
	}
	r.Check(hasAdd && hasDbl, "C01.grouplaw", "classified group operations", pos, fmt.Sprintf("%d functions of the root package compute the RCB addition/doubling polynomials: %s", len(desc), strings.Join(desc, " | ")), "no function computing the complete addition and doubling polynomials was found")
	k := absint.FieldSym(FN, "k")
	canon := absint.CanonOf(FN, k)
	P := gelt{"P": absint.TInt(1)}
	want := absint.TInt(0)
	for i := 0; i < 256; i++ {
		want = want.Add(absint.BIT(canon, i).Scale(new(big.Int).Lsh(big.NewInt(1), uint(i))))
	}
	npaths := 0
	explore(p, absint.Config{Summaries: sums}, fn, func(it *absint.Interp) []absint.Value {
		c := d.coordsOf(P)
		recv := m.newElem(it, "P", c[0], c[1], c[2])
		return []absint.Value{ptr(recv), ptr(m.newScalar(it, "k", k))}
	}, func(res *absint.PathResult) {
		npaths++
		construct := fmt.Sprintf("Multiply(P,k) path %s", guardString(res))
		if res.Exit != "return" {
			r.Undecided("C01.ladder", construct, p.Pos(res.PanicAt), "path ends with "+res.Exit+": "+res.Abort)
			return
		}
		if reportEvents(p, r, "C01.ladder", construct, res) {
			return
		}
		it := res.It
		recv := it.InputRoots()[0]
		x, y, z, why := m.coords(it, recv)
		if why != "" {
			r.Undecided("C01.ladder", construct, pos, why)
			return
		}
		g, w := d.decode(x, y, z)
		if w != "" {
			r.Undecided("C01.ladder", construct, pos, "receiver is not a formal group element: "+w)
			return
		}
		// a path that assumes the receiver is the identity (its formal z coordinate is zero): [k]O = O, any multiple of P is right
		if pz, dec := known(it, absint.ISZ(d.coordsOf(P)[2])); dec && pz {
			onlyP := true
			for name := range g {
				if name != "P" {
					onlyP = false
				}
			}
			r.Check(onlyP, "C01.identity-path", construct, pos, "on a path where P is the identity the receiver is a multiple of P, i.e. the identity", "on a path where P is the identity the receiver is "+g.String())
			return
		}
		// what does this path assume about k?
		isOne := it.ApplyTerm(absint.ISZ(k.Sub(pInt(FN, 1))))
		coef := g["P"]
		if coef == nil {
			coef = absint.TInt(0)
		}
		extra := len(g) > 1 || (len(g) == 1 && g["P"] == nil)
		if c, ok := isOne.IsConst(); ok && c.Sign() != 0 {
			// shortcut path: k = 1
			c1, isC := coef.IsConst()
			r.Check(!extra && isC && c1.Cmp(big.NewInt(1)) == 0, "C01.shortcut", "Multiply(P,k) with k = 1", pos, "receiver = 1·P", "on the k = 1 path the receiver is "+g.String())
			return
		}
		if len(res.Guards) > 0 {
			// any other early path must still be [k]P under its guard; the only guard the analysis can evaluate is k = 1
			for _, gd := range res.Guards {
				if gd.Taken && !strings.Contains(gd.Cond.String(), "ISZ") {
					r.Undecided("C01.ladder", construct, p.Pos(gd.Pos), "unexpected data-dependent path in Multiply: "+gd.Cond.String())
				}
			}
		}
		// the path's own assumptions about k (e.g. a k = 0 shortcut) apply to both sides
		coefP, wantP := it.DeepApplyTerm(coef), it.DeepApplyTerm(want)
		diff := coefP.Sub(wantP)
		if dc, ok := diff.IsConst(); !(ok && dc.Sign() == 0) {
			// a fixed-window multiplication sees k as base-2^w digits: compare in the basis of its digit tests
			d2 := absint.CompleteFamilies(coefP).Sub(absint.DigitBasis(wantP, coefP))
			if dc2, ok2 := d2.IsConst(); ok2 && dc2.Sign() == 0 {
				diff = d2
			} else if os.Getenv("SVDEBUG") != "" {
				fmt.Fprintf(os.Stderr, "DIGITDIFF %s\n", d2)
			}
		}
		if dc, ok := diff.IsConst(); ok && dc.Sign() == 0 && !extra {
			r.OK("C01.ladder", "Multiply(P,k) ladder", "receiver = [Σ_{i<256} 2^i·BIT(Canon(k),i)]·P = [k]P; 256 joined ladder steps")
		} else {
			r.Fail("C01.ladder", "Multiply(P,k) ladder", pos, fmt.Sprintf("receiver is [%s]·P; it differs from [k]P = [Σ_{i<256} 2^i·BIT(Canon(k),i)]·P by the coefficient %s (terms of k that the ladder never sees, or sees with the wrong weight)", coef, diff))
		}
		r.Sample(map[string]interface{}{"path": guardString(res), "coefficient_of_P": coef.String(), "leaf_calls": it.LeafCalls})
		// frame: the scalar is unchanged
		if sv, why := m.scalarVal(it, it.InputRoots()[1]); why != "" || !sv.Equal(k) {
			r.Fail("C01.frame", "Multiply(P,k) scalar operand", pos, "the scalar operand is modified")
		}
	})
	r.RequireCount("C01.paths", "paths through Multiply (shortcut + ladder)", npaths, 1)
	// nil scalar: identity
	explore(p, absint.Config{Summaries: sums}, fn, func(it *absint.Interp) []absint.Value {
		c := d.coordsOf(P)
		return []absint.Value{ptr(m.newElem(it, "P", c[0], c[1], c[2])), absint.Nil{}}
	}, func(res *absint.PathResult) {
		if res.Exit != "return" {
			r.Fail("C01.nil", "Multiply(P,nil)", p.Pos(res.PanicAt), "a nil scalar ends with "+res.Exit+" "+res.Abort+" instead of yielding the identity")
			return
		}
		x, y, z, why := m.coords(res.It, res.It.InputRoots()[0])
		yc, yok := (*big.Int)(nil), false
		if why == "" {
			yc, yok = y.IsConst()
		}
		r.Check(why == "" && x.IsZero() && z.IsZero() && yok && yc.Sign() != 0, "C01.nil", "Multiply(P,nil)", pos, "receiver = identity (0:c:0)", "a nil scalar does not yield the identity")
	})
	// inherited: bit expansion (C14) — cited, decided there and re-evaluated here
	entries, n, problems := bitsOf(p, m, k)
	bad := len(problems) > 0 || n != 256
	for i, e := range entries {
		if e == nil || !e.Equal(absint.BIT(canon, i)) {
			bad = true
		}
	}
	if bad {
		r.Fail("C01.bits", "(*Scalar).Bits (inherited from C14)", "", "the bit expansion driving the ladder is not the binary representation of the canonical scalar (see C14)")
	} else {
		r.OK("C01.bits", "(*Scalar).Bits (inherited from C14)", "entry i = BIT(Canon(k), i) for all 256 positions")
	}
}
