package props

import (
	"fmt"
	"go/build/constraint"
	"go/types"
	"io/fs"
	"os"
	"path/filepath"
	"sort"
	"strings"

	"golang.org/x/tools/go/ssa"

	"svcheck/imports"
	"svcheck/load"
	"svcheck/report"
)

// configurations of the C17 matrix (thorough tier).
var c17Matrix = [][]string{
	{"GOOS=linux", "GOARCH=amd64"},
	{"GOOS=linux", "GOARCH=386"},
	{"GOOS=linux", "GOARCH=arm64"},
	{"GOOS=windows", "GOARCH=amd64"},
	{"GOOS=darwin", "GOARCH=arm64"},
	{"GOOS=js", "GOARCH=wasm"},
	{"GOOS=linux", "GOARCH=amd64", "GOFLAGS=-mod=mod -tags=purego"},
}

// C17: hashing works in any importing program.
func C17(p *load.Prog, r *report.Report) {
	r.Explanation = "E6 import-closure rule: every (crypto.Hash).New(<id>) site reachable from HashToGroup/EncodeToGroup/HashToScalar must have a registrant of <id> (a call crypto.RegisterHash(<id>,…) in an init function) inside the import closure of the package itself; direct constructors of an imported package are linked by construction."
	r.Trusted = []string{"go/packages import graph = what the linker links", "crypto.RegisterHash/(crypto.Hash).New contract of the standard library", "go/ssa call resolution"}
	c17One(p, r, "host")
	c17Iface(p, r)
	// "whatever else the program does" includes earlier calls of the same functions, also those that panicked (the
	// documented empty-DST panic is recovered by callers): no path may poison state shared between calls
	inherit(p, r, "C17", "C08", C08, "C08.poolstate")
	inherit(p, r, "C17", "C09", C09, "C09.poolstate")
	// build tags the module's own files are conditioned on (other than operating systems and architectures): the
	// linkage rule must hold with each of them set, since the importing program chooses (-tags, -race)
	tags := moduleBuildTags(p.Dir)
	r.Analysed["module_build_tags"] = len(tags)
	type cfgT struct {
		name string
		env  []string
	}
	var cfgs []cfgT
	for _, t := range tags {
		switch {
		case t == "boringcrypto":
			// go/build treats the tag boringcrypto as goexperiment.boringcrypto: it is set by GOEXPERIMENT, not by -tags
			cfgs = append(cfgs, cfgT{"GOEXPERIMENT=boringcrypto", []string{"GOEXPERIMENT=boringcrypto"}})
		case strings.HasPrefix(t, "goexperiment."):
			x := strings.TrimPrefix(t, "goexperiment.")
			cfgs = append(cfgs, cfgT{"GOEXPERIMENT=" + x, []string{"GOEXPERIMENT=" + x}})
		default:
			cfgs = append(cfgs, cfgT{"tags=" + t, []string{"GOFLAGS=-mod=mod -tags=" + t}})
		}
	}
	// operating systems and architectures the module's files are conditioned on (//go:build or file-name suffix):
	// one configuration per value named, and one that none of them names
	for _, pf := range modulePlatforms(p.Dir) {
		cfgs = append(cfgs, cfgT{strings.Join(pf, " "), pf})
	}
	r.Analysed["module_platform_configs"] = len(cfgs) - len(tags)
	for _, c := range cfgs {
		name := c.name
		q, err := load.Load(p.Dir, c.env...)
		if err != nil {
			r.Undecided("C17.load", name, "", err.Error())
			continue
		}
		c17One(q, r, name)
	}
	if r.Tier == "thorough" {
		for _, cfg := range c17Matrix {
			name := fmt.Sprint(cfg)
			q, err := load.Load(p.Dir, cfg...)
			if err != nil {
				r.Undecided("C17.load", name, "", err.Error())
				continue
			}
			c17One(q, r, name)
		}
	}
}

var platOS = strings.Fields("aix android darwin dragonfly freebsd illumos ios js linux netbsd openbsd plan9 solaris wasip1 windows")
var platArch = strings.Fields("386 amd64 arm arm64 loong64 mips mipsle mips64 mips64le ppc64 ppc64le riscv64 s390x wasm")

// a valid architecture for each operating system, and the operating systems an architecture is paired with
var platPair = map[string]string{"aix": "ppc64", "android": "arm64", "darwin": "arm64", "dragonfly": "amd64", "freebsd": "amd64", "illumos": "amd64", "ios": "arm64", "js": "wasm", "linux": "amd64", "netbsd": "amd64", "openbsd": "amd64", "plan9": "amd64", "solaris": "amd64", "wasip1": "wasm", "windows": "amd64", "wasm": "js"}

// modulePlatforms returns GOOS/GOARCH configurations that exercise every operating system and architecture named
// in a build constraint or file-name suffix of the module's non-test files, plus one that none of them names.
func modulePlatforms(dir string) [][]string {
	named := map[string]bool{}
	isOS, isArch := map[string]bool{}, map[string]bool{}
	for _, x := range platOS {
		isOS[x] = true
	}
	for _, x := range platArch {
		isArch[x] = true
	}
	isOS["unix"] = true
	filepath.WalkDir(dir, func(path string, d fs.DirEntry, err error) error {
		if err != nil {
			return nil
		}
		if d.IsDir() {
			if n := d.Name(); path != dir && (strings.HasPrefix(n, ".") || n == "testdata" || n == "vendor") {
				return filepath.SkipDir
			}
			return nil
		}
		if !strings.HasSuffix(path, ".go") || strings.HasSuffix(path, "_test.go") {
			return nil
		}
		parts := strings.Split(strings.TrimSuffix(filepath.Base(path), ".go"), "_")
		for i, x := range parts {
			if i > 0 && i >= len(parts)-2 && (isOS[x] || isArch[x]) && x != "unix" {
				named[x] = true
			}
		}
		data, err := os.ReadFile(path)
		if err != nil {
			return nil
		}
		for _, line := range strings.Split(string(data), "\n") {
			line = strings.TrimSpace(line)
			if strings.HasPrefix(line, "package ") {
				break
			}
			if !strings.HasPrefix(line, "//go:build ") {
				continue
			}
			expr, err := constraint.Parse(line)
			if err != nil {
				continue
			}
			var walk func(e constraint.Expr)
			walk = func(e constraint.Expr) {
				switch x := e.(type) {
				case *constraint.TagExpr:
					if isOS[x.Tag] || isArch[x.Tag] {
						named[x.Tag] = true
					}
				case *constraint.NotExpr:
					walk(x.X)
				case *constraint.AndExpr:
					walk(x.X)
					walk(x.Y)
				case *constraint.OrExpr:
					walk(x.X)
					walk(x.Y)
				}
			}
			walk(expr)
		}
		return nil
	})
	if len(named) == 0 {
		return nil
	}
	var out [][]string
	var keys []string
	for k := range named {
		keys = append(keys, k)
	}
	sort.Strings(keys)
	for _, k := range keys {
		switch {
		case k == "unix":
			out = append(out, []string{"GOOS=linux", "GOARCH=amd64"}, []string{"GOOS=windows", "GOARCH=amd64"})
		case isOS[k]:
			out = append(out, []string{"GOOS=" + k, "GOARCH=" + platPair[k]})
		case k == "wasm":
			out = append(out, []string{"GOOS=js", "GOARCH=wasm"})
		default:
			out = append(out, []string{"GOOS=linux", "GOARCH=" + k})
		}
	}
	// a configuration none of the constraints names
	for _, o := range []string{"linux", "windows", "darwin", "freebsd", "openbsd"} {
		done := false
		for _, a := range []string{"amd64", "arm64"} {
			if !named[o] && !named[a] && !(named["unix"] && o != "windows") {
				out = append(out, []string{"GOOS=" + o, "GOARCH=" + a})
				done = true
				break
			}
		}
		if done {
			break
		}
	}
	if len(out) > 8 {
		out = out[:8]
	}
	return out
}

// moduleBuildTags lists the custom tags named in //go:build lines of the module's non-test files.
func moduleBuildTags(dir string) []string {
	known := map[string]bool{"cgo": true, "gc": true, "gccgo": true, "ignore": true, "unix": true, "purego_off": true}
	for _, x := range strings.Fields("aix android darwin dragonfly freebsd hurd illumos ios js linux nacl netbsd openbsd plan9 solaris wasip1 windows zos 386 amd64 amd64p32 arm armbe arm64 arm64be loong64 mips mipsle mips64 mips64le mips64p32 mips64p32le ppc ppc64 ppc64le riscv riscv64 s390 s390x sparc sparc64 wasm") {
		known[x] = true
	}
	seen := map[string]bool{}
	filepath.WalkDir(dir, func(path string, d fs.DirEntry, err error) error {
		if err != nil {
			return nil
		}
		if d.IsDir() {
			if n := d.Name(); path != dir && (strings.HasPrefix(n, ".") || n == "testdata" || n == "vendor") {
				return filepath.SkipDir
			}
			return nil
		}
		if !strings.HasSuffix(path, ".go") || strings.HasSuffix(path, "_test.go") {
			return nil
		}
		data, err := os.ReadFile(path)
		if err != nil {
			return nil
		}
		for _, line := range strings.Split(string(data), "\n") {
			line = strings.TrimSpace(line)
			if strings.HasPrefix(line, "package ") {
				break
			}
			if !strings.HasPrefix(line, "//go:build ") {
				continue
			}
			expr, err := constraint.Parse(line)
			if err != nil {
				continue
			}
			expr.Eval(func(tag string) bool {
				if !known[tag] && !strings.HasPrefix(tag, "go1.") {
					seen[tag] = true
				}
				return false
			})
			// Eval short-circuits: walk all tags
			var walk func(e constraint.Expr)
			walk = func(e constraint.Expr) {
				switch x := e.(type) {
				case *constraint.TagExpr:
					if !known[x.Tag] && !strings.HasPrefix(x.Tag, "go1.") {
						seen[x.Tag] = true
					}
				case *constraint.NotExpr:
					walk(x.X)
				case *constraint.AndExpr:
					walk(x.X)
					walk(x.Y)
				case *constraint.OrExpr:
					walk(x.X)
					walk(x.Y)
				}
			}
			walk(expr)
		}
		return nil
	})
	var out []string
	for t := range seen {
		out = append(out, t)
	}
	sort.Strings(out)
	if len(out) > 6 {
		out = out[:6]
	}
	return out
}

// c17Iface: a hash obtained from the registry may be any registered implementation; the code must use it
// through hash.Hash only.  A type assertion / conversion to another interface on such a value makes the
// functions depend on which provider the program registered.
func c17Iface(p *load.Prog, r *report.Report) {
	n := 0
	for _, fn := range p.ModFuncs() {
		for _, b := range fn.Blocks {
			for _, in := range b.Instrs {
				var x ssa.Value
				what := ""
				switch t := in.(type) {
				case *ssa.TypeAssert:
					x, what = t.X, "type assertion to "+t.AssertedType.String()
				case *ssa.ChangeInterface:
					// widening to an interface with more methods is impossible without an assertion; narrowing is harmless
					continue
				}
				if x == nil {
					continue
				}
				if n2, ok := x.Type().(*types.Named); ok && n2.Obj().Pkg() != nil && n2.Obj().Pkg().Path() == "hash" {
					n++
					r.Fail("C17.provider", fn.Name()+": "+what, p.Pos(in.Pos()), "a hash.Hash value is "+what+": the registry may hold any implementation (another package of the program can register its own), so this panics or misbehaves in programs whose provider lacks that type")
				}
			}
		}
	}
	if n == 0 {
		r.OK("C17.provider", "hash values are used through hash.Hash only", "no type assertion on a hash.Hash value in the module")
	}
}

func c17One(p *load.Prog, r *report.Report, cfg string) {
	res, err := imports.Analyse(p)
	if err != nil {
		r.Undecided("C17.analyse", cfg, "", err.Error())
		return
	}
	r.Analysed["closure_packages["+cfg+"]"] = res.ClosureSize
	bySite := map[string]imports.Lookup{}
	for _, lk := range res.Lookups {
		bySite[lk.Fn.String()+"|"+lk.Callee] = lk
	}
	// every entry point must reach at least one hash constructor and all it reaches must be linked
	for _, ep := range []string{"HashToGroup", "EncodeToGroup", "HashToScalar"} {
		fn := p.Root.Func(ep)
		if fn == nil {
			r.Undecided("C17.anchor", ep+" ["+cfg+"]", "", "exported function not found")
			continue
		}
		reach := p.Reachable(fn)
		n := 0
		var keys []string
		for k := range bySite {
			keys = append(keys, k)
		}
		sort.Strings(keys)
		for _, k := range keys {
			lk := bySite[k]
			if !reach[lk.Fn] {
				continue
			}
			n++
			construct := fmt.Sprintf("%s -> %s in %s [%s]", ep, lk.Callee, lk.Fn.Name(), cfg)
			switch {
			case lk.Kind == "dynamic":
				r.Undecided("C17.link", construct, lk.Pos, "hash constructor is not statically resolved")
			case lk.Kind == "registry" && lk.HashID < 0:
				r.Undecided("C17.link", construct, lk.Pos, "registry lookup with a non-constant hash id")
			case !lk.Linked:
				r.Fail("C17.link", construct, lk.Pos, fmt.Sprintf("registry lookup of hash #%d, but no package in the import closure (%d packages) calls crypto.RegisterHash(%d, …) from an init function: a program importing only this package panics with \"requested hash function #%d is unavailable\"", lk.HashID, res.ClosureSize, lk.HashID, lk.HashID))
			default:
				r.OK("C17.link", construct, fmt.Sprintf("%s constructor; implementation linked through %s", lk.Kind, lk.Registrar))
				r.Sample(map[string]interface{}{"entry": ep, "site": lk.Pos, "kind": lk.Kind, "hash_id": lk.HashID, "registrar": lk.Registrar, "config": cfg})
			}
		}
		if n == 0 {
			r.Fail("C17.reach", ep+" ["+cfg+"]", p.Pos(fn.Pos()), "no hash constructor is reachable from this entry point: the rule would pass vacuously")
		}
	}
}
