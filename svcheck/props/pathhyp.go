package props

import (
	"strings"

	"svcheck/absint"
)

// pathHyp turns the assumptions of an enumerated path into substitutions on the symbolic points
// (X<s>:Y<s>:Z<s>).  The only assumptions understood are zero tests of a z coordinate: on a path that
// assumes Z<s> = 0 the operand is the identity, whose valid representations are (0:c:0) with c != 0
// (C02's closure clause), so X<s> := 0 and [Y<s> = 0] := false as well.  ok is false when the path
// assumes something else about the operands (the comparison is then undecided).
type pathHyp struct {
	subs []*absint.Subst
	ok   bool
	desc []string
}

func newPathHyp(it *absint.Interp, suffixes ...string) *pathHyp {
	h := &pathHyp{ok: true}
	for _, as := range it.Assumptions() {
		a, v := as.Atom, as.Val
		name := absint.IszVarName(a)
		if name == "" {
			// assumptions about other things (lengths, bytes, …) do not concern the points
			if absint.MentionsFieldSymbol(a) {
				h.ok = false
				h.desc = append(h.desc, "unrecognised assumption "+a.String())
			}
			continue
		}
		sfx := ""
		isZ := false
		for _, s := range suffixes {
			if name == "Z"+s {
				sfx, isZ = s, true
			}
		}
		if !isZ {
			h.ok = false
			h.desc = append(h.desc, "assumption on "+name)
			continue
		}
		if v {
			zero := pInt(FP, 0)
			h.subs = append(h.subs, absint.NewVarSubst(absint.SymVar(FP, "Z"+sfx), zero))
			h.subs = append(h.subs, absint.NewVarSubst(absint.SymVar(FP, "X"+sfx), zero))
			if ya := absint.SubstAtomOf(absint.ISZ(absint.FieldSym(FP, "Y"+sfx))); ya != nil {
				h.subs = append(h.subs, absint.NewSubst(ya, false))
			}
			h.desc = append(h.desc, "operand "+sfx+" is the identity")
		} else {
			if za := absint.SubstAtomOf(absint.ISZ(absint.FieldSym(FP, "Z"+sfx))); za != nil {
				h.subs = append(h.subs, absint.NewSubst(za, false))
			}
			h.desc = append(h.desc, "operand "+sfx+" is not the identity")
		}
	}
	return h
}

func (h *pathHyp) poly(p *absint.Poly) *absint.Poly {
	for _, s := range h.subs {
		p = s.Poly(p)
	}
	return p
}

func (h *pathHyp) term(t *absint.Term) *absint.Term {
	for _, s := range h.subs {
		t = s.Term(t)
	}
	return t
}

func (h *pathHyp) pt(p pt) pt { return pt{h.poly(p.X), h.poly(p.Y), h.poly(p.Z)} }

func (h *pathHyp) String() string { return strings.Join(h.desc, ", ") }
