package props

import (
	"fmt"
	"math/big"
	"strings"

	"svcheck/absint"
	"svcheck/load"
	"svcheck/report"
)

// os2ip builds the integer sum of bytes name[off..off+n) read big-endian.
func os2ip(name string, off, n int) *absint.Term {
	t := absint.TInt(0)
	for k := 0; k < n; k++ {
		t = t.Add(absint.SymByte(fmt.Sprintf("%s[%d]", name, off+k)).Scale(new(big.Int).Lsh(big.NewInt(1), uint(8*(n-1-k)))))
	}
	return t
}

// known evaluates a 0/1 term under the path's assumptions.
func known(it *absint.Interp, t *absint.Term) (val bool, ok bool) {
	a := it.ApplyTerm(t)
	k, isC := a.IsConst()
	if !isC {
		switch entailed(it, a) {
		case triTrue:
			return true, true
		case triFalse:
			return false, true
		}
		return false, false
	}
	return k.Sign() != 0, true
}

// compoundAssumption is the product of the path's compound branch conditions (those that are not a single atom or
// its negation, which the interpreter has already turned into bindings): a 0/1 term that is 1 on this path.
func compoundAssumption(it *absint.Interp, about *absint.Term) *absint.Term {
	asm := absint.TInt(1)
	n := 0
	rel := about.Syms()
	for _, g := range it.Guards {
		c := it.ApplyTerm(g.Cond)
		if _, isC := c.IsConst(); isC || !c.IsPred() {
			continue
		}
		if len(rel) > 0 {
			// only the conditions that speak about the symbols of the question
			shared := false
			for a := range c.Syms() {
				if rel[a] {
					shared = true
				}
			}
			if !shared {
				continue
			}
		}
		if lo, hi := c.Bounds(); lo.Sign() < 0 || hi.Cmp(big.NewInt(1)) > 0 {
			continue
		}
		if !g.Taken {
			c = absint.TInt(1).Sub(c)
		}
		next := asm.Mul(c)
		if next == nil || len(next.PredAtoms()) > 8 {
			continue
		}
		asm = next
		n++
	}
	if n == 0 {
		return nil
	}
	return asm
}

// entailed decides a 0/1 term under the path's compound branch conditions by enumerating the truth assignments of
// the atoms involved (atoms are treated as independent, which only enlarges the set of assignments considered).
func entailed(it *absint.Interp, a *absint.Term) tri {
	if !a.IsPred() {
		return triUnknown
	}
	asm := compoundAssumption(it, a)
	if asm == nil {
		return triUnknown
	}
	if lo, hi := a.Bounds(); lo.Sign() < 0 || hi.Cmp(big.NewInt(1)) > 0 {
		return triUnknown
	}
	zero := func(t *absint.Term) bool {
		if t == nil || len(t.PredAtoms()) > 10 {
			return false
		}
		lo, hi := t.Bounds()
		return lo.Sign() == 0 && hi.Sign() == 0
	}
	if zero(asm.Mul(a)) {
		return triFalse
	}
	if zero(asm.Mul(absint.TInt(1).Sub(a))) {
		return triTrue
	}
	return triUnknown
}

// triConj decides the conjunction of 0/1 terms on the path: term by term first, then jointly under the compound
// branch conditions (a path taken because "x or y is out of range" excludes "x and y in range" although neither
// conjunct is decided alone).
func triConj(it *absint.Interp, ts ...*absint.Term) tri {
	prod := absint.TInt(1)
	r := triTrue
	for _, t := range ts {
		v, ok := known(it, t)
		if ok && !v {
			return triFalse
		}
		if !ok {
			r = triUnknown
			if prod != nil {
				if a := it.ApplyTerm(t); a.IsPred() {
					prod = prod.Mul(a)
				} else {
					prod = nil
				}
			}
		}
	}
	if r == triUnknown && prod != nil {
		if e := entailed(it, prod); e != triUnknown {
			return e
		}
	}
	return r
}

// lenIs reports whether the path fixes len(name) to n / excludes n.
func lenIs(it *absint.Interp, name string, n int64) (is bool, decided bool) {
	l := it.ApplyTerm(absint.SymInt("len("+name+")", big.NewInt(0), big.NewInt(1<<62)))
	if k, ok := l.IsConst(); ok {
		return k.Int64() == n, true
	}
	lo, hi := l.Bounds()
	if big.NewInt(n).Cmp(lo) < 0 || big.NewInt(n).Cmp(hi) > 0 {
		return false, true
	}
	if v, ok := known(it, absint.EQ(l, absint.TInt(n))); ok {
		return v, true
	}
	// the decoded form of a hex string: n bytes need exactly 2n characters, so a path that bounds the string's length
	// away from 2n (a length guard taken before anything is decoded) excludes n decoded bytes
	if strings.HasPrefix(name, "unhex(") && strings.HasSuffix(name, ")") {
		src := name[len("unhex(") : len(name)-1]
		ls := it.ApplyTerm(absint.SymInt("len("+src+")", big.NewInt(0), big.NewInt(1<<62)))
		if k, ok := ls.IsConst(); ok {
			return k.Int64() == 2*n, true
		}
		if v, ok := known(it, absint.LT(absint.TInt(2*n), ls)); ok && v {
			return false, true
		}
		if v, ok := known(it, absint.LT(ls, absint.TInt(2*n))); ok && v {
			return false, true
		}
	}
	return false, false
}

func errIdentity(v absint.Value) (key string, isNil bool, ok bool) {
	switch x := v.(type) {
	case absint.Nil:
		return "", true, true
	case absint.Iface:
		if p, ok := x.Dyn.(absint.Ptr); ok {
			return p.C.Path(), false, true
		}
		return "iface", false, true
	}
	return "", false, false
}

// scalarDecodePaths checks one scalar decoder (Decode / UnmarshalBinary on bytes, DecodeHex on a string).
func scalarDecodePaths(p *load.Prog, r *report.Report, m *elemModel, meth string, hex bool) {
	fn := p.Method(p.Root, "Scalar", meth)
	if fn == nil {
		r.Undecided("C07.anchor", meth, "", "method not found")
		return
	}
	in := "in"
	if hex {
		in = "unhex(h)"
	}
	old := absint.FieldSym(FN, "old")
	X := os2ip(in, 0, 32)
	n := absint.TConst(FN.M)
	errs := map[string]string{} // class -> error identity
	npaths, nsucc := 0, 0
	explore(p, absint.Config{}, fn, func(it *absint.Interp) []absint.Value {
		recv := m.newScalar(it, "recv", old)
		if hex {
			return []absint.Value{ptr(recv), absint.SymStr{Name: "h"}}
		}
		return []absint.Value{ptr(recv), absint.SymBytes(in)}
	}, func(res *absint.PathResult) {
		npaths++
		it := res.It
		_ = it
		construct := fmt.Sprintf("%s path %s", meth, scalarPathLabel(it0(res), in, hex, X, n, npaths))
		if res.Exit == "panic" {
			r.Fail("C07.nopanic", construct, p.Pos(res.PanicAt), "the decoder can panic: "+absint.Show(res.Panic))
			return
		}
		if res.Exit != "return" {
			r.Undecided("C07.decode", construct, "", res.Abort)
			return
		}
		for _, e := range eventsOf(res, "bounds") {
			r.Fail("C07.nopanic", construct+" (bounds)", p.Pos(e.Pos), e.Msg)
		}
		if reportEvents(p, r, "C07.decode", construct, res) {
			return
		}
		ek, isNil, ok := errIdentity(res.Ret)
		if !ok {
			r.Undecided("C07.decode", construct, p.Pos(fn.Pos()), "result is "+absint.Show(res.Ret))
			return
		}
		hexOK := true
		if hex {
			v, dec := known(it, absint.SymBool("hexvalid(h)"))
			hexOK = dec && v
			if !dec {
				r.Undecided("C07.decode", construct, p.Pos(fn.Pos()), "the path does not decide whether the hex string is valid")
				return
			}
		}
		is32, dec32 := lenIs(it, in, 32)
		lt, decLT := known(it, absint.LT(X, n))
		accepts := hexOK && dec32 && is32 && decLT && lt
		rejects := !hexOK || (dec32 && !is32) || (dec32 && is32 && decLT && !lt)
		if isNil {
			nsucc++
			r.Check(accepts, "C07.accept", construct, p.Pos(fn.Pos()), "success only for exactly 32 bytes encoding an integer < n", "the decoder accepts an input that is not a canonical 32-byte encoding of an integer below n (path constraints do not imply len = 32 and value < n)")
			got, why := m.scalarVal(it, it.InputRoots()[0])
			want := absint.EmbTerm(FN, X)
			r.Check(why == "" && got.EqualMod(want), "C07.value", construct, p.Pos(fn.Pos()), "receiver = the encoded integer", fmt.Sprintf("receiver after a successful decode is %v, not the encoded integer (%s)", got, why))
			return
		}
		r.Check(rejects, "C07.reject", construct, p.Pos(fn.Pos()), "error only for inputs that are not canonical encodings", "the decoder rejects an input although the path constraints do not exclude a canonical encoding")
		// error classes
		class := ""
		is0, dec0 := lenIs(it, in, 0)
		switch {
		case !hexOK:
			class = "hex"
		case dec0 && is0:
			class = "empty"
		case dec32 && !is32:
			class = "length"
		case dec32 && is32 && decLT && !lt:
			class = "toobig"
		}
		if class != "" {
			if prev, ok := errs[class]; ok && prev != ek {
				r.Fail("C07.errors", meth+" error for "+class, p.Pos(fn.Pos()), "two different error values for the same rejection class")
			}
			errs[class] = ek
		}
	})
	r.RequireCount("C07.paths", meth+" paths", npaths, 4)
	r.Check(nsucc >= 1, "C07.success", meth, p.Pos(fn.Pos()), fmt.Sprintf("%d success path(s)", nsucc), "no success path: the decoder accepts nothing")
	if e, l, t := errs["empty"], errs["length"], errs["toobig"]; e != "" && l != "" && t != "" {
		r.Check(e != l && l != t && e != t, "C07.errors", meth+" distinct errors", p.Pos(fn.Pos()), "empty input, wrong length and value >= n are reported with three distinct errors", "rejection classes share an error value")
	} else {
		r.Fail("C07.errors", meth+" distinct errors", p.Pos(fn.Pos()), fmt.Sprintf("not all rejection classes were found (empty=%v length=%v toobig=%v)", errs["empty"] != "", errs["length"] != "", errs["toobig"] != ""))
	}
}

func it0(res *absint.PathResult) *absint.Interp { return res.It }

// scalarPathLabel names a path by the facts it decides (a stable key, independent of check order).
func scalarPathLabel(it *absint.Interp, in string, hex bool, X, n *absint.Term, k int) string {
	if hex {
		if v, ok := known(it, absint.SymBool("hexvalid(h)")); ok && !v {
			return "{invalid hex}"
		}
	}
	if is0, d := lenIs(it, in, 0); d && is0 {
		return "{len = 0}"
	}
	is32, d32 := lenIs(it, in, 32)
	if d32 && !is32 {
		return "{len not in 0, 32}"
	}
	if d32 && is32 {
		if lt, ok := known(it, absint.LT(X, n)); ok {
			if lt {
				return "{len = 32, value < n}"
			}
			return "{len = 32, value >= n}"
		}
		return fmt.Sprintf("{len = 32, #%d}", k)
	}
	return fmt.Sprintf("{#%d}", k)
}

// sliceBytes reads a returned byte slice of constant length.
func sliceBytes(it *absint.Interp, v absint.Value) ([]*absint.Term, *absint.Term, bool) {
	return it.SliceContent(v)
}

// C07: scalar encodings are canonical 32-byte big-endian; decoding rejects all else.
func C07(p *load.Prog, r *report.Report) {
	r.Explanation = "E1 guard-set enumeration: Scalar.Decode/UnmarshalBinary/DecodeHex are interpreted on a symbolic byte string of symbolic length; every path to a return is enumerated, its guard literals (length tests, the borrow of the 4-limb subtraction X - n summarised as LT(X, n) with X = OS2IP(in[0:32]) and n decoded from the code's own constant) are evaluated, and the path table must be: success <=> len = 32 and X < n, with receiver = X mod n = X; every other path returns a non-nil error, distinct for empty / wrong length / too big; no path can panic (all index and slice bounds are implied by the path's length literal). Encode must return the 32 bytes BE32(Canon(s)). Round trips follow from OS2IP and BE32 being mutually inverse on [0, 2^256)."
	r.Trusted = []string{"Fiat ToMontgomery/FromMontgomery leaf specifications", "encoding/binary, encoding/hex contracts", "go/ssa"}
	m, err := discoverModel(p)
	if err != nil {
		r.Undecided("C07.model", "layout", "", err.Error())
		return
	}
	m.stateGuard(r, "C07", false, true)
	scalarDecodePaths(p, r, m, "Decode", false)
	scalarDecodePaths(p, r, m, "UnmarshalBinary", false)
	scalarDecodePaths(p, r, m, "DecodeHex", true)
	// encoders
	s := absint.FieldSym(FN, "s")
	cs := absint.CanonOf(FN, s)
	for _, meth := range []string{"Encode", "MarshalBinary", "Hex"} {
		fn := p.Method(p.Root, "Scalar", meth)
		if fn == nil {
			r.Undecided("C07.anchor", meth, "", "method not found")
			continue
		}
		explore(p, absint.Config{}, fn, func(it *absint.Interp) []absint.Value {
			return []absint.Value{ptr(m.newScalar(it, "s", s))}
		}, func(res *absint.PathResult) {
			if res.Exit != "return" || len(res.Guards) > 0 {
				r.Undecided("C07.encode", meth, p.Pos(fn.Pos()), res.Exit+" "+res.Abort+" "+guardString(res))
				return
			}
			if reportEvents(p, r, "C07.encode", meth, res) {
				return
			}
			ret := res.Ret
			if tup, ok := ret.(absint.Tuple); ok && len(tup) == 2 {
				if _, isNil := tup[1].(absint.Nil); !isNil {
					r.Fail("C07.encode", meth+" error", p.Pos(fn.Pos()), "non-nil error")
				}
				ret = tup[0]
			}
			var bs []*absint.Term
			var ln *absint.Term
			ok := false
			if hs, isHex := ret.(absint.HexStr); isHex {
				bs, ln, ok = hs.Bytes, hs.Len, true
			} else {
				bs, ln, ok = sliceBytes(res.It, ret)
			}
			good := ok && len(bs) == 32
			if good {
				if k, isC := ln.IsConst(); !isC || k.Int64() != 32 {
					good = false
				}
			}
			for k := 0; good && k < 32; k++ {
				if !bs[k].Equal(absint.ByteOf(cs, 31-k)) {
					good = false
				}
			}
			r.Check(good, "C07.encode", meth, p.Pos(fn.Pos()), "32 bytes, byte k = byte (31-k) of Canon(s): big-endian canonical value", "the encoding is not BE32(Canon(s))")
			if sv, why := m.scalarVal(res.It, res.It.InputRoots()[0]); why != "" || !sv.Equal(s) {
				r.Fail("C07.encode", meth+" receiver", p.Pos(fn.Pos()), "encoding modifies the scalar")
			}
		})
	}
}
