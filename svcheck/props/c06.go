package props

import (
	"fmt"
	"go/types"
	"math/big"
	"strings"

	"golang.org/x/tools/go/ssa"

	"svcheck/absint"
	"svcheck/load"
	"svcheck/report"
)

// C06: scalar arithmetic is exact arithmetic modulo the group order.
func C06(p *load.Prog, r *report.Report) {
	r.Explanation = "Decides the hand-written part of the scalar layer by E1 over F_n, with the Fiat primitives as trusted leaves: (1) Add, Subtract, Multiply, Square, Invert, Set, Copy, SetUInt64, Zero, One, MinusOne are interpreted on symbolic s, t (argument distinct and argument = receiver): the receiver must be s+t, s-t (operand order), s·t, s^2, s^(n-2) = inv0(s), t, the constants 0, 1, -1 and i mod n; (2) the 293-step inversion chain's exponent is computed from its own code and must be n-2; (3) nil conventions by path enumeration (Add/Subtract no-op, Multiply/Set give 0, Pow gives 1); (4) Pow: guards (t nil or 0 -> 1, t = 1 -> s), and on the general path the math/big calls are followed on integer terms: modulus = OS2IP(Order()) = n, Exp receives (Canon s, Canon t, n) in that order, the minimal-length result is left-padded to 32 bytes (zeros ‖ minbytes(V) of total length 32 = BE32(V)) and decoded, so the receiver is (s^t mod n); (5) every argument of every Fiat primitive reached is proven < n (values stay canonical). NOT decided: the word-level carry chains inside the Fiat-generated primitives."
	r.NotDecided = []string{"word-level correctness of the Fiat-Crypto generated scalar primitives (trusted leaf specifications)"}
	r.Trusted = []string{"Fiat-Crypto leaf specifications", "math/big.Int.Exp/SetBytes/Bytes contracts", "Fermat's little theorem", "go/ssa"}
	m, err := discoverModel(p)
	if err != nil {
		r.Undecided("C06.model", "layout", "", err.Error())
		return
	}
	m.stateGuard(r, "C06", false, true)
	s, t := absint.FieldSym(FN, "s"), absint.FieldSym(FN, "t")
	type binop struct {
		meth string
		want func(a, b *absint.Poly) *absint.Poly
		nilW func(a *absint.Poly) *absint.Poly
	}
	for _, op := range []binop{
		{"Add", func(a, b *absint.Poly) *absint.Poly { return a.Add(b) }, func(a *absint.Poly) *absint.Poly { return a }},
		{"Subtract", func(a, b *absint.Poly) *absint.Poly { return a.Sub(b) }, func(a *absint.Poly) *absint.Poly { return a }},
		{"Multiply", func(a, b *absint.Poly) *absint.Poly { return a.Mul(b) }, func(a *absint.Poly) *absint.Poly { return pInt(FN, 0) }},
		{"Set", func(a, b *absint.Poly) *absint.Poly { return b }, func(a *absint.Poly) *absint.Poly { return pInt(FN, 0) }},
	} {
		fn := p.Method(p.Root, "Scalar", op.meth)
		if fn == nil {
			r.Undecided("C06.anchor", op.meth, "", "method not found")
			continue
		}
		for _, mode := range []string{"distinct", "argument is the receiver", "nil"} {
			construct := fmt.Sprintf("Scalar.%s (%s)", op.meth, mode)
			var want0 *absint.Poly
			switch mode {
			case "distinct":
				want0 = op.want(s, t)
			case "nil":
				want0 = op.nilW(s)
			default:
				want0 = op.want(s, s)
			}
			runEach(p, r, "C06.arith", construct, fn, func(it *absint.Interp) []absint.Value {
				recv := m.newScalar(it, "s", s)
				switch mode {
				case "distinct":
					return []absint.Value{ptr(recv), ptr(m.newScalar(it, "t", t))}
				case "nil":
					return []absint.Value{ptr(recv), absint.Nil{}}
				}
				return []absint.Value{ptr(recv), ptr(recv)}
			}, func(res *absint.PathResult) {
				want := sp(res, want0)
				got, why := m.scalarVal(res.It, res.It.InputRoots()[0])
				if got != nil {
					got = sp(res, got)
				}
				r.Check(why == "" && got.Equal(want), "C06.arith", construct, p.Pos(fn.Pos()), "receiver = "+want0.String(), fmt.Sprintf("receiver is %v (%s), expected %s", got, why, want))
				if mode == "distinct" {
					tv, w := m.scalarVal(res.It, res.It.InputRoots()[1])
					if w != "" || !tv.Equal(sp(res, t)) {
						r.Fail("C06.arith", construct+" operand", p.Pos(fn.Pos()), "the argument is modified")
					}
				}
				if pr, ok := res.Ret.(absint.Ptr); !ok || pr.C != res.It.InputRoots()[0] {
					r.Fail("C06.arith", construct+" result", p.Pos(fn.Pos()), "the method does not return its receiver")
				}
			})
		}
	}
	type unop struct {
		meth string
		want *absint.Poly
	}
	for _, op := range []unop{
		{"Square", s.Mul(s)},
		{"Invert", s.Pow(FN.M2)},
		{"Zero", pInt(FN, 0)},
		{"One", pInt(FN, 1)},
		{"MinusOne", pInt(FN, -1)},
	} {
		fn := p.Method(p.Root, "Scalar", op.meth)
		if fn == nil {
			r.Undecided("C06.anchor", op.meth, "", "method not found")
			continue
		}
		construct := "Scalar." + op.meth
		runEach(p, r, "C06.arith", construct, fn, func(it *absint.Interp) []absint.Value {
			return []absint.Value{ptr(m.newScalar(it, "s", s))}
		}, func(res *absint.PathResult) {
			got, why := m.scalarVal(res.It, res.It.InputRoots()[0])
			if got != nil {
				got = sp(res, got)
			}
			detail := "receiver = " + op.want.String()
			if op.meth == "Invert" {
				detail = "receiver = s^(n-2) = inv0(s): exponent computed from the chain's own code"
			}
			want := sp(res, op.want)
			r.Check(why == "" && got.Equal(want), "C06.arith", construct, p.Pos(fn.Pos()), detail, fmt.Sprintf("receiver is %v (%s), expected %s", got, why, want))
		})
	}
	// Copy: fresh object with the same value
	if fn := p.Method(p.Root, "Scalar", "Copy"); fn != nil {
		runEach(p, r, "C06.arith", "Scalar.Copy", fn, func(it *absint.Interp) []absint.Value {
			return []absint.Value{ptr(m.newScalar(it, "s", s))}
		}, func(res *absint.PathResult) {
			pr, ok := res.Ret.(absint.Ptr)
			good := ok && pr.C != res.It.InputRoots()[0]
			if good {
				v, w := m.scalarVal(res.It, pr.C)
				good = w == "" && v.Equal(sp(res, s))
			}
			r.Check(good, "C06.arith", "Scalar.Copy", p.Pos(fn.Pos()), "a new scalar with the same value", "Copy does not return a fresh scalar with the receiver's value")
		})
	}
	// SetUInt64
	if fn := p.Method(p.Root, "Scalar", "SetUInt64"); fn != nil {
		i := absint.SymWord("i")
		runEach(p, r, "C06.arith", "Scalar.SetUInt64", fn, func(it *absint.Interp) []absint.Value {
			return []absint.Value{ptr(m.newScalar(it, "s", s)), absint.TermV{T: i}}
		}, func(res *absint.PathResult) {
			got, why := m.scalarVal(res.It, res.It.InputRoots()[0])
			want := sp(res, absint.EmbTerm(FN, i))
			r.Check(why == "" && got.Equal(want), "C06.arith", "Scalar.SetUInt64", p.Pos(fn.Pos()), "receiver = i (mod n) for every 64-bit i", fmt.Sprintf("receiver is %v (%s)", got, why))
		})
	} else {
		r.Undecided("C06.anchor", "SetUInt64", "", "method not found")
	}
	// the internal inversion wrapper also with its own aliasing (out is the source of the by-value argument)
	if fn := anchorFunc(p, p.Scalar, "Invert"); fn != nil {
		alpha := absint.FieldSym(FN, "α")
		limbT := fn.Params[0].Type().(*types.Pointer).Elem()
		_, inByPtr := fn.Params[1].Type().(*types.Pointer)
		runEach(p, r, "C06.chain", "scalar.Invert", fn, func(it *absint.Interp) []absint.Value {
			o := it.NewObject(limbT, "out", true)
			it.SetMont(FN, o.Root, alpha)
			if inByPtr {
				// the source is passed by pointer: the aliasing call Invert(&s, &s) of the wrapper
				return []absint.Value{ptr(o), ptr(o)}
			}
			return []absint.Value{ptr(o), it.LoadAgg(o.Root)}
		}, func(res *absint.PathResult) {
			got, why := res.It.ReadMont(FN, res.It.InputRoots()[0])
			if got != nil {
				got = sp(res, got)
			}
			r.Check(why == "" && got.Equal(sp(res, alpha.Pow(FN.M2))), "C06.chain", "scalar.Invert", p.Pos(fn.Pos()), "α ↦ α^(n-2), exponent computed from the chain's own code", fmt.Sprintf("the scalar inversion chain computes %v, not α^(n-2)", got))
		})
	} else {
		r.Undecided("C06.anchor", "scalar.Invert", "", "function not found")
	}
	c06Pow(p, r, m, s, t)
	siblingChecks(p, r, "C06")
}

func c06Pow(p *load.Prog, r *report.Report, m *elemModel, s, t *absint.Poly) {
	nativePow := false
	fn := p.Method(p.Root, "Scalar", "Pow")
	if fn == nil {
		r.Undecided("C06.anchor", "Pow", "", "method not found")
		return
	}
	pos := p.Pos(fn.Pos())
	nT := absint.TConst(FN.M)
	cs, ct := absint.CanonOf(FN, s), absint.CanonOf(FN, t)
	runPow := func(aliased bool, t *absint.Poly, ct *absint.Term, tag string) {
		seen := map[string]int{}
		explore(p, absint.Config{}, fn, func(it *absint.Interp) []absint.Value {
			if aliased {
				sc := ptr(m.newScalar(it, "s", s))
				return []absint.Value{sc, sc}
			}
			return []absint.Value{ptr(m.newScalar(it, "s", s)), ptr(m.newScalar(it, "t", t))}
		}, func(res *absint.PathResult) {
			it := res.It
			tz, dz := known(it, absint.ISZ(t))
			t1, d1 := known(it, absint.ISZ(t.Sub(pInt(FN, 1))))
			class := "general exponent"
			switch {
			case dz && tz:
				class = "t = 0"
			case d1 && t1:
				class = "t = 1"
			}
			seen[class]++
			construct := "Scalar.Pow (" + class + ")" + tag
			if seen[class] > 1 {
				construct = fmt.Sprintf("Scalar.Pow (%s, padding case %d)%s", class, seen[class], tag)
			}
			if res.Exit == "panic" {
				r.Fail("C06.pow", construct, p.Pos(res.PanicAt), "Pow can panic: "+absint.Show(res.Panic)+" "+guardString(res))
				return
			}
			if res.Exit != "return" {
				r.Undecided("C06.pow", construct, pos, res.Abort)
				return
			}
			if reportEvents(p, r, "C06.pow", construct, res) {
				return
			}
			got, why := m.scalarVal(it, it.InputRoots()[0])
			if why != "" {
				r.Undecided("C06.pow", construct, pos, why)
				return
			}
			switch class {
			case "t = 0":
				r.Check(got.Equal(pInt(FN, 1)), "C06.pow", construct, pos, "s^0 = 1", fmt.Sprintf("s^0 gives %s", got))
			case "t = 1":
				r.Check(got.Equal(s), "C06.pow", construct, pos, "s^1 = s", fmt.Sprintf("s^1 gives %s", got))
			default:
				want := absint.EmbTerm(FN, absint.ModExp(cs, ct, nT))
				// paths that fix the base (fast paths for s = 0 and s = 1): 0^t = 0 for t != 0, 1^t = 1
				got, want = it.DeepApplyPoly(got), it.DeepApplyPoly(want)
				if sz, dsz := known(it, absint.ISZ(s)); dsz && sz && dz && !tz {
					want = pInt(FN, 0)
				} else if s1, ds1 := known(it, absint.ISZ(s.Sub(pInt(FN, 1)))); ds1 && s1 {
					want = pInt(FN, 1)
				}
				ok := got.Equal(want)
				detail := fmt.Sprintf("receiver is %s; expected (Canon s)^(Canon t) mod n through math/big.Exp", got)
				if base, T, isExp := absint.ExpOf(got); isExp && !ok {
					// a native exponentiation over the Fiat arithmetic: the receiver is the formal power s^T; T must be the
					// canonical integer of t, compared in the basis of the exponent's digit tests (as in C01)
					bitsOfT := absint.TInt(0)
					for i := 0; i < 256; i++ {
						bitsOfT = bitsOfT.Add(absint.BIT(ct, i).Scale(new(big.Int).Lsh(big.NewInt(1), uint(i))))
					}
					Tc := absint.CompleteFamilies(it.DeepApplyTerm(T))
					d := Tc.Sub(absint.DigitBasis(it.DeepApplyTerm(bitsOfT), Tc))
					dc, isC := d.IsConst()
					ok = base.Equal(s) && isC && dc.Sign() == 0
					detail = fmt.Sprintf("receiver is the power s^T computed by a native exponentiation; T differs from the canonical integer of t by %s", d)
					if ok {
						nativePow = true
					}
				}
				for _, e := range eventsOf(res, "modexp") {
					parts := strings.Split(e.Msg, "|")
					if len(parts) == 3 && (parts[0] != cs.Key() || parts[1] != ct.Key() || parts[2] != nT.Key()) {
						detail += "; Exp is called with (base, exponent, modulus) = other than (Canon s, Canon t, n)"
					}
				}
				okText := "receiver = (Canon s)^(Canon t) mod n: Exp(base = s, exponent = t, modulus = n), result left-padded to 32 bytes and decoded"
				if nativePow {
					okText = "receiver = s^T with T = Σ 2^i·BIT(Canon t, i) = Canon t: a native exponentiation whose digits, table look-ups, squarings and multiplications were followed as formal powers"
				}
				r.Check(ok, "C06.pow", construct, pos, okText, detail)
			}
			if aliased {
				return
			}
			if tv, w := m.scalarVal(it, it.InputRoots()[1]); w != "" || !tv.Equal(t) {
				r.Fail("C06.pow", construct+" operand", pos, "the exponent operand is modified")
			}
		})
		r.Check(seen["t = 0"] >= 1 && seen["t = 1"] >= 1 && seen["general exponent"] >= 1, "C06.pow-paths", "Scalar.Pow"+tag, pos, fmt.Sprintf("paths: %v", seen), fmt.Sprintf("expected the three classes t = 0, t = 1, general; found %v", seen))
	}
	runPow(false, t, ct, "")
	// the exponent is the receiver itself (s.Pow(s)): the same obligations with t := s
	runPow(true, s, cs, " (exponent is the receiver)")
	// nil exponent
	explore(p, absint.Config{}, fn, func(it *absint.Interp) []absint.Value {
		return []absint.Value{ptr(m.newScalar(it, "s", s)), absint.Nil{}}
	}, func(res *absint.PathResult) {
		if res.Exit != "return" {
			r.Fail("C06.pow", "Scalar.Pow (nil)", p.Pos(res.PanicAt), "Pow(nil) ends with "+res.Exit+" "+res.Abort)
			return
		}
		got, why := m.scalarVal(res.It, res.It.InputRoots()[0])
		r.Check(why == "" && got.Equal(pInt(FN, 1)), "C06.pow", "Scalar.Pow (nil)", pos, "Pow(nil) = 1", "Pow(nil) does not give 1")
	})
	_ = big.NewInt
	_ = ssa.Function{}
}
