package props

import (
	"fmt"
	"strings"

	"golang.org/x/tools/go/ssa"

	"svcheck/absint"
	"svcheck/load"
	"svcheck/report"
	"svcheck/sibling"
)

// siblingChecks runs E8 on the Fiat primitives reachable from the exported API and records the results under prop.
func siblingChecks(p *load.Prog, r *report.Report, prop string) {
	mp := sibling.NewModulus("p", FP.M)
	mn := sibling.NewModulus("n", FN.M)
	reach := map[*ssa.Function]bool{}
	for _, f := range p.ExportedAPI() {
		for g := range p.Reachable(f) {
			reach[g] = true
		}
	}
	n := 0
	for _, pair := range sibling.Pairs(p.Field, p.Scalar) {
		fa, fb := pair[0], pair[1]
		if !absint.IsFiatLeaf(fa) || (!reach[fa] && !reach[fb]) {
			continue
		}
		n++
		name := fa.Name()
		shapeDiffers := name == "ToMontgomery" || name == "SetOne"
		if shapeDiffers {
			for _, x := range []struct {
				fn *ssa.Function
				m  *sibling.Modulus
			}{{fa, mp}, {fb, mn}} {
				res := sibling.CompareLiterals(x.fn, x.m)
				construct := x.fn.Pkg.Pkg.Name() + "." + name + " literals"
				if res.Same {
					r.OK(prop+".sibling", construct, fmt.Sprintf("%d large literal(s), each a limb of m, R mod m, R^2 mod m or m' of its own modulus", res.Nodes))
				} else {
					r.Fail(prop+".sibling", construct, p.Pos(res.Diff.Pos), "generated primitive tampered: "+res.Diff.Msg)
				}
			}
		} else {
			res := sibling.CompareDAG(fa, fb, mp, mn)
			construct := "field." + name + " ~ scalar." + name
			if res.Same {
				r.OK(prop+".sibling", construct, fmt.Sprintf("identical data-flow graphs (%d output stores, %d node pairs); every literal has the same role for its modulus", res.Stores, res.Nodes))
			} else {
				r.Fail(prop+".sibling", construct, p.Pos(res.Diff.Pos), "the two generated files disagree (one of them was edited by hand): "+res.Diff.Msg)
			}
		}
		for _, fn := range []*ssa.Function{fa, fb} {
			if strings.HasPrefix(fn.Name(), "cmov") {
				continue
			}
			ok, pos := sibling.AliasSafe(fn)
			r.Check(ok, prop+".aliassafe", fn.Pkg.Pkg.Name()+"."+fn.Name(), p.Pos(pos), "all loads through arguments precede all stores to outputs: calling with out = arg is safe", "an argument is read after an output was written: unsafe when out aliases arg, as the wrappers call it")
		}
	}
	// primitives that exist (uncommented) in one package only: literal roles
	for _, x := range []struct {
		pkg, other *ssa.Package
		m          *sibling.Modulus
	}{{p.Field, p.Scalar, mp}, {p.Scalar, p.Field, mn}} {
		for name, mem := range x.pkg.Members {
			fn, ok := mem.(*ssa.Function)
			if !ok || !absint.IsFiatLeaf(fn) || !reach[fn] || x.other.Func(name) != nil {
				continue
			}
			res := sibling.CompareLiterals(fn, x.m)
			construct := fn.Pkg.Pkg.Name() + "." + name + " literals (no sibling)"
			if res.Same {
				r.OK(prop+".sibling", construct, fmt.Sprintf("%d large literal(s), each with a role for its modulus", res.Nodes))
			} else {
				r.Fail(prop+".sibling", construct, p.Pos(res.Diff.Pos), "generated primitive tampered: "+res.Diff.Msg)
			}
			ok2, pos := sibling.AliasSafe(fn)
			r.Check(ok2, prop+".aliassafe", fn.Pkg.Pkg.Name()+"."+fn.Name(), p.Pos(pos), "all loads through arguments precede all stores to outputs", "an argument is read after an output was written")
		}
	}
	r.RequireCount(prop+".sibling", "Fiat primitives reachable from the API with a sibling", n, 9)
}
