package props

import (
	"fmt"
	"go/types"
	"strings"

	"golang.org/x/tools/go/ssa"

	"svcheck/absint"
	"svcheck/effects"
	"svcheck/load"
	"svcheck/report"
	"svcheck/sibling"
)

// siblingChecks runs E8 on the Fiat primitives reachable from the exported API and records the results under prop.
func siblingChecks(p *load.Prog, r *report.Report, prop string) {
	siblingChecksFrom(p, r, prop, p.ExportedAPI(), 9)
}

// roundPairs: k such that reduction rounds k and k+1 of the primitive have the same data-flow graph on the pinned
// tree (confirmed by running sibling.Rounds on it).
var roundPairs = map[string][]int{
	"field.Mul": {3}, "field.Square": {3}, "field.ToMontgomery": {3}, "field.FromMontgomery": {3},
	"scalar.Mul": {3}, "scalar.Square": {3}, "scalar.ToMontgomery": {2, 3}, "scalar.FromMontgomery": {3},
}

// leafEntries names, per property, the functions whose analysis takes the generated primitives as trusted leaves:
// the primitives reachable from them must be intact (sibling cross-check) for the property's argument to stand.
var leafEntries = map[string][]string{
	"C01": {"Element.Multiply"},
	"C02": {"Element.Add", "Element.Double", "Element.Subtract", "Element.Negate"},
	"C03": {"Element.Decode", "Element.DecodeHex", "Element.UnmarshalBinary", "Element.DecodeCoordinates", "Element.DecodeCompressed", "Element.DecodeUncompressed"},
	"C04": {"Element.Encode", "Element.EncodeUncompressed", "Element.XCoordinate", "Element.Hex", "Element.MarshalBinary"},
	"C05": {"Element.Equal", "Element.IsIdentity"},
	"C07": {"Scalar.Decode", "Scalar.DecodeHex", "Scalar.UnmarshalBinary", "Scalar.Encode", "Scalar.Hex", "Scalar.MarshalBinary"},
	"C08": {"HashToGroup", "EncodeToGroup"},
	"C09": {"HashToScalar"},
	"C11": {"SSWU", "IsogenySecp256k13iso"},
	"C13": {"Scalar.LessOrEqual", "Scalar.CSelect", "Scalar.Equal", "Scalar.IsZero", "Scalar.IsOne"},
	"C14": {"Scalar.Bits"},
	"C18": {"Scalar.Random"},
}

// stateEntries: the functions whose per-call analysis starts from the initial package-level state (leafEntries plus
// the scalar arithmetic of C06).
var stateEntries = map[string][]string{
	// what "the identity" is for Equal/IsIdentity: the constructors that hand it out
	"C05": {"NewElement", "Element.Identity"},
	"C06": {"Scalar.Add", "Scalar.Subtract", "Scalar.Multiply", "Scalar.Square", "Scalar.Invert", "Scalar.Pow", "Scalar.SetUInt64", "Scalar.One", "Scalar.MinusOne", "Scalar.Zero", "Scalar.Set", "Scalar.Copy"},
}

// stableGlobals: the per-call analyses read package-level variables in their initial state. That is only valid
// for every history if nothing outside init writes such a variable and no exported function hands a pointer into
// it to the caller (who could then change it).
func stableGlobals(p *load.Prog, r *report.Report, prop string) {
	names := append(append([]string{}, leafEntries[prop]...), stateEntries[prop]...)
	if len(names) == 0 {
		return
	}
	a := effects.Run(p)
	exposed := map[string]string{} // global -> exported function handing it out
	written := map[string]string{}
	for _, f := range p.ExportedAPI() {
		sum := a.Sums[f]
		if sum == nil {
			continue
		}
		for i, ret := range sum.Ret {
			// a sentinel error handed out as an error value cannot be written through by the caller
			if i < f.Signature.Results().Len() {
				if n, ok := f.Signature.Results().At(i).Type().(*types.Named); ok && n.Obj().Pkg() == nil && n.Obj().Name() == "error" {
					continue
				}
			}
			for k := range ret {
				if strings.HasPrefix(k, "G:") && exposed[k] == "" {
					exposed[k] = f.Name()
				}
			}
		}
		for k := range sum.Wr {
			if strings.HasPrefix(k, "G:") && written[k] == "" {
				written[k] = f.Name()
			}
		}
	}
	n, bad := 0, 0
	for _, nm := range names {
		var fn *ssa.Function
		if i := strings.Index(nm, "."); i >= 0 {
			fn = p.Method(p.Root, nm[:i], nm[i+1:])
		} else {
			fn = p.Root.Func(nm)
		}
		if fn == nil || a.Sums[fn] == nil {
			continue
		}
		refs := map[string]bool{}
		for g := range p.Reachable(fn) {
			for _, b := range g.Blocks {
				for _, in := range b.Instrs {
					for _, op := range in.Operands(nil) {
						if gl, ok := (*op).(*ssa.Global); ok && p.InModuleGlobal(gl) {
							refs["G:"+gl.Pkg.Pkg.Path()+"."+gl.Name()] = true
						}
					}
				}
			}
		}
		for g := range refs {
			n++
			if w := exposed[g]; w != "" {
				bad++
				r.Fail(prop+".state", nm+" reads "+strings.TrimPrefix(g, "G:"), p.Pos(fn.Pos()), "the function reads a package-level variable that "+w+" hands to its caller by reference: a caller that writes through that result changes what this function computes")
			} else if w := written[g]; w != "" {
				bad++
				r.Fail(prop+".state", nm+" reads "+strings.TrimPrefix(g, "G:"), p.Pos(fn.Pos()), "the function reads a package-level variable that "+w+" writes outside package initialisation: its result depends on the history of calls")
			}
		}
	}
	if bad == 0 {
		r.OK(prop+".state", "package-level state read", fmt.Sprintf("%d read(s) of module variables from the property's entry points: none written outside init, none handed out by reference", n))
	}
}

// leafIntegrity runs the sibling cross-check on the generated primitives reachable from the property's entries.
func leafIntegrity(p *load.Prog, r *report.Report, prop string) {
	var entries []*ssa.Function
	for _, n := range leafEntries[prop] {
		var fn *ssa.Function
		if i := strings.Index(n, "."); i >= 0 {
			fn = p.Method(p.Root, n[:i], n[i+1:])
		} else {
			fn = p.Root.Func(n)
		}
		if fn != nil {
			entries = append(entries, fn)
		}
	}
	if len(entries) == 0 {
		return
	}
	siblingChecksFrom(p, r, prop, entries, 1)
}

func siblingChecksFrom(p *load.Prog, r *report.Report, prop string, entries []*ssa.Function, minPairs int) {
	mp := sibling.NewModulus("p", FP.M)
	mn := sibling.NewModulus("n", FN.M)
	reach := map[*ssa.Function]bool{}
	for _, f := range entries {
		for g := range p.Reachable(f) {
			reach[g] = true
		}
	}
	// the final conditional subtraction of every reachable primitive, checked on each file alone
	nt := 0
	for _, x := range []struct {
		pkg *ssa.Package
		m   *sibling.Modulus
	}{{p.Field, mp}, {p.Scalar, mn}} {
		for _, mem := range x.pkg.Members {
			fn, ok := mem.(*ssa.Function)
			if !ok || !absint.IsFiatLeaf(fn) || !reach[fn] {
				continue
			}
			applies, good, pos, msg := sibling.TailOK(fn, x.m)
			if !applies {
				continue
			}
			nt++
			r.Check(good, prop+".tail", x.pkg.Pkg.Name()+"."+fn.Name(), p.Pos(pos), "ends with the five-step subtraction of the modulus and four conditional moves on its borrow", "generated primitive tampered: "+msg)
		}
	}
	r.Analysed["montgomery_tails_checked"] = nt
	// consecutive reduction rounds of one primitive must be computed alike (E8-rounds); the pairs below hold on the
	// pinned tree and are required (the first round is special: no incoming top word, pruned products)
	nr := 0
	for _, x := range []struct {
		pkg *ssa.Package
		m   *sibling.Modulus
	}{{p.Field, mp}, {p.Scalar, mn}} {
		for _, name := range []string{"Mul", "Square", "ToMontgomery", "FromMontgomery"} {
			fn := x.pkg.Func(name)
			if fn == nil || !reach[fn] {
				continue
			}
			want := roundPairs[x.pkg.Pkg.Name()+"."+name]
			if len(want) == 0 {
				continue
			}
			res := sibling.Rounds(fn, x.m)
			construct := x.pkg.Pkg.Name() + "." + name + " rounds"
			if !res.Applies {
				r.Fail(prop+".rounds", construct, p.Pos(fn.Pos()), "generated primitive tampered: the four reduction rounds (four multiplications by m') were not found")
				continue
			}
			bad := map[int]bool{}
			for _, k := range res.Bad {
				bad[k] = true
			}
			done := map[int]bool{}
			for _, k := range res.Pairs {
				done[k] = true
			}
			good := true
			for _, k := range want {
				if bad[k] || !done[k] {
					good = false
				}
			}
			nr++
			r.Check(good, prop+".rounds", construct, p.Pos(res.Pos), fmt.Sprintf("reduction rounds %v are computed like their successors (same data-flow graph on the five accumulator words)", want), "generated primitive tampered: "+res.Msg)
		}
	}
	r.Analysed["montgomery_round_pairs_checked"] = nr
	// E9: the specification congruence of each Montgomery primitive, decided on the function alone
	ncg := 0
	for _, x := range []struct {
		pkg *ssa.Package
		m   *sibling.Modulus
	}{{p.Field, mp}, {p.Scalar, mn}} {
		for _, name := range []string{"Mul", "Square", "ToMontgomery", "FromMontgomery", "Add", "Sub", "Opp"} {
			fn := x.pkg.Func(name)
			if fn == nil || !reach[fn] {
				continue
			}
			cg := sibling.Congruence(fn, x.m)
			if !cg.Applies {
				continue
			}
			ncg++
			construct := fn.Pkg.Pkg.Name() + "." + name + " congruence"
			if cg.OK {
				r.OK(prop+".congruence", construct, fmt.Sprintf("%s, as a polynomial identity over the input limbs: %d words evaluated, %d discarded low words proven ≡ 0 (mod 2^64), %d atoms for discarded high words, carries and borrows all cancel", cg.Msg, cg.Words, cg.Dropped, cg.Atoms))
			} else {
				r.Fail(prop+".congruence", construct, p.Pos(cg.Pos), "generated primitive tampered: "+cg.Msg)
			}
		}
	}
	r.Analysed["montgomery_congruences_checked"] = ncg
	n := 0
	for _, pair := range sibling.Pairs(p.Field, p.Scalar) {
		fa, fb := pair[0], pair[1]
		if !absint.IsFiatLeaf(fa) || (!reach[fa] && !reach[fb]) {
			continue
		}
		n++
		name := fa.Name()
		shapeDiffers := name == "ToMontgomery" || name == "SetOne"
		if shapeDiffers {
			for _, x := range []struct {
				fn *ssa.Function
				m  *sibling.Modulus
			}{{fa, mp}, {fb, mn}} {
				if name == "SetOne" {
					ok, pos, msg := sibling.SetOneOK(x.fn, x.m)
					r.Check(ok, prop+".sibling", x.fn.Pkg.Pkg.Name()+".SetOne exact", p.Pos(pos), "out1[i] = limb i of R mod m for i = 0..3, each stored once", "generated primitive tampered: "+msg)
				}
				res := sibling.CompareLiterals(x.fn, x.m)
				construct := x.fn.Pkg.Pkg.Name() + "." + name + " literals"
				if res.Same {
					r.OK(prop+".sibling", construct, fmt.Sprintf("%d large literal(s), each a limb of m, R mod m, R^2 mod m or m' of its own modulus", res.Nodes))
				} else {
					r.Fail(prop+".sibling", construct, p.Pos(res.Diff.Pos), "generated primitive tampered: "+res.Diff.Msg)
				}
			}
		} else {
			res := sibling.CompareDAG(fa, fb, mp, mn)
			construct := "field." + name + " ~ scalar." + name
			if res.Same {
				r.OK(prop+".sibling", construct, fmt.Sprintf("identical data-flow graphs (%d output stores, %d node pairs); every literal has the same role for its modulus", res.Stores, res.Nodes))
			} else {
				r.Fail(prop+".sibling", construct, p.Pos(res.Diff.Pos), "the two generated files disagree (one of them was edited by hand): "+res.Diff.Msg)
			}
		}
		for _, fn := range []*ssa.Function{fa, fb} {
			if strings.HasPrefix(fn.Name(), "cmov") {
				continue
			}
			ok, pos := sibling.AliasSafe(fn)
			r.Check(ok, prop+".aliassafe", fn.Pkg.Pkg.Name()+"."+fn.Name(), p.Pos(pos), "all loads through arguments precede all stores to outputs: calling with out = arg is safe", "an argument is read after an output was written: unsafe when out aliases arg, as the wrappers call it")
		}
	}
	// primitives that exist (uncommented) in one package only: literal roles
	for _, x := range []struct {
		pkg, other *ssa.Package
		m          *sibling.Modulus
	}{{p.Field, p.Scalar, mp}, {p.Scalar, p.Field, mn}} {
		for name, mem := range x.pkg.Members {
			fn, ok := mem.(*ssa.Function)
			if !ok || !absint.IsFiatLeaf(fn) || !reach[fn] || x.other.Func(name) != nil {
				continue
			}
			switch name {
			case "Nonzero":
				ok, pos, msg := sibling.NonzeroOK(fn)
				r.Check(ok, prop+".sibling", fn.Pkg.Pkg.Name()+".Nonzero exact (no sibling)", p.Pos(pos), "*out1 = arg1[0] | arg1[1] | arg1[2] | arg1[3]", "generated primitive tampered: "+msg)
			case "Opp":
				if sub := x.pkg.Func("Sub"); sub != nil {
					res := sibling.CompareOppSub(fn, sub, x.m)
					if res.Same {
						r.OK(prop+".sibling", fn.Pkg.Pkg.Name()+".Opp ~ "+fn.Pkg.Pkg.Name()+".Sub with a zero minuend (no sibling)", fmt.Sprintf("identical data-flow graphs (%d output stores, %d node pairs)", res.Stores, res.Nodes))
					} else {
						r.Fail(prop+".sibling", fn.Pkg.Pkg.Name()+".Opp ~ "+fn.Pkg.Pkg.Name()+".Sub with a zero minuend (no sibling)", p.Pos(res.Diff.Pos), "generated primitive tampered: Opp is not the subtraction from zero: "+res.Diff.Msg)
					}
				}
			}
			res := sibling.CompareLiterals(fn, x.m)
			construct := fn.Pkg.Pkg.Name() + "." + name + " literals (no sibling)"
			if res.Same {
				r.OK(prop+".sibling", construct, fmt.Sprintf("%d large literal(s), each with a role for its modulus", res.Nodes))
			} else {
				r.Fail(prop+".sibling", construct, p.Pos(res.Diff.Pos), "generated primitive tampered: "+res.Diff.Msg)
			}
			ok2, pos := sibling.AliasSafe(fn)
			r.Check(ok2, prop+".aliassafe", fn.Pkg.Pkg.Name()+"."+fn.Name(), p.Pos(pos), "all loads through arguments precede all stores to outputs", "an argument is read after an output was written")
		}
	}
	r.RequireCount(prop+".sibling", "Fiat primitives reachable from the property's entry points with a sibling", n, minPairs)
}
