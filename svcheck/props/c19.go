package props

import (
	"fmt"
	"go/types"
	"sort"
	"strings"

	"golang.org/x/tools/go/ssa"

	"svcheck/absint"
	"svcheck/load"
	"svcheck/report"
)

// runGuarded runs f and converts analyser aborts into an error string.
func runGuarded(f func()) (aborted string) {
	defer func() {
		if e := recover(); e != nil {
			aborted = absint.DescribePanic(e)
			if aborted == "" {
				panic(e)
			}
		}
	}()
	f()
	return ""
}

// C19: scalar multiplication follows a scalar-independent schedule of field operations.
func C19(p *load.Prog, r *report.Report) {
	r.Explanation = "E5 on E1's exact-heap interpreter in opaque mode: Element.Multiply is executed abstractly with the scalar's limbs marked secret and the point public-unknown; the 256-iteration ladder is unrolled (its bounds are constants of the analysis). At every branch whose condition depends on the secret, both arms are run to the immediate post-dominator and their sequences of entries into internal/field and internal/scalar functions (nested, Fiat primitives included) must be identical; secret-dependent loop exits, external calls and indices into memory that is not a small table of operands are violations; an operand selected by a secret index among at most 16 table elements (r[bit]) or a pointer chosen under a secret condition is followed for every alternative, the calls made through it must have identical traces. The one exemption is a branch on the direct result of Scalar.IsOne (the documented shortcut). Fiat primitives must be branch-free (checked on their SSA)."
	r.Trusted = []string{"go/ssa", "the trace is taken at function-entry granularity of the two internal packages (timing inside a function, cache effects - also of secret-indexed table lookups - and compiler-introduced branches are out of scope: the property speaks of the sequence of field-level operations)"}
	mul := p.Method(p.Root, "Element", "Multiply")
	if mul == nil {
		r.Undecided("C19.anchor", "(*Element).Multiply", "", "method not found")
		return
	}
	// the exemption of the IsOne shortcut rests on IsOne being true for the scalar 1 only: C13's whole-value equality
	// obligations (Equal / IsZero / IsOne) are part of this property's argument
	inherit(p, r, "C19", "C13", C13, "C13.equality", "C13.model", "C13.anchor")
	origins := map[*ssa.Function]string{}
	for _, f := range p.ExportedAPI() {
		if recv := f.Signature.Recv(); recv != nil && strings.HasSuffix(recv.Type().String(), ".Scalar") {
			res := f.Signature.Results()
			if res.Len() == 1 {
				if b, ok := res.At(0).Type().Underlying().(*types.Basic); ok && b.Info()&(types.IsBoolean|types.IsInteger) != 0 {
					origins[f] = f.Name()
				}
			}
		}
	}
	cfg := absint.Config{Opaque: true, JoinAll: true, ExemptOrigin: map[string]bool{"IsOne": true}, OriginOf: origins}
	var it *absint.Interp
	aborted := runGuarded(func() {
		it = absint.New(p, cfg)
		pt := it.NewObject(p.Root.Type("Element").Type(), "P", true)
		it.Fill(pt.Root, absint.Top{Why: "public point"})
		k := it.NewObject(p.Root.Type("Scalar").Type(), "k", true)
		it.Fill(k.Root, absint.Top{Taint: true, Why: "secret scalar"})
		it.CallFn(mul, []absint.Value{absint.Ptr{C: pt.Root}, absint.Ptr{C: k.Root}})
	})
	if aborted != "" {
		r.Undecided("C19.analysis", "(*Element).Multiply", "", "analysis aborted: "+aborted)
		if it == nil {
			return
		}
	}
	nTainted, nEqual, nExempt, nSelect := 0, 0, 0, 0
	bad := map[string]bool{}
	for _, e := range it.Events {
		pos := p.Pos(e.Pos)
		fn := "?"
		if e.Fn != nil {
			fn = e.Fn.Name()
		}
		switch e.Kind {
		case "tainted-branch":
			nTainted++
			if strings.Contains(e.Msg, "equal=true") {
				nEqual++
			} else if strings.Contains(e.Msg, "origin=IsOne ") {
				nExempt++
			}
		case "tainted-select":
			// an operand selected by a secret index among the elements of a small table: the calls made through it
			// are executed for every alternative and must have identical traces (a divergence is reported by the
			// call itself); the selection does not change the sequence of field-level operations
			nSelect++
		case "trace-divergence":
			key := "secret-dependent branch in " + fn
			if !bad[key+pos] {
				bad[key+pos] = true
				r.Fail("C19.schedule", key, pos, e.Msg)
			}
		case "tainted-index", "tainted-loop", "tainted-external":
			key := e.Kind + " in " + fn
			if !bad[key+pos] {
				bad[key+pos] = true
				r.Fail("C19.schedule", key, pos, e.Msg)
			}
		case "unmodelled", "unknown-index":
			key := e.Kind + " in " + fn
			if !bad[key+pos] {
				bad[key+pos] = true
				r.Undecided("C19.analysis", key, pos, e.Msg)
			}
		}
	}
	r.Analysed["secret_dependent_branches"] = nTainted
	r.Analysed["secret_dependent_branches_with_equal_arms"] = nEqual
	r.Analysed["exempt_shortcut_branches"] = nExempt
	r.Analysed["secret_indexed_selections"] = nSelect
	r.Analysed["trace_function_entries"] = absint.TraceLen(it.Trace)
	r.Analysed["fiat_leaf_calls"] = it.LeafCalls
	if len(bad) == 0 && aborted == "" {
		r.OK("C19.schedule", "(*Element).Multiply", fmt.Sprintf("%d secret-dependent branches: %d with identical arm traces, %d the exempt IsOne shortcut; no secret-dependent index, loop exit or external call; trace length %d function entries", nTainted, nEqual, nExempt, absint.TraceLen(it.Trace)))
	}
	// the ladder must actually have been seen: a rule that matched nothing passes vacuously
	r.Analysed["field_primitives_on_secret_operands"] = it.TaintedLeafCalls
	if nEqual+nSelect < 128 && it.TaintedLeafCalls >= 2000 {
		// a ladder without branches or table lookups (conditional swaps through the constant-time select): the secret
		// reaches the arithmetic through data only
		r.RequireCount("C19.ladder", "field primitives executed on secret-dependent operands (a vacuity guard: the scalar reaches the ladder through data, e.g. conditional swaps)", it.TaintedLeafCalls, 2000)
	} else {
		r.RequireCount("C19.ladder", "secret-dependent branches with equal arms or secret-indexed operand selections (one per scalar bit; a vacuity guard, not the ladder length)", nEqual+nSelect, 128)
	}
	// Fiat primitives and the field wrappers reached must be branch-free or have constant branches only: checked dynamically above;
	// additionally the generated primitives are checked structurally.
	var leaves []string
	for fn := range it.FuncsEntered {
		if absint.IsFiatLeaf(fn) {
			branches := 0
			for _, b := range fn.Blocks {
				for _, in := range b.Instrs {
					if _, ok := in.(*ssa.If); ok {
						branches++
					}
				}
			}
			name := fn.Pkg.Pkg.Name() + "." + fn.Name()
			leaves = append(leaves, name)
			r.Check(branches == 0 && len(fn.Blocks) == 1, "C19.leaf", name, p.Pos(fn.Pos()), "straight-line code (1 basic block)", fmt.Sprintf("generated primitive has %d branch(es) in %d blocks: its schedule may depend on its operands", branches, len(fn.Blocks)))
		}
	}
	sort.Strings(leaves)
	r.Sample(map[string]interface{}{"entry": "(*Element).Multiply", "secret": "pointee of the *Scalar argument", "branches_on_secret": nTainted, "leaves_reached": leaves})
}
