package props

import (
	"fmt"

	"svcheck/absint"
	"svcheck/load"
	"svcheck/report"
)

// retTerm converts a returned value into a term.
func retTerm(it *absint.Interp, v absint.Value) (*absint.Term, bool) {
	t, ok := absint.AsTerm(v)
	if ok {
		t = it.ApplyTerm(t)
	}
	return t, ok
}

func reportEvents(p *load.Prog, r *report.Report, rule, construct string, res *absint.PathResult) bool {
	bad := false
	for _, e := range eventsOf(res, "precond", "selector", "unmodelled", "top-branch", "bounds", "global-store", "unknown-index") {
		r.Undecided(rule, construct+" ("+e.Kind+")", p.Pos(e.Pos), e.Msg)
		bad = true
	}
	return bad
}

// C05: Equal / IsIdentity are representation-independent.
func C05(p *load.Prog, r *report.Report) {
	r.Explanation = "E1: Element.Equal is interpreted with two symbolic projective triples; its result must be exactly the conjunction of the two cross-multiplied equalities [X1·Z2 = X2·Z1] and [Y1·Z2 = Y2·Z1], each of which must be the equality of the whole 4-limb value (the limb-wise fold is analysed down to the xor/or/non-zero idiom: a fold that omits a limb does not normalise to a whole-value equality). IsIdentity must be [Z = 0]. Symmetry and invariance under scaling of either operand are then theorems of the normal form; that the two cross equalities characterise equality of projective points with the identity being z = 0 is projective geometry (for points of the curve (0:c:0) is the only point with z = 0)."
	r.Trusted = []string{"Fiat leaf specifications", "Montgomery representation is a bijection on [0,p): equal limbs <=> equal field values", "projective equality <=> vanishing of the 2x2 minors involving z (given at most one point with z = 0)"}
	m, err := discoverModel(p)
	if err != nil {
		r.Undecided("C05.model", "coordinate roles", "", err.Error())
		return
	}
	m.stateGuard(r, "C05", true, false)
	P1, P2 := symPt("1"), symPt("2")
	if fn := p.Method(p.Root, "Element", "Equal"); fn != nil {
		for _, alias := range []bool{false, true} {
			name := "Equal(P,Q)"
			if alias {
				name = "Equal(P,P) same object"
			}
			explore(p, absint.Config{}, fn, func(it *absint.Interp) []absint.Value {
				a := m.newElem(it, "P", P1.X, P1.Y, P1.Z)
				if alias {
					return []absint.Value{ptr(a), ptr(a)}
				}
				return []absint.Value{ptr(a), ptr(m.newElem(it, "Q", P2.X, P2.Y, P2.Z))}
			}, func(res *absint.PathResult) {
				if res.Exit != "return" {
					r.Undecided("C05.equal", name, p.Pos(fn.Pos()), res.Exit+" "+res.Abort+" "+guardString(res))
					return
				}
				hyp := newPathHyp(res.It, "1", "2")
				cname := name
				if len(res.Guards) > 0 {
					if !hyp.ok {
						r.Undecided("C05.equal", name+" path "+shortGuards(res), p.Pos(fn.Pos()), "the comparison branches on data the analysis cannot relate to the operands: "+hyp.String())
						return
					}
					cname = name + " [" + hyp.String() + "]"
				}
				if reportEvents(p, r, "C05.equal", cname, res) {
					return
				}
				got, ok := retTerm(res.It, res.Ret)
				if !ok {
					r.Undecided("C05.equal", cname, p.Pos(fn.Pos()), "result is "+absint.Show(res.Ret))
					return
				}
				Q := P2
				if alias {
					Q = P1
				}
				want := absint.ISZ(P1.X.Mul(Q.Z).Sub(Q.X.Mul(P1.Z))).Mul(absint.ISZ(P1.Y.Mul(Q.Z).Sub(Q.Y.Mul(P1.Z))))
				g2, w2 := hyp.term(res.It.DeepApplyTerm(got)), hyp.term(res.It.DeepApplyTerm(want))
				r.Check(g2.Equal(w2), "C05.equal", cname, p.Pos(fn.Pos()), "result = "+w2.String(), fmt.Sprintf("result is %s, expected %s", g2, w2))
				r.Sample(map[string]interface{}{"case": cname, "result": g2.String()})
				// operands unchanged
				for _, c := range res.It.InputRoots() {
					x, y, z, why := m.coords(res.It, c)
					ref := P1
					if c.Obj.Name == "Q" {
						ref = P2
					}
					r.Check(why == "" && x.Equal(ref.X) && y.Equal(ref.Y) && z.Equal(ref.Z), "C05.pure", name+" operand "+c.Obj.Name, p.Pos(fn.Pos()), "operand unchanged", "comparison modifies an operand")
				}
			})
		}
	} else {
		r.Undecided("C05.anchor", "Equal", "", "method not found")
	}
	if fn := p.Method(p.Root, "Element", "IsIdentity"); fn != nil {
		explore(p, absint.Config{}, fn, func(it *absint.Interp) []absint.Value {
			return []absint.Value{ptr(m.newElem(it, "P", P1.X, P1.Y, P1.Z))}
		}, func(res *absint.PathResult) {
			name := "IsIdentity(P)"
			if res.Exit != "return" {
				r.Undecided("C05.identity", name, p.Pos(fn.Pos()), res.Exit+" "+res.Abort+" "+guardString(res))
				return
			}
			if reportEvents(p, r, "C05.identity", name, res) {
				return
			}
			// checked path by path: on each path both the result and [Z = 0] are specialised to the path's constraints
			got, ok := retTerm(res.It, res.Ret)
			if ok {
				got = res.It.DeepApplyTerm(got)
			}
			want := res.It.DeepApplyTerm(absint.ISZ(P1.Z))
			r.Check(ok && got.Equal(want), "C05.identity", name, p.Pos(fn.Pos()), "result = [Z = 0]", fmt.Sprintf("result is %s, expected %s", absint.Show(res.Ret), want))
		})
	} else {
		r.Undecided("C05.anchor", "IsIdentity", "", "method not found")
	}
	// field-level: Equals and IsZero are whole-value tests
	a, b := absint.FieldSym(FP, "a"), absint.FieldSym(FP, "b")
	if fn := anchorMethod(p, p.Field, "Element", "Equals"); fn != nil {
		explore(p, absint.Config{}, fn, func(it *absint.Interp) []absint.Value {
			return []absint.Value{ptr(m.newFE(it, "a", a)), ptr(m.newFE(it, "b", b))}
		}, func(res *absint.PathResult) {
			got, ok := retTerm(res.It, res.Ret)
			want := absint.ISZ(a.Sub(b))
			r.Check(res.Exit == "return" && ok && got.Equal(want), "C05.field-equals", "field.Element.Equals", p.Pos(fn.Pos()), "result = [a = b] over all four limbs", fmt.Sprintf("result is %s, expected %s (a limb missing from the comparison leaves limb-level atoms)", absint.Show(res.Ret), want))
		})
	} else {
		r.Undecided("C05.anchor", "field.Element.Equals", "", "method not found")
	}
	if fn := anchorMethod(p, p.Field, "Element", "IsZero"); fn != nil {
		explore(p, absint.Config{}, fn, func(it *absint.Interp) []absint.Value {
			return []absint.Value{ptr(m.newFE(it, "a", a))}
		}, func(res *absint.PathResult) {
			got, ok := retTerm(res.It, res.Ret)
			want := absint.ISZ(a)
			r.Check(res.Exit == "return" && ok && got.Equal(want), "C05.field-iszero", "field.Element.IsZero", p.Pos(fn.Pos()), "result = [a = 0]", fmt.Sprintf("result is %s, expected %s", absint.Show(res.Ret), want))
		})
	} else {
		r.Undecided("C05.anchor", "field.Element.IsZero", "", "method not found")
	}
}
