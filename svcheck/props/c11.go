package props

import (
	"fmt"

	"svcheck/absint"
	"svcheck/load"
	"svcheck/report"
)

// runSSWU interprets the code's SSWU on the field value u and returns the coordinates of the result.
func runSSWU(p *load.Prog, m *elemModel, u *absint.Poly) (x, y, z *absint.Poly, problems []string) {
	fn := p.Root.Func("SSWU")
	if fn == nil {
		return nil, nil, nil, []string{"function SSWU not found"}
	}
	n := 0
	explore(p, absint.Config{}, fn, func(it *absint.Interp) []absint.Value {
		return []absint.Value{ptr(m.newFE(it, "u", u))}
	}, func(res *absint.PathResult) {
		n++
		if res.Exit != "return" || len(res.Guards) > 0 || n > 1 {
			problems = append(problems, "SSWU is not a total straight-line map: "+res.Exit+" "+res.Abort+" "+guardString(res))
			return
		}
		for _, e := range eventsOf(res, "precond", "selector", "unmodelled", "top-branch", "bounds", "unknown-index") {
			problems = append(problems, e.Kind+": "+e.Msg)
		}
		pr, ok := res.Ret.(absint.Ptr)
		if !ok {
			problems = append(problems, "SSWU returns "+absint.Show(res.Ret))
			return
		}
		var why string
		x, y, z, why = m.coords(res.It, pr.C)
		if why != "" {
			problems = append(problems, why)
		}
		if uv, w := res.It.ReadMont(FP, m.limbCell(res.It.InputRoots()[0])); w != "" || !uv.Equal(u) {
			problems = append(problems, "SSWU modifies its argument")
		}
	})
	return
}

// runIso interprets IsogenySecp256k13iso on the point (x:y:z) and returns the resulting coordinates.
func runIso(p *load.Prog, m *elemModel, in pt) (out pt, problems []string) {
	fn := p.Root.Func("IsogenySecp256k13iso")
	if fn == nil {
		return pt{}, []string{"function IsogenySecp256k13iso not found"}
	}
	n := 0
	explore(p, absint.Config{}, fn, func(it *absint.Interp) []absint.Value {
		return []absint.Value{ptr(m.newElem(it, "Q", in.X, in.Y, in.Z))}
	}, func(res *absint.PathResult) {
		n++
		if res.Exit != "return" || len(res.Guards) > 0 || n > 1 {
			problems = append(problems, "the isogeny map is not a total straight-line map: "+res.Exit+" "+res.Abort+" "+guardString(res))
			return
		}
		for _, e := range eventsOf(res, "precond", "selector", "unmodelled", "top-branch", "bounds", "unknown-index") {
			problems = append(problems, e.Kind+": "+e.Msg)
		}
		pr, ok := res.Ret.(absint.Ptr)
		if !ok {
			problems = append(problems, "the isogeny map returns "+absint.Show(res.Ret))
			return
		}
		x, y, z, why := m.coords(res.It, pr.C)
		if why != "" {
			problems = append(problems, why)
		}
		out = pt{x, y, z}
	})
	return
}

// specIsoPoint is the RFC 9380 E.1 map with the code's convention for the exceptional case (a zero denominator maps to the identity).
func specIsoPoint(x, y *absint.Poly) pt {
	xNum, xDen, yNum, yDen := specIso(x, y)
	id := absint.POr(absint.ISZ(xDen), absint.ISZ(yDen))
	ox := cmov(xNum.Mul(xDen.Inv()), pInt(FP, 0), id)
	oy := cmov(y.Mul(yNum).Mul(yDen.Inv()), pInt(FP, 1), id)
	oz := cmov(pInt(FP, 1), pInt(FP, 0), id)
	return pt{ox, oy, oz}
}

// C11: map-to-curve is total and RFC-exact on every field element.
func C11(p *load.Prog, r *report.Report) {
	r.Explanation = "E1 polynomial domain with predicate variables: SSWU is interpreted on a symbolic field element u (the addition chains enter through power summaries computed from their own code: x^((p-3)/4), x^(p-2)); its result must equal, as a guarded polynomial in u, the value of the RFC 9380 F.2 straight-line program with Z = -11, A', B' of the 3-isogenous curve - including the tv2 = 0 move, sqrt_ratio (F.2.1.2, c2^2 = -Z) and the sgn0 fix-up. field.SqrtRatio is compared with F.2.1.2 on symbolic (u, v); the isogeny with the E.1 rational map (13 constants), a zero denominator giving the identity. Totality: one path, no panic, no error, no unproven precondition. That the prescribed point satisfies y^2 = x^3 + 7 is then RFC 9380's theorem."
	r.Trusted = []string{"Fiat leaf specifications", "RFC 9380 F.2, F.2.1.2, E.1 and section 8.7 (transcribed in svcheck/props/spec.go) as the oracle", "Fermat: x^(p-2) = inv0(x)", "go/ssa"}
	m, err := discoverModel(p)
	if err != nil {
		r.Undecided("C11.model", "layout", "", err.Error())
		return
	}
	m.stateGuard(r, "C11", true, false)
	roots := sqrtMinusZ()
	// (b) sqrt_ratio
	if fn := anchorMethod(p, p.Field, "Element", "SqrtRatio"); fn != nil {
		u, v := absint.FieldSym(FP, "u"), absint.FieldSym(FP, "v")
		explore(p, absint.Config{}, fn, func(it *absint.Interp) []absint.Value {
			return []absint.Value{ptr(m.newFE(it, "out", pInt(FP, 0))), ptr(m.newFE(it, "u", u)), ptr(m.newFE(it, "v", v))}
		}, func(res *absint.PathResult) {
			name := "field.Element.SqrtRatio"
			if res.Exit != "return" || len(res.Guards) > 0 {
				r.Undecided("C11.sqrt_ratio", name, p.Pos(fn.Pos()), res.Exit+" "+res.Abort+" "+guardString(res))
				return
			}
			if reportEvents(p, r, "C11.sqrt_ratio", name, res) {
				return
			}
			tup, ok := res.Ret.(absint.Tuple)
			if !ok || len(tup) != 2 {
				r.Undecided("C11.sqrt_ratio", name, p.Pos(fn.Pos()), "unexpected result shape")
				return
			}
			pr, _ := tup[0].(absint.Ptr)
			flag, fok := retTerm(res.It, tup[1])
			var got *absint.Poly
			if pr.C != nil {
				got, _ = res.It.ReadMont(FP, m.limbCell(pr.C))
			}
			good := false
			for _, c2 := range roots {
				wy, wq := specSqrtRatio(u, v, c2)
				if got != nil && fok && got.Equal(wy) && flag.Equal(wq) {
					good = true
				}
			}
			r.Check(good, "C11.sqrt_ratio", name, p.Pos(fn.Pos()), "(y, isQR) equals RFC 9380 F.2.1.2 on symbolic (u, v), with c1 = (p-3)/4 from the chain's own code and c2^2 = -Z", "the result differs from sqrt_ratio_3mod4 of RFC 9380 (wrong exponent chain, constant, test or selection)")
		})
	} else {
		r.Undecided("C11.anchor", "field.Element.SqrtRatio", "", "method not found")
	}
	// (a) SSWU
	u := absint.FieldSym(FP, "u")
	x, y, z, problems := runSSWU(p, m, u)
	sswuPos := ""
	if fn := p.Root.Func("SSWU"); fn != nil {
		sswuPos = p.Pos(fn.Pos())
	}
	for _, pr := range problems {
		r.Undecided("C11.sswu", "SSWU", sswuPos, pr)
	}
	if x != nil && y != nil && len(problems) == 0 {
		good := false
		for _, c2 := range roots {
			wx, wy := specSSWU(u, c2)
			if x.Equal(wx) && y.Equal(wy) {
				good = true
			}
		}
		r.Check(good, "C11.sswu", "SSWU(u)", sswuPos, fmt.Sprintf("(x, y) equals the RFC 9380 F.2 program on symbolic u (x: %d terms, y: %d terms), exceptional branch and sign fix-up included", x.NumTerms(), y.NumTerms()), "the result differs from map_to_curve_simple_swu of RFC 9380 for some u (a wrong constant, conditional move, sign rule or step)")
		zc, zok := z.IsConst()
		r.Check(zok && zc.Int64() == 1, "C11.sswu-z", "SSWU(u) z", sswuPos, "affine point (z = 1)", "z is not 1")
		r.Sample(map[string]interface{}{"map": "SSWU", "x_terms": x.NumTerms(), "y_terms": y.NumTerms()})
	}
	// (c) isogeny
	in := pt{absint.FieldSym(FP, "x'"), absint.FieldSym(FP, "y'"), pInt(FP, 1)}
	out, problems := runIso(p, m, in)
	isoPos := ""
	if fn := p.Root.Func("IsogenySecp256k13iso"); fn != nil {
		isoPos = p.Pos(fn.Pos())
	}
	for _, pr := range problems {
		r.Undecided("C11.iso", "IsogenySecp256k13iso", isoPos, pr)
	}
	if out.X != nil && len(problems) == 0 {
		want := specIsoPoint(in.X, in.Y)
		r.Check(absint.EqualGuarded(out.X, want.X) && absint.EqualGuarded(out.Y, want.Y) && absint.EqualGuarded(out.Z, want.Z), "C11.iso", "IsogenySecp256k13iso(x',y')", isoPos, "(x_num/x_den, y'·y_num/y_den, 1) with the 13 constants of RFC 9380 E.1; identity iff a denominator is zero", "the result differs from the 3-isogeny map of RFC 9380 E.1 (a wrong constant, a dropped denominator test, or a wrong exceptional value)")
	}
	// z of the input must not matter (SSWU hands over z = 1, the affine sum leaves z untouched)
	in2 := pt{in.X, in.Y, absint.FieldSym(FP, "z'")}
	out2, problems2 := runIso(p, m, in2)
	if len(problems2) == 0 && out.X != nil && out2.X != nil {
		r.Check(out2.X.Equal(out.X) && out2.Y.Equal(out.Y) && out2.Z.Equal(out.Z), "C11.iso-z", "IsogenySecp256k13iso ignores the incoming z", isoPos, "the result does not depend on the z coordinate of its (affine) argument", "the result depends on a stale z coordinate")
	}
}
