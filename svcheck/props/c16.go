package props

import (
	"sort"
	"strings"

	"golang.org/x/tools/go/ssa"

	"svcheck/effects"
	"svcheck/load"
	"svcheck/report"
)

// nondeterministic or shared-state sources: allowed only where the property names them.
var entropyPkgs = map[string]bool{"crypto/rand": true, "math/rand": true, "math/rand/v2": true, "time": true, "os": true, "runtime": true, "sync": true, "sync/atomic": true}

// externalCallees lists the external packages statically called from functions reachable from f.
func externalCallees(p *load.Prog, f *ssa.Function) map[string][]string {
	out := map[string][]string{}
	for g := range p.Reachable(f) {
		for _, b := range g.Blocks {
			for _, in := range b.Instrs {
				var pkgs []string
				if c, ok := in.(ssa.CallInstruction); ok {
					if cal := c.Common().StaticCallee(); cal != nil && !p.InModule(cal) {
						pk := cal.Pkg
						if pk == nil && cal.Origin() != nil {
							pk = cal.Origin().Pkg
						}
						isPool := false
						if rcv := cal.Signature.Recv(); rcv != nil && strings.HasSuffix(rcv.Type().String(), "sync.Pool") {
							// an object pool: safe for concurrent use; that recycled objects do not influence results is
							// decided by the functional properties (a pooled hash state is unknown until reset)
							isPool = true
						}
						if pk != nil && !isPool {
							pkgs = append(pkgs, pk.Pkg.Path())
						}
					}
				}
				// loads of external package-level variables (e.g. rand.Reader)
				for _, op := range in.Operands(nil) {
					if gl, ok := (*op).(*ssa.Global); ok && gl.Pkg != nil && !strings.HasPrefix(gl.Pkg.Pkg.Path(), p.ModPrefix) {
						pkgs = append(pkgs, gl.Pkg.Pkg.Path())
					}
				}
				for _, pk := range pkgs {
					out[pk] = append(out[pk], g.Name()+" @"+p.Pos(in.Pos()))
				}
			}
		}
	}
	return out
}

// C16: concurrent use with shared read-only arguments is race-free and deterministic.
func C16(p *load.Prog, r *report.Report) {
	r.Explanation = "Frame argument decided by E2: concurrent calls on distinct receivers write disjoint objects and read only memory nobody writes, given (i) no exported function writes package-level state, (ii) no pointer into package-level state is returned and no caller pointer is retained there, (iii) no write reaches memory of a non-receiver (shared) argument, (iv) no unsafe/cgo/assembly/goroutines in the module, (v) the only nondeterministic or shared external source reachable is crypto/rand, and only from Scalar.Random. A data race needs two accesses to one location, one a write: (i)-(iii) exclude every such location for shared data; determinism follows from (v)."
	r.Trusted = []string{"go/ssa", "stdlib effect models (svcheck/effects/calls.go)", "crypto/rand.Reader and the crypto registry are safe for concurrent use", "Go memory model: no write to shared data ⇒ no data race"}
	a := effects.Run(p)
	n := frameChecks(p, a, p.Root, r, frameOpts{prop: "C16", argWrites: true, globals: true})
	r.Analysed["exported_functions"] = n
	r.RequireCount("C16.api", "exported functions and methods of the root package", n, 50)
	moduleHygiene(p, r, "C16")
	pooledResults(p, a, r, "C16")
	pooledOrder(p, r, "C16")
	// recycled objects: "every call returns what it would return if run alone" then rests on the functional proof
	// that a result is a function of the call's inputs only, whatever state a previous user left in the pooled object
	// (E1 hands out pooled objects with unknown contents). That proof is C08's and C09's; it is part of this
	// property's argument as soon as the module keeps a pool.
	hasPool := false
	for _, sp := range p.ModSSA {
		for _, m := range sp.Members {
			if g, ok := m.(*ssa.Global); ok && strings.HasSuffix(g.Type().String(), "sync.Pool") {
				hasPool = true
			}
		}
	}
	r.Analysed["module_keeps_object_pool"] = hasPool
	if hasPool {
		inherit(p, r, "C16", "C08", C08, "C08.expander", "C08.poolstate", "C08.total", "C08.composition", "C08.hash_to_field")
		inherit(p, r, "C16", "C09", C09, "C09.expander", "C09.poolstate", "C09.value", "C09.total")
	}
	// package-level variables of the module and who writes them
	nglob := 0
	for _, sp := range p.ModSSA {
		for _, m := range sp.Members {
			if _, ok := m.(*ssa.Global); ok && !strings.HasPrefix(m.Name(), "init$") {
				nglob++
			}
		}
	}
	r.Analysed["package_level_variables"] = nglob
	// determinism / shared external state
	for _, f := range p.ExportedAPI() {
		ext := externalCallees(p, f)
		var bad []string
		for pk := range ext {
			if entropyPkgs[pk] {
				bad = append(bad, pk)
			}
		}
		sort.Strings(bad)
		fname := strings.ReplaceAll(f.String(), load.ModPath+".", "")
		for _, pk := range bad {
			if pk == "crypto/rand" && f.Name() == "Random" {
				r.OK("C16.determinism", fname+" uses "+pk, "the documented entropy source of Scalar.Random (safe for concurrent use)")
				continue
			}
			r.Fail("C16.determinism", fname+" uses "+pk, ext[pk][0], "a time-, randomness-, process- or synchronisation-dependent package is reachable from a function whose result must be a function of its arguments only: "+strings.Join(ext[pk], ", "))
		}
		if len(bad) == 0 {
			r.OK("C16.determinism", fname, "no time/rand/os/runtime/sync dependency reachable")
		}
	}
	runFrameControls(r, "C16", map[string]bool{"argwrite": true, "globalwrite": true, "globalout": true})
	apiSamples(p, a, r)
}
