package props

import (
	"math/big"

	"svcheck/absint"
)

// Reference algorithms (RFC 9380), evaluated in the same algebra as the code.

var (
	pMinus3Div4 = new(big.Int).Rsh(new(big.Int).Sub(absint.FP.M, big.NewInt(3)), 2)
	sswuZ       = big.NewInt(-11)
	isoA        = hexInt("3f8731abdd661adca08a5558f0f5d272e953d363cb6f0e5d405447c01a444533")
	isoB        = big.NewInt(1771)
)

// sqrtMinusZ returns the two square roots of -Z = 11.
func sqrtMinusZ() [2]*big.Int {
	e := new(big.Int).Rsh(new(big.Int).Add(FP.M, big.NewInt(1)), 2)
	s := new(big.Int).Exp(big.NewInt(11), e, FP.M)
	return [2]*big.Int{s, new(big.Int).Sub(FP.M, s)}
}

// specSqrtRatio is sqrt_ratio_3mod4 (RFC 9380 F.2.1.2) with c2 given.
func specSqrtRatio(u, v *absint.Poly, c2 *big.Int) (y *absint.Poly, isQR *absint.Term) {
	tv1 := v.Mul(v)                                      // 1
	tv2 := u.Mul(v)                                      // 2
	tv1 = tv1.Mul(tv2)                                   // 3
	y1 := tv1.Pow(pMinus3Div4)                           // 4
	y1 = y1.Mul(tv2)                                     // 5
	y2 := y1.ScaleC(c2)                                  // 6
	tv3 := y1.Mul(y1)                                    // 7
	tv3 = tv3.Mul(v)                                     // 8
	isQR = absint.ISZ(tv3.Sub(u))                        // 9
	y = y2.Add(absint.EmbPred(FP, isQR).Mul(y1.Sub(y2))) // 10  CMOV(y2, y1, isQR)
	return
}

func cmov(a, b *absint.Poly, c *absint.Term) *absint.Poly { // CMOV(a, b, c) = b if c else a
	return a.Add(absint.EmbPred(FP, c).Mul(b.Sub(a)))
}

// sgn0 of a field value: parity of its canonical representative.
func sgn0(v *absint.Poly) *absint.Term { return absint.BIT(absint.CanonOf(FP, v), 0) }

// specSSWU is map_to_curve_simple_swu for the 3-isogenous curve of secp256k1 (RFC 9380 F.2, 8.7).
func specSSWU(u *absint.Poly, c2 *big.Int) (x, y *absint.Poly) {
	Z := absint.PolyConst(FP, sswuZ)
	A := absint.PolyConst(FP, isoA)
	B := absint.PolyConst(FP, isoB)
	tv1 := u.Mul(u)                                         // 1
	tv1 = Z.Mul(tv1)                                        // 2
	tv2 := tv1.Mul(tv1)                                     // 3
	tv2 = tv2.Add(tv1)                                      // 4
	tv3 := tv2.Add(pInt(FP, 1))                             // 5
	tv3 = B.Mul(tv3)                                        // 6
	tv4 := cmov(Z, tv2.Neg(), absint.PNot(absint.ISZ(tv2))) // 7  CMOV(Z, -tv2, tv2 != 0)
	tv4 = A.Mul(tv4)                                        // 8
	tv2 = tv3.Mul(tv3)                                      // 9
	tv6 := tv4.Mul(tv4)                                     // 10
	tv5 := A.Mul(tv6)                                       // 11
	tv2 = tv2.Add(tv5)                                      // 12
	tv2 = tv2.Mul(tv3)                                      // 13
	tv6 = tv6.Mul(tv4)                                      // 14
	tv5 = B.Mul(tv6)                                        // 15
	tv2 = tv2.Add(tv5)                                      // 16
	x = tv1.Mul(tv3)                                        // 17
	y1, isGx1Square := specSqrtRatio(tv2, tv6, c2)          // 18
	y = tv1.Mul(u)                                          // 19
	y = y.Mul(y1)                                           // 20
	x = cmov(x, tv3, isGx1Square)                           // 21
	y = cmov(y, y1, isGx1Square)                            // 22
	e1 := absint.PNot(absint.PXor(sgn0(u), sgn0(y)))        // 23
	y = cmov(y.Neg(), y, e1)                                // 24
	x = x.Mul(tv4.Inv())                                    // 25  x = x / tv4
	return
}

var isoK = map[string]*big.Int{
	"k10": hexInt("8e38e38e38e38e38e38e38e38e38e38e38e38e38e38e38e38e38e38daaaaa8c7"),
	"k11": hexInt("07d3d4c80bc321d5b9f315cea7fd44c5d595d2fc0bf63b92dfff1044f17c6581"),
	"k12": hexInt("534c328d23f234e6e2a413deca25caece4506144037c40314ecbd0b53d9dd262"),
	"k13": hexInt("8e38e38e38e38e38e38e38e38e38e38e38e38e38e38e38e38e38e38daaaaa88c"),
	"k20": hexInt("d35771193d94918a9ca34ccbb7b640dd86cd409542f8487d9fe6b745781eb49b"),
	"k21": hexInt("edadc6f64383dc1df7c4b2d51b54225406d36b641f5e41bbc52a56612a8c6d14"),
	"k30": hexInt("4bda12f684bda12f684bda12f684bda12f684bda12f684bda12f684b8e38e23c"),
	"k31": hexInt("c75e0c32d5cb7c0fa9d0a54b12a0a6d5647ab046d686da6fdffc90fc201d71a3"),
	"k32": hexInt("29a6194691f91a73715209ef6512e576722830a201be2018a765e85a9ecee931"),
	"k33": hexInt("2f684bda12f684bda12f684bda12f684bda12f684bda12f684bda12f38e38d84"),
	"k40": hexInt("fffffffffffffffffffffffffffffffffffffffffffffffffffffffefffff93b"),
	"k41": hexInt("7a06534bb8bdb49fd5e9e6632722c2989467c1bfc8e8d978dfb425d2685c2573"),
	"k42": hexInt("6484aa716545ca2cf3a70c3fa8fe337e0a3d21162f0d6299a7bf8192bfd2a76f"),
}

// specIso is the 3-isogeny map of RFC 9380 E.1: numerators and denominators.
func specIso(x, y *absint.Poly) (xNum, xDen, yNum, yDen *absint.Poly) {
	k := func(n string) *absint.Poly { return absint.PolyConst(FP, isoK[n]) }
	x2 := x.Mul(x)
	x3 := x2.Mul(x)
	xNum = k("k13").Mul(x3).Add(k("k12").Mul(x2)).Add(k("k11").Mul(x)).Add(k("k10"))
	xDen = x2.Add(k("k21").Mul(x)).Add(k("k20"))
	yNum = k("k33").Mul(x3).Add(k("k32").Mul(x2)).Add(k("k31").Mul(x)).Add(k("k30"))
	yDen = x3.Add(k("k42").Mul(x2)).Add(k("k41").Mul(x)).Add(k("k40"))
	return
}
