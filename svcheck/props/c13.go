package props

import (
	"fmt"

	"svcheck/absint"
	"svcheck/load"
	"svcheck/report"
)

// C13: scalar comparisons and conditional selection follow integer semantics.
func C13(p *load.Prog, r *report.Report) {
	r.Explanation = "E1 integer domain with representation-tagged values: LessOrEqual is interpreted on symbolic scalars s, t; its 4-limb borrow chain is summarised as LT(A,B) over the integers A, B whose limbs it consumes, and the result must be LT(Canon s, Canon t) OR [s = t] - a comparison of Montgomery representatives yields LT(MontRep s, MontRep t), a different atom with no rewrite to the canonical ordering. CSelect is interpreted with a symbolic 64-bit condition word: the word reaching the Fiat uint1 selector must be provably 0/1 (range analysis of the word term), and the receiver must be ite(cond != 0, v, u), also when an operand is the receiver; nil operands must return an error and write nothing. Equal/IsZero/IsOne must be whole-value equalities."
	r.Trusted = []string{"Fiat leaf specifications (Selectznz requires a 0/1 selector; FromMontgomery yields the canonical value)", "math/bits.Sub64 contract", "go/ssa"}
	m, err := discoverModel(p)
	if err != nil {
		r.Undecided("C13.model", "layout", "", err.Error())
		return
	}
	m.stateGuard(r, "C13", false, true)
	s, t := absint.FieldSym(FN, "s"), absint.FieldSym(FN, "t")
	cs, ct := absint.CanonOf(FN, s), absint.CanonOf(FN, t)
	// LessOrEqual
	if fn := p.Method(p.Root, "Scalar", "LessOrEqual"); fn != nil {
		for _, alias := range []bool{false, true} {
			name := "LessOrEqual(s,t)"
			if alias {
				name = "LessOrEqual(s,s)"
			}
			explore(p, absint.Config{}, fn, func(it *absint.Interp) []absint.Value {
				a := m.newScalar(it, "s", s)
				if alias {
					return []absint.Value{ptr(a), ptr(a)}
				}
				return []absint.Value{ptr(a), ptr(m.newScalar(it, "t", t))}
			}, func(res *absint.PathResult) {
				if res.Exit != "return" || len(res.Guards) > 0 {
					r.Undecided("C13.lessorequal", name, p.Pos(fn.Pos()), res.Exit+" "+res.Abort+" "+guardString(res))
					return
				}
				if reportEvents(p, r, "C13.lessorequal", name, res) {
					return
				}
				got, ok := retTerm(res.It, res.Ret)
				want := absint.POr(absint.LT(cs, ct), absint.ISZ(s.Sub(t)))
				if alias {
					want = absint.TInt(1)
				}
				same := ok && (got.Equal(want) || absint.TrichoNorm(got).Equal(absint.TrichoNorm(want)))
				if ok && !same && !alias {
					// a limb-by-limb (lexicographic) comparison: both sides as Boolean functions of the limb comparisons
					eq := absint.ISZ(s.Sub(t))
					same = absint.SameLex(got, want, cs, ct, eq)
				}
				r.Check(same, "C13.lessorequal", name, p.Pos(fn.Pos()), "result = "+want.String(), fmt.Sprintf("result is %s; the integer semantics requires %s (an ordering of internal Montgomery representatives is not the ordering of the values)", absint.Show(res.Ret), want))
				if ok {
					r.Sample(map[string]interface{}{"case": name, "result": got.String()})
				}
			})
		}
	} else {
		r.Undecided("C13.anchor", "LessOrEqual", "", "method not found")
	}
	// CSelect
	if fn := p.Method(p.Root, "Scalar", "CSelect"); fn != nil {
		u, v, r0 := absint.FieldSym(FN, "u"), absint.FieldSym(FN, "v"), absint.FieldSym(FN, "r")
		cond := absint.SymWord("cond")
		type cfg struct {
			name         string
			uRecv, vRecv bool
		}
		for _, c := range []cfg{{"CSelect(cond,u,v)", false, false}, {"CSelect(cond,recv,v)", true, false}, {"CSelect(cond,u,recv)", false, true}} {
			explore(p, absint.Config{}, fn, func(it *absint.Interp) []absint.Value {
				recv := m.newScalar(it, "recv", r0)
				uo, vo := recv, recv
				if !c.uRecv {
					uo = m.newScalar(it, "u", u)
				}
				if !c.vRecv {
					vo = m.newScalar(it, "v", v)
				}
				return []absint.Value{ptr(recv), absint.TermV{T: cond}, ptr(uo), ptr(vo)}
			}, func(res *absint.PathResult) {
				if res.Exit != "return" || len(res.Guards) > 0 {
					r.Undecided("C13.cselect", c.name, p.Pos(fn.Pos()), res.Exit+" "+res.Abort+" "+guardString(res))
					return
				}
				sel := eventsOf(res, "selector")
				for _, e := range sel {
					r.Fail("C13.cselect-selector", c.name, p.Pos(e.Pos), "path CSelect -> "+e.Fn.Name()+": "+e.Msg)
				}
				if len(sel) > 0 {
					return
				}
				if reportEvents(p, r, "C13.cselect", c.name, res) {
					return
				}
				r.OK("C13.cselect-selector", c.name, "the condition word is normalised to 0/1 before it reaches the Fiat selector")
				uu, vv := u, v
				if c.uRecv {
					uu = r0
				}
				if c.vRecv {
					vv = r0
				}
				want := uu.Add(absint.EmbPred(FN, absint.NZ(cond)).Mul(vv.Sub(uu)))
				got, why := m.scalarVal(res.It, res.It.InputRoots()[0])
				r.Check(why == "" && got.Equal(want), "C13.cselect", c.name, p.Pos(fn.Pos()), "receiver = ite(cond != 0, v, u)", fmt.Sprintf("receiver is %v (%s), expected %s", got, why, want))
				if _, isNil := res.Ret.(absint.Nil); !isNil {
					r.Fail("C13.cselect", c.name+" result", p.Pos(fn.Pos()), "non-nil error for non-nil operands")
				}
			})
		}
		for i, name := range []string{"CSelect(cond,nil,v)", "CSelect(cond,u,nil)"} {
			explore(p, absint.Config{}, fn, func(it *absint.Interp) []absint.Value {
				recv := m.newScalar(it, "recv", r0)
				a := []absint.Value{ptr(recv), absint.TermV{T: cond}, ptr(m.newScalar(it, "u", u)), ptr(m.newScalar(it, "v", v))}
				a[2+i] = absint.Nil{}
				return a
			}, func(res *absint.PathResult) {
				if res.Exit != "return" {
					r.Fail("C13.cselect-nil", name, p.Pos(res.PanicAt), "a nil operand ends with "+res.Exit+" "+res.Abort)
					return
				}
				_, isNil := res.Ret.(absint.Nil)
				got, why := m.scalarVal(res.It, res.It.InputRoots()[0])
				r.Check(!isNil && why == "" && got.Equal(r0), "C13.cselect-nil", name, p.Pos(fn.Pos()), "error returned, receiver unchanged", "a nil operand must return an error and leave the receiver unchanged")
			})
		}
	} else {
		r.Undecided("C13.anchor", "CSelect", "", "method not found")
	}
	// Equal / IsZero / IsOne
	type pc struct {
		meth string
		args int
		want *absint.Term
	}
	for _, c := range []pc{{"Equal", 2, absint.ISZ(s.Sub(t))}, {"IsZero", 1, absint.ISZ(s)}, {"IsOne", 1, absint.ISZ(s.Sub(pInt(FN, 1)))}} {
		fn := p.Method(p.Root, "Scalar", c.meth)
		if fn == nil {
			r.Undecided("C13.anchor", c.meth, "", "method not found")
			continue
		}
		explore(p, absint.Config{}, fn, func(it *absint.Interp) []absint.Value {
			a := []absint.Value{ptr(m.newScalar(it, "s", s))}
			if c.args == 2 {
				a = append(a, ptr(m.newScalar(it, "t", t)))
			}
			return a
		}, func(res *absint.PathResult) {
			name := c.meth
			if res.Exit != "return" || len(res.Guards) > 0 {
				r.Undecided("C13.equality", name, p.Pos(fn.Pos()), res.Exit+" "+res.Abort+" "+guardString(res))
				return
			}
			if reportEvents(p, r, "C13.equality", name, res) {
				return
			}
			got, ok := retTerm(res.It, res.Ret)
			r.Check(ok && got.Equal(c.want), "C13.equality", name, p.Pos(fn.Pos()), "result = "+c.want.String(), fmt.Sprintf("result is %s, expected %s", absint.Show(res.Ret), c.want))
		})
	}
	if fn := p.Method(p.Root, "Scalar", "Equal"); fn != nil {
		explore(p, absint.Config{}, fn, func(it *absint.Interp) []absint.Value {
			return []absint.Value{ptr(m.newScalar(it, "s", s)), absint.Nil{}}
		}, func(res *absint.PathResult) {
			got, ok := retTerm(res.It, res.Ret)
			z := false
			if ok {
				if k, isC := got.IsConst(); isC && k.Sign() == 0 {
					z = true
				}
			}
			r.Check(res.Exit == "return" && z, "C13.equality", "Equal(nil)", p.Pos(fn.Pos()), "0", "Equal(nil) must be 0")
		})
	}
}
