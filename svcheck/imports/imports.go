// Package imports is engine E6: registry linkage.  A hash obtained through
// the crypto registry ((crypto.Hash).New) exists at run time only if some
// package in the import closure of the user registers it from an init
// function.  The rule is decided on the import graph and the init SSA of the
// closure; it speaks for every program that imports the package, because the
// closure of the package is linked into all of them and nothing else is
// guaranteed to be.
package imports

import (
	"fmt"
	"go/constant"
	"go/types"
	"sort"
	"strings"

	"golang.org/x/tools/go/packages"
	"golang.org/x/tools/go/ssa"

	"svcheck/load"
)

// Lookup is one site that obtains a hash.Hash.
type Lookup struct {
	Fn        *ssa.Function
	Pos       string
	Kind      string // "registry" or "direct"
	HashID    int64  // registry id, -1 if not constant
	Callee    string
	Linked    bool
	Registrar string
}

func isHashHash(t types.Type) bool {
	n, ok := t.(*types.Named)
	return ok && n.Obj().Pkg() != nil && n.Obj().Pkg().Path() == "hash" && n.Obj().Name() == "Hash"
}

// closure returns the import closure of pk (including pk).
func closure(pk *packages.Package) map[string]*packages.Package {
	out := map[string]*packages.Package{}
	var walk func(p *packages.Package)
	walk = func(p *packages.Package) {
		if out[p.PkgPath] != nil {
			return
		}
		out[p.PkgPath] = p
		for _, i := range p.Imports {
			walk(i)
		}
	}
	walk(pk)
	return out
}

// registrars finds, in the init functions of the packages of cl, calls
// crypto.RegisterHash(<constant id>, …) and returns id → package paths.
func registrars(p *load.Prog, cl map[string]*packages.Package) map[int64][]string {
	out := map[int64][]string{}
	for path, pk := range cl {
		if pk.Types == nil {
			continue
		}
		sp := p.SSA.Package(pk.Types)
		if sp == nil {
			continue
		}
		for name, m := range sp.Members {
			fn, ok := m.(*ssa.Function)
			if !ok || !(name == "init" || strings.HasPrefix(name, "init#")) {
				continue
			}
			for _, b := range fn.Blocks {
				for _, in := range b.Instrs {
					c, ok := in.(*ssa.Call)
					if !ok {
						continue
					}
					cal := c.Common().StaticCallee()
					if cal == nil || cal.Pkg == nil || cal.Pkg.Pkg.Path() != "crypto" || cal.Name() != "RegisterHash" {
						continue
					}
					if k, ok := c.Common().Args[0].(*ssa.Const); ok && k.Value != nil {
						if id, ok := constant.Int64Val(constant.ToInt(k.Value)); ok {
							out[id] = append(out[id], path)
						}
					}
				}
			}
		}
	}
	for _, v := range out {
		sort.Strings(v)
	}
	return out
}

// Result of one configuration.
type Result struct {
	ClosureSize int
	Lookups     []Lookup
	Registrars  map[int64][]string
}

// Analyse finds every site in the module that obtains a hash.Hash and
// decides whether it is linked.
func Analyse(p *load.Prog) (*Result, error) {
	res := &Result{}
	byPkg := map[string]map[string]*packages.Package{}
	regs := map[string]map[int64][]string{}
	for _, fn := range p.ModFuncs() {
		pkgPath := ""
		if fn.Package() != nil {
			pkgPath = fn.Package().Pkg.Path()
		} else if fn.Parent() != nil && fn.Parent().Package() != nil {
			pkgPath = fn.Parent().Package().Pkg.Path()
		}
		for _, b := range fn.Blocks {
			for _, in := range b.Instrs {
				c, ok := in.(ssa.CallInstruction)
				if !ok {
					continue
				}
				v := c.Value()
				if v == nil {
					continue
				}
				// calls whose (first) result is a hash.Hash
				rt := v.Type()
				if tup, ok := rt.(*types.Tuple); ok {
					if tup.Len() == 0 {
						continue
					}
					rt = tup.At(0).Type()
				}
				if !isHashHash(rt) {
					// a one-shot digest function of a hash package (sha256.Sum256): a direct use, linked by construction
					if oc := c.Common().StaticCallee(); oc != nil && oc.Pkg != nil && !p.InModule(oc) &&
						(strings.HasPrefix(oc.Pkg.Pkg.Path(), "crypto/sha") || oc.Pkg.Pkg.Path() == "crypto/md5") && strings.HasPrefix(oc.Name(), "Sum") {
						res.Lookups = append(res.Lookups, Lookup{Fn: fn, Pos: p.Pos(c.Pos()), HashID: -1, Kind: "direct", Linked: true, Callee: oc.String(), Registrar: oc.Pkg.Pkg.Path()})
					}
					continue
				}
				cal := c.Common().StaticCallee()
				if cal != nil && p.InModule(cal) {
					continue // a module helper; its own body is scanned
				}
				lk := Lookup{Fn: fn, Pos: p.Pos(c.Pos()), HashID: -1}
				if cal == nil {
					lk.Kind = "dynamic"
					lk.Callee = c.Common().String()
					res.Lookups = append(res.Lookups, lk)
					continue
				}
				lk.Callee = cal.String()
				if cal.Pkg != nil && cal.Pkg.Pkg.Path() == "crypto" && cal.Name() == "New" && cal.Signature.Recv() != nil {
					lk.Kind = "registry"
					if k, ok := c.Common().Args[0].(*ssa.Const); ok && k.Value != nil {
						if id, ok := constant.Int64Val(constant.ToInt(k.Value)); ok {
							lk.HashID = id
						}
					}
					pk := p.All[pkgPath]
					if pk == nil {
						return nil, fmt.Errorf("imports: package %q of %s not loaded", pkgPath, fn)
					}
					if byPkg[pkgPath] == nil {
						byPkg[pkgPath] = closure(pk)
						regs[pkgPath] = registrars(p, byPkg[pkgPath])
					}
					res.ClosureSize = len(byPkg[pkgPath])
					res.Registrars = regs[pkgPath]
					if lk.HashID >= 0 {
						if r := regs[pkgPath][lk.HashID]; len(r) > 0 {
							lk.Linked = true
							lk.Registrar = strings.Join(r, ",")
						}
					}
				} else {
					// a direct constructor of a linked package: linked by construction
					lk.Kind = "direct"
					lk.Linked = true
					if cal.Pkg != nil {
						lk.Registrar = cal.Pkg.Pkg.Path()
					}
				}
				res.Lookups = append(res.Lookups, lk)
			}
		}
	}
	return res, nil
}
