// Package report collects the obligations a check discharges, prints them,
// writes the evidence file and the violation replay files, and applies the
// known-findings list.
package report

import (
	"bufio"
	"encoding/json"
	"fmt"
	"os"
	"path/filepath"
	"sort"
	"strings"
	"time"
)

type Status string

const (
	Discharged Status = "discharged"
	Violated   Status = "VIOLATED"
	Undecided  Status = "UNDECIDED"
	Known      Status = "known-finding"
)

// Obligation is one decided (or undecided) rule instance.  It is keyed by
// Rule + Construct, never by a line number.
type Obligation struct {
	Rule      string `json:"rule"`
	Construct string `json:"construct"`
	Status    Status `json:"status"`
	Pos       string `json:"pos,omitempty"`
	Detail    string `json:"detail,omitempty"`
}

func (o Obligation) Key() string { return o.Rule + "|" + o.Construct }

type Report struct {
	Prop        string
	Tier        string
	Level       string
	Seed        int
	Start       time.Time
	Obls        []Obligation
	Samples     []interface{}
	Assumptions []string
	Trusted     []string
	Explanation string
	NotDecided  []string
	Analysed    map[string]interface{}
	CheckerCmd  string
	VerifDir    string
	ControlsDir string
	Quiet       bool
}

func New(prop, tier, level, verifDir string) *Report {
	seed := 0
	fmt.Sscanf(os.Getenv("VERIF_SEED"), "%d", &seed)
	return &Report{Prop: prop, Tier: tier, Level: level, Seed: seed, Start: time.Now(),
		Analysed: map[string]interface{}{}, VerifDir: verifDir, ControlsDir: filepath.Join(verifDir, "controls"),
		CheckerCmd: fmt.Sprintf("./run.sh %s %s", prop, tier)}
}

func (r *Report) add(o Obligation) {
	for _, x := range r.Obls {
		if x.Key() == o.Key() && x.Status == o.Status && x.Detail == o.Detail {
			return
		}
	}
	r.Obls = append(r.Obls, o)
}

// OK records a discharged obligation.
func (r *Report) OK(rule, construct, detail string) {
	r.add(Obligation{Rule: rule, Construct: construct, Status: Discharged, Detail: detail})
}

// Fail records a violated obligation (exact abstract value differs from the
// specification, or a structural rule is broken).
func (r *Report) Fail(rule, construct, pos, detail string) {
	r.add(Obligation{Rule: rule, Construct: construct, Status: Violated, Pos: pos, Detail: detail})
}

// Undecided records an obligation the analysis could not decide (precision
// lost, unmodelled construct).  It fails the check: a check that cannot
// decide must not say "held".
func (r *Report) Undecided(rule, construct, pos, detail string) {
	r.add(Obligation{Rule: rule, Construct: construct, Status: Undecided, Pos: pos, Detail: detail})
}

// Check is OK or Fail depending on cond.
func (r *Report) Check(cond bool, rule, construct, pos, okDetail, failDetail string) bool {
	if cond {
		r.OK(rule, construct, okDetail)
	} else {
		r.Fail(rule, construct, pos, failDetail)
	}
	return cond
}

// RequireCount fails when a rule matched fewer instances than were
// confirmed by hand: a rule that matches nothing passes vacuously forever.
func (r *Report) RequireCount(rule, what string, got, min int) {
	c := fmt.Sprintf("instances(%s)", what)
	if got >= min {
		r.OK(rule+".count", c, fmt.Sprintf("%d instance(s) analysed, at least %d required", got, min))
	} else {
		r.Fail(rule+".count", c, "", fmt.Sprintf("only %d instance(s) found, %d were confirmed by hand: the rule would pass vacuously", got, min))
	}
}

func (r *Report) Sample(s interface{}) {
	if len(r.Samples) < 12 {
		r.Samples = append(r.Samples, s)
	}
}

type finding struct {
	Status   string `json:"status"` // "known" or "fixed"
	Property string `json:"property"`
	Key      string `json:"key"`
	Commit   string `json:"commit,omitempty"`
	What     string `json:"what"`
}

func (r *Report) loadFindings() []finding {
	f, err := os.Open(filepath.Join(r.VerifDir, "known_findings.jsonl"))
	if err != nil {
		return nil
	}
	defer f.Close()
	var out []finding
	sc := bufio.NewScanner(f)
	sc.Buffer(make([]byte, 1<<20), 1<<20)
	for sc.Scan() {
		line := strings.TrimSpace(sc.Text())
		if line == "" || strings.HasPrefix(line, "#") {
			continue
		}
		var fd finding
		if json.Unmarshal([]byte(line), &fd) == nil {
			out = append(out, fd)
		}
	}
	return out
}

// Finish prints the obligations, writes evidence and violation files and
// returns the process exit code.
func (r *Report) Finish() int {
	findings := r.loadFindings()
	known := map[string]finding{}
	for _, f := range findings {
		if f.Status == "known" && f.Property == r.Prop {
			known[f.Key] = f
		}
	}
	nViol, nDis := 0, 0
	vdir := filepath.Join(r.VerifDir, "evidence", "violations")
	// remove stale violation files of this property
	if old, _ := filepath.Glob(filepath.Join(vdir, r.Prop+"-*.json")); len(old) > 0 {
		for _, o := range old {
			os.Remove(o)
		}
	}
	var lines []string
	for i := range r.Obls {
		o := &r.Obls[i]
		if o.Status == Violated || o.Status == Undecided {
			if f, ok := known[o.Key()]; ok && o.Status == Violated {
				o.Status = Known
				lines = append(lines, fmt.Sprintf("KNOWN-FINDING: property=%s %s", r.Prop, f.What))
				continue
			}
			nViol++
			os.MkdirAll(vdir, 0o755)
			path := filepath.Join("evidence", "violations", fmt.Sprintf("%s-%d.json", r.Prop, nViol))
			b, _ := json.MarshalIndent(map[string]interface{}{
				"property": r.Prop, "rule": o.Rule, "construct": o.Construct, "status": o.Status,
				"pos": o.Pos, "detail": o.Detail,
				"replay": fmt.Sprintf("./run.sh %s %s   # re-analyses /repo's current tree; obligation key %q", r.Prop, r.Tier, o.Key()),
			}, "", " ")
			os.WriteFile(filepath.Join(r.VerifDir, path), append(b, '\n'), 0o644)
			lines = append(lines, fmt.Sprintf("VIOLATION property=%s replay=%s", r.Prop, path))
		} else if o.Status == Discharged {
			nDis++
		}
	}
	{
		for _, o := range r.Obls {
			if r.Quiet && o.Status == Discharged {
				continue
			}
			tag := "ok  "
			switch o.Status {
			case Violated:
				tag = "FAIL"
			case Undecided:
				tag = "UNDC"
			case Known:
				tag = "KNWN"
			}
			pos := ""
			if o.Pos != "" {
				pos = " @" + o.Pos
			}
			fmt.Printf("[%s] %s %s %s%s: %s\n", r.Prop, tag, o.Rule, o.Construct, pos, o.Detail)
		}
	}
	sort.Strings(lines)
	for _, l := range lines {
		fmt.Println(l)
	}
	wall := time.Since(r.Start).Seconds()
	cov := map[string]interface{}{
		"obligations":  len(r.Obls),
		"discharged":   nDis,
		"checker_cmd":  r.CheckerCmd,
		"trusted_base": r.Trusted,
		"explanation":  r.Explanation,
		"not_decided":  r.NotDecided,
		"analysed":     r.Analysed,
		"exhaustive":   false,
	}
	var obl []Obligation
	obl = append(obl, r.Obls...)
	cov["obligation_list"] = obl
	samples := r.Samples
	if len(samples) == 0 {
		for i, o := range r.Obls {
			if i >= 5 {
				break
			}
			samples = append(samples, o)
		}
	}
	cov["samples"] = samples
	if r.Trusted == nil {
		cov["trusted_base"] = []string{}
	}
	ev := map[string]interface{}{
		"property_id": r.Prop,
		"tier":        r.Tier,
		"seed":        r.Seed,
		"level":       r.Level,
		"coverage":    cov,
		"assumptions": append([]string{}, r.Assumptions...),
		"wall_s":      wall,
		"violations":  nViol,
	}
	b, _ := json.MarshalIndent(ev, "", " ")
	os.MkdirAll(filepath.Join(r.VerifDir, "evidence"), 0o755)
	if err := os.WriteFile(filepath.Join(r.VerifDir, "evidence", r.Prop+".json"), append(b, '\n'), 0o644); err != nil {
		fmt.Fprintln(os.Stderr, "cannot write evidence:", err)
		return 2
	}
	fmt.Printf("[%s] %s: %d obligation(s), %d discharged, %d violation(s)/undecided, %.1fs\n", r.Prop, r.Tier, len(r.Obls), nDis, nViol, wall)
	if nViol > 0 {
		return 1
	}
	return 0
}
