// Package sibling is engine E8: the two Fiat-Crypto generated files
// (internal/field, internal/scalar) are two outputs of one generator for two
// moduli.  Same-named primitives must have the same data-flow graph, with
// every large literal playing the same role for its own modulus (limb i of
// m, m' = -m^-1 mod 2^64, limb i of R mod m, of R^2 mod m).  A one-sided
// edit of generated arithmetic is reported at the first divergence.  It is a
// tamper cross-check, not a proof of the arithmetic.
package sibling

import (
	"fmt"
	"go/constant"
	"go/token"
	"go/types"
	"math/big"
	"os"
	"sort"
	"strings"

	"golang.org/x/tools/go/ssa"
)

type Modulus struct {
	Name  string
	M     *big.Int
	roles map[uint64][]string
	limbs [4]uint64
}

func NewModulus(name string, m *big.Int) *Modulus {
	md := &Modulus{Name: name, M: m, roles: map[uint64][]string{}}
	two64 := new(big.Int).Lsh(big.NewInt(1), 64)
	mask := new(big.Int).Sub(two64, big.NewInt(1))
	limb := func(x *big.Int, i int) uint64 {
		return new(big.Int).And(new(big.Int).Rsh(x, uint(64*i)), mask).Uint64()
	}
	add := func(v uint64, role string) { md.roles[v] = append(md.roles[v], role) }
	r := new(big.Int).Lsh(big.NewInt(1), 256)
	r1 := new(big.Int).Mod(r, m)
	r2 := new(big.Int).Mod(new(big.Int).Mul(r1, r1), m)
	for i := 0; i < 4; i++ {
		md.limbs[i] = limb(m, i)
		add(limb(m, i), fmt.Sprintf("M[%d]", i))
		add(limb(r1, i), fmt.Sprintf("R1[%d]", i))
		add(limb(r2, i), fmt.Sprintf("R2[%d]", i))
	}
	// m' = -m^-1 mod 2^64
	inv := new(big.Int).ModInverse(new(big.Int).And(m, mask), two64)
	mp := new(big.Int).Sub(two64, inv)
	add(mp.Uint64(), "MPRIME")
	add(^uint64(0), "ONES")
	return md
}

func (m *Modulus) rolesOf(v uint64) []string { return m.roles[v] }

type Diff struct {
	Fn  string
	Pos token.Pos
	Msg string
}

type cmp struct {
	resA, resB func(ssa.Value) ssa.Value
	a, b       *Modulus
	memo       map[[2]ssa.Value]bool
	first      *Diff
	fnName     string
	nodes      int
	// round comparison inside one function: values of the earlier round's inputs map to the later round's inputs;
	// the operand limb arg1[i] of the earlier round corresponds to arg1[i+1]
	leaf      map[ssa.Value]ssa.Value
	leafRange map[ssa.Value]bool
	argShift  bool
	// Sub (x side) against Opp (y side) of one package: Sub's arg1[i] is the constant 0, Sub's arg2[i] is Opp's arg1[i]
	subOpp bool
}

func constU64(v ssa.Value) (uint64, bool) {
	c, ok := v.(*ssa.Const)
	if !ok || c.Value == nil || c.Value.Kind() != constant.Int {
		return 0, false
	}
	u, ok := constant.Uint64Val(c.Value)
	if !ok {
		if i, ok2 := constant.Int64Val(c.Value); ok2 {
			return uint64(i), true
		}
		return 0, false
	}
	return u, true
}

func (c *cmp) fail(pos token.Pos, format string, a ...interface{}) bool {
	if c.first == nil {
		c.first = &Diff{Fn: c.fnName, Pos: pos, Msg: fmt.Sprintf(format, a...)}
	}
	return false
}

func intersects(x, y []string) bool {
	for _, a := range x {
		for _, b := range y {
			if a == b {
				return true
			}
		}
	}
	return false
}

// stripMask removes `x & limb_i(m)` when the OTHER modulus has an all-ones limb i (the generator elides that mask).
func (c *cmp) stripMask(v ssa.Value, own, other *Modulus) ssa.Value {
	b, ok := v.(*ssa.BinOp)
	if !ok || b.Op != token.AND {
		return v
	}
	for _, pair := range [][2]ssa.Value{{b.X, b.Y}, {b.Y, b.X}} {
		if k, ok := constU64(pair[1]); ok {
			for i := 0; i < 4; i++ {
				if own.limbs[i] == k && other.limbs[i] == ^uint64(0) {
					return pair[0]
				}
			}
		}
	}
	return v
}

func (c *cmp) same(x, y ssa.Value) bool {
	if c.resA != nil {
		x, y = c.resA(x), c.resB(y)
	}
	// a change of type that changes no bits (uint64(uint1(x)): uint1 is declared as uint64 in this output) may be
	// written on one side and left out on the other
	for {
		ct, ok := x.(*ssa.ChangeType)
		if !ok || !sameBasic(ct.Type(), ct.X.Type()) {
			break
		}
		x = ct.X
		if c.resA != nil {
			x = c.resA(x)
		}
	}
	for {
		ct, ok := y.(*ssa.ChangeType)
		if !ok || !sameBasic(ct.Type(), ct.X.Type()) {
			break
		}
		y = ct.X
		if c.resB != nil {
			y = c.resB(y)
		}
	}
	if c.subOpp {
		if ld, ok := x.(*ssa.UnOp); ok && ld.Op == token.MUL {
			if ia, ok := ld.X.(*ssa.IndexAddr); ok {
				if pa, isP := ia.X.(*ssa.Parameter); isP && paramIndex(pa) == 1 {
					if k, isC := constU64(y); isC && k == 0 {
						return true
					}
					return c.fail(y.Pos(), "Opp is not Sub with a zero minuend: %s where the constant 0 is expected", y.Name())
				}
				if pa, isP := ia.X.(*ssa.Parameter); isP && paramIndex(pa) == 2 {
					if ly, ok := y.(*ssa.UnOp); ok && ly.Op == token.MUL {
						if ib, ok := ly.X.(*ssa.IndexAddr); ok {
							if pb, isQ := ib.X.(*ssa.Parameter); isQ && paramIndex(pb) == 1 {
								ka, okA := constU64(ia.Index)
								kb, okB := constU64(ib.Index)
								if okA && okB && ka == kb {
									return true
								}
							}
						}
					}
					return c.fail(y.Pos(), "Opp is not Sub with a zero minuend: limb mismatch")
				}
			}
		}
	}
	if c.leaf != nil {
		if v, ok := c.leaf[x]; ok {
			if v == y {
				return true
			}
			return c.fail(x.Pos(), "an accumulator word of the earlier round corresponds to a different word of the later round")
		}
		if c.leafRange[y] {
			return c.fail(y.Pos(), "the later round uses an accumulator word where the earlier round computes a value")
		}
	}
	key := [2]ssa.Value{x, y}
	if r, ok := c.memo[key]; ok {
		return r
	}
	c.memo[key] = true // optimistic for DAG sharing
	r := c.same1(x, y)
	c.memo[key] = r
	return r
}

func (c *cmp) same1(x, y ssa.Value) bool {
	c.nodes++
	// mask elision
	if _, isAnd := x.(*ssa.BinOp); isAnd {
		if sx := c.stripMask(x, c.a, c.b); sx != x {
			if _, yAnd := y.(*ssa.BinOp); !yAnd || y.(*ssa.BinOp).Op != token.AND {
				return c.same(sx, y)
			}
		}
	}
	if _, isAnd := y.(*ssa.BinOp); isAnd {
		if sy := c.stripMask(y, c.b, c.a); sy != y {
			if _, xAnd := x.(*ssa.BinOp); !xAnd || x.(*ssa.BinOp).Op != token.AND {
				return c.same(x, sy)
			}
		}
	}
	kx, okx := constU64(x)
	ky, oky := constU64(y)
	if okx || oky {
		if !okx || !oky {
			return c.fail(x.Pos(), "a literal on one side, %s on the other", y.Name())
		}
		if kx < 1<<16 && ky < 1<<16 {
			if kx != ky {
				return c.fail(token.NoPos, "small literal %d vs %d", kx, ky)
			}
			return true
		}
		ra, rb := c.a.rolesOf(kx), c.b.rolesOf(ky)
		if len(ra) == 0 {
			return c.fail(token.NoPos, "literal %#x has no role for modulus %s (expected a limb of m, of R mod m, of R^2 mod m, or m')", kx, c.a.Name)
		}
		if len(rb) == 0 {
			return c.fail(token.NoPos, "literal %#x has no role for modulus %s", ky, c.b.Name)
		}
		if !intersects(ra, rb) {
			return c.fail(token.NoPos, "literal %#x is %v of %s but the sibling's literal %#x is %v of %s", kx, ra, c.a.Name, ky, rb, c.b.Name)
		}
		return true
	}
	switch a := x.(type) {
	case *ssa.Parameter:
		b, ok := y.(*ssa.Parameter)
		if !ok || paramIndex(a) != paramIndex(b) {
			return c.fail(a.Pos(), "parameter %s vs %s", a.Name(), y.Name())
		}
		return true
	case *ssa.BinOp:
		b, ok := y.(*ssa.BinOp)
		if !ok || a.Op != b.Op {
			return c.fail(a.Pos(), "operation %s vs %s", a, y)
		}
		if c.same(a.X, b.X) && c.same(a.Y, b.Y) {
			return true
		}
		switch a.Op {
		case token.ADD, token.MUL, token.AND, token.OR, token.XOR:
			save := c.first
			c.first = nil
			if c.same(a.X, b.Y) && c.same(a.Y, b.X) {
				c.first = save
				if save != nil && save.Pos == token.NoPos {
					c.first = nil
				}
				return true
			}
			if save != nil {
				c.first = save
			}
		}
		if c.first != nil && !c.first.Pos.IsValid() {
			c.first.Pos = a.Pos()
		}
		return false
	case *ssa.UnOp:
		b, ok := y.(*ssa.UnOp)
		if !ok || a.Op != b.Op {
			return c.fail(a.Pos(), "operation %s vs %s", a, y)
		}
		return c.same(a.X, b.X)
	case *ssa.Convert:
		b, ok := y.(*ssa.Convert)
		if !ok || !sameBasic(a.Type(), b.Type()) {
			return c.fail(a.Pos(), "conversion %s vs %s", a, y)
		}
		return c.same(a.X, b.X)
	case *ssa.ChangeType:
		b, ok := y.(*ssa.ChangeType)
		if !ok {
			return c.fail(a.Pos(), "type change vs %s", y)
		}
		return c.same(a.X, b.X)
	case *ssa.Extract:
		b, ok := y.(*ssa.Extract)
		if !ok || a.Index != b.Index {
			return c.fail(a.Pos(), "tuple component %d vs %s", a.Index, y)
		}
		return c.same(a.Tuple, b.Tuple)
	case *ssa.Call:
		b, ok := y.(*ssa.Call)
		if !ok {
			return c.fail(a.Pos(), "call vs %s", y)
		}
		ca, cb := a.Call.StaticCallee(), b.Call.StaticCallee()
		if ca == nil || cb == nil || ca.Name() != cb.Name() || len(a.Call.Args) != len(b.Call.Args) {
			return c.fail(a.Pos(), "call of %v vs %v", ca, cb)
		}
		allSame := true
		for i := range a.Call.Args {
			if !c.same(a.Call.Args[i], b.Call.Args[i]) {
				allSame = false
				break
			}
		}
		if allSame {
			return true
		}
		if (ca.Name() == "Mul64" || ca.Name() == "Add64") && ca.Pkg != nil && ca.Pkg.Pkg.Path() == "math/bits" && len(a.Call.Args) >= 2 {
			save := c.first
			c.first = nil
			ok := c.same(a.Call.Args[0], b.Call.Args[1]) && c.same(a.Call.Args[1], b.Call.Args[0])
			for i := 2; ok && i < len(a.Call.Args); i++ {
				ok = c.same(a.Call.Args[i], b.Call.Args[i])
			}
			if ok {
				c.first = nil
				return true
			}
			c.first = save
		}
		if c.first != nil && !c.first.Pos.IsValid() {
			c.first.Pos = a.Pos()
		}
		return false
	case *ssa.IndexAddr:
		b, ok := y.(*ssa.IndexAddr)
		if !ok {
			return c.fail(a.Pos(), "element address vs %s", y)
		}
		if c.argShift {
			if pa, isP := a.X.(*ssa.Parameter); isP && paramIndex(pa) == 1 {
				if pb, isQ := b.X.(*ssa.Parameter); isQ && paramIndex(pb) == 1 {
					ia, okA := constU64(a.Index)
					ib, okB := constU64(b.Index)
					if okA && okB && (ib == ia+1 || ib == ia) {
						return true
					}
					return c.fail(a.Pos(), "operand limb arg1[%d] of the earlier round vs arg1[%d] of the later round", ia, ib)
				}
			}
		}
		return c.same(a.X, b.X) && c.same(a.Index, b.Index)
	case *ssa.Alloc:
		_, ok := y.(*ssa.Alloc)
		if !ok {
			return c.fail(a.Pos(), "local vs %s", y)
		}
		return true // locals are matched through the stores into them
	case *ssa.Phi:
		return c.fail(a.Pos(), "control flow in a generated primitive")
	}
	return c.fail(x.Pos(), "unsupported value %T", x)
}

func sameBasic(a, b types.Type) bool {
	x, ok1 := a.Underlying().(*types.Basic)
	y, ok2 := b.Underlying().(*types.Basic)
	return ok1 && ok2 && x.Kind() == y.Kind()
}

func paramIndex(p *ssa.Parameter) int {
	for i, q := range p.Parent().Params {
		if q == p {
			return i
		}
	}
	return -1
}

// Result of comparing one pair of functions.
type Result struct {
	Name   string
	Same   bool
	Diff   *Diff
	Stores int
	Nodes  int
	Mode   string // "dag" or "literals"
}

func stores(fn *ssa.Function) []*ssa.Store {
	var out []*ssa.Store
	for _, b := range fn.Blocks {
		for _, in := range b.Instrs {
			if s, ok := in.(*ssa.Store); ok {
				out = append(out, s)
			}
		}
	}
	return out
}

// outStores returns the stores through parameters (the outputs), in order.
func outStores(fn *ssa.Function) []*ssa.Store {
	var out []*ssa.Store
	for _, s := range stores(fn) {
		if rootParam(s.Addr) != nil {
			out = append(out, s)
		}
	}
	return out
}

func rootParam(v ssa.Value) *ssa.Parameter {
	for {
		switch x := v.(type) {
		case *ssa.Parameter:
			return x
		case *ssa.IndexAddr:
			v = x.X
		case *ssa.FieldAddr:
			v = x.X
		case *ssa.ChangeType:
			v = x.X
		default:
			return nil
		}
	}
}

// localValue resolves a load from a local variable to the value last stored into it before the load (straight-line code).
type localMap map[*ssa.Alloc]ssa.Value

// CompareDAG compares the data flow of two same-named primitives.
// CompareOppSub checks the negation primitive against the subtraction of its own package: Opp(out, a) must be the
// data-flow graph of Sub(out, 0, a).  (The scalar package's Opp is commented out, so field.Opp has no sibling.)
func CompareOppSub(opp, sub *ssa.Function, m *Modulus) Result {
	return compareDAG(sub, opp, m, m, func(c *cmp) { c.subOpp = true })
}

func CompareDAG(fa, fb *ssa.Function, ma, mb *Modulus) Result {
	return compareDAG(fa, fb, ma, mb, nil)
}

func compareDAG(fa, fb *ssa.Function, ma, mb *Modulus, opt func(*cmp)) Result {
	res := Result{Name: fa.Name(), Mode: "dag"}
	if len(fa.Blocks) != 1 || len(fb.Blocks) != 1 {
		res.Diff = &Diff{Fn: fa.Name(), Pos: fa.Pos(), Msg: "a generated primitive has control flow"}
		return res
	}
	c := &cmp{a: ma, b: mb, memo: map[[2]ssa.Value]bool{}, fnName: fa.Name()}
	if opt != nil {
		opt(c)
	}
	// calls with pointer-to-local results (cmovznzU64(&x, ...)) : treat the local as the call's output
	sa, sb := outStores(fa), outStores(fb)
	res.Stores = len(sa)
	if len(sa) != len(sb) {
		res.Diff = &Diff{Fn: fa.Name(), Pos: fa.Pos(), Msg: fmt.Sprintf("%d output stores vs %d in the sibling", len(sa), len(sb))}
		return res
	}
	ra, rb := resolver(fa), resolver(fb)
	for i := range sa {
		if !c.same(sa[i].Addr, sb[i].Addr) || !c.sameR(ra(sa[i].Val), rb(sb[i].Val), ra, rb) {
			d := c.first
			if d == nil {
				d = &Diff{Fn: fa.Name(), Msg: "outputs differ"}
			}
			if !d.Pos.IsValid() {
				d.Pos = sa[i].Pos()
			}
			d.Msg = fmt.Sprintf("output store #%d: %s", i, d.Msg)
			res.Diff = d
			res.Nodes = c.nodes
			return res
		}
	}
	res.Same = true
	res.Nodes = c.nodes
	return res
}

// resolver maps loads of locals to the value stored into them (each local of the generated code is written once,
// either by a Store or by a call that takes its address).
func resolver(fn *ssa.Function) func(ssa.Value) ssa.Value {
	def := map[*ssa.Alloc]ssa.Value{}
	for _, in := range fn.Blocks[0].Instrs {
		switch x := in.(type) {
		case *ssa.Store:
			if a, ok := x.Addr.(*ssa.Alloc); ok {
				def[a] = x.Val
			}
		case *ssa.Call:
			for _, arg := range x.Call.Args {
				if a, ok := arg.(*ssa.Alloc); ok {
					def[a] = x // the call defines the local
				}
			}
		}
	}
	return func(v ssa.Value) ssa.Value {
		for {
			u, ok := v.(*ssa.UnOp)
			if !ok || u.Op != token.MUL {
				return v
			}
			a, ok := u.X.(*ssa.Alloc)
			if !ok {
				return v
			}
			d, ok := def[a]
			if !ok {
				return v
			}
			v = d
		}
	}
}

// sameR is same() with loads of locals resolved on both sides.
func (c *cmp) sameR(x, y ssa.Value, ra, rb func(ssa.Value) ssa.Value) bool {
	c.resA, c.resB = ra, rb
	return c.same(x, y)
}

// CompareLiterals is the weaker check for primitives whose shape legitimately differs between the two moduli
// (ToMontgomery, SetOne: multiplications by zero limbs of R^2 mod m are pruned by the generator): every large
// literal must have a role for its own modulus.
func CompareLiterals(fn *ssa.Function, m *Modulus) Result {
	res := Result{Name: fn.Name(), Mode: "literals", Same: true}
	for _, b := range fn.Blocks {
		for _, in := range b.Instrs {
			for _, op := range in.Operands(nil) {
				if *op == nil {
					continue
				}
				if k, ok := constU64(*op); ok && k >= 1<<16 {
					res.Nodes++
					if len(m.rolesOf(k)) == 0 {
						res.Same = false
						if res.Diff == nil {
							res.Diff = &Diff{Fn: fn.Name(), Pos: in.Pos(), Msg: fmt.Sprintf("literal %#x is not a limb of m, of R mod m, of R^2 mod m, nor m' for modulus %s", k, m.Name)}
						}
					}
				}
			}
		}
	}
	return res
}

// AliasSafe reports whether every load through a pointer parameter precedes every store through a pointer
// parameter (so that calling the primitive with out == arg is safe, as the library does).
func AliasSafe(fn *ssa.Function) (bool, token.Pos) {
	firstStore := -1
	idx := 0
	for _, b := range fn.Blocks {
		for _, in := range b.Instrs {
			idx++
			switch x := in.(type) {
			case *ssa.Store:
				if rootParam(x.Addr) != nil && firstStore < 0 {
					firstStore = idx
				}
			case *ssa.UnOp:
				if x.Op == token.MUL && rootParam(x.X) != nil && firstStore >= 0 {
					return false, x.Pos()
				}
			}
		}
	}
	return true, token.NoPos
}

// Pairs lists the package-level functions with the same name in both packages, sorted.
func Pairs(a, b *ssa.Package) [][2]*ssa.Function {
	var out [][2]*ssa.Function
	var names []string
	for n, m := range a.Members {
		if _, ok := m.(*ssa.Function); ok {
			names = append(names, n)
		}
	}
	sort.Strings(names)
	for _, n := range names {
		fa, fb := a.Func(n), b.Func(n)
		if fa != nil && fb != nil && fa.Blocks != nil && fb.Blocks != nil && !strings.HasPrefix(n, "init") {
			out = append(out, [2]*ssa.Function{fa, fb})
		}
	}
	return out
}

// TailOK checks, on one generated primitive alone, the final conditional subtraction that every Montgomery
// primitive ends with (Mul, Square, Add, ToMontgomery, FromMontgomery): the four outputs are
// cmovznz(b, acc_i - m_i - borrow, acc_i) where b is the borrow out of the five-step chain
// acc_0 - m_0, ..., acc_3 - m_3 - borrow, overflow - 0 - borrow, with m_i the limbs of the modulus. This part has the
// same shape in every primitive, so it is checked even where the sibling comparison is not possible (ToMontgomery's
// body legitimately differs between the two moduli). Primitives whose outputs are not conditional moves are not
// concerned (applies = false).
func TailOK(fn *ssa.Function, m *Modulus) (applies, ok bool, pos token.Pos, msg string) {
	if len(fn.Blocks) != 1 {
		return false, true, token.NoPos, ""
	}
	r := resolver(fn)
	strip := func(v ssa.Value) ssa.Value {
		for {
			v = r(v)
			switch x := v.(type) {
			case *ssa.ChangeType:
				v = x.X
			case *ssa.Convert:
				v = x.X
			default:
				return v
			}
		}
	}
	sub64 := func(v ssa.Value, idx int) *ssa.Call {
		e, isE := strip(v).(*ssa.Extract)
		if !isE || e.Index != idx {
			return nil
		}
		c, isC := e.Tuple.(*ssa.Call)
		if !isC {
			return nil
		}
		callee := c.Call.StaticCallee()
		if callee == nil || callee.Pkg == nil || callee.Pkg.Pkg.Path() != "math/bits" || callee.Name() != "Sub64" {
			return nil
		}
		return c
	}
	outs := outStores(fn)
	var cmovs []*ssa.Call
	for _, s := range outs {
		c, isC := r(s.Val).(*ssa.Call)
		if !isC {
			continue
		}
		callee := c.Call.StaticCallee()
		if callee == nil || callee.Name() != "cmovznzU64" || len(c.Call.Args) != 4 {
			continue
		}
		cmovs = append(cmovs, c)
	}
	if len(cmovs) == 0 {
		return false, true, token.NoPos, ""
	}
	if _, isParam := strip(cmovs[0].Call.Args[1]).(*ssa.Parameter); isParam {
		return false, true, token.NoPos, "" // Selectznz: the selector is an argument
	}
	if len(cmovs) != 4 || len(outs) != 4 {
		return true, false, fn.Pos(), fmt.Sprintf("%d of %d outputs are conditional moves; expected the four limbs of the conditionally subtracted result", len(cmovs), len(outs))
	}
	sel := strip(cmovs[0].Call.Args[1])
	for _, c := range cmovs[1:] {
		if strip(c.Call.Args[1]) != sel {
			return true, false, c.Pos(), "the four conditional moves do not share one selector"
		}
	}
	s5 := sub64(sel, 1)
	if s5 == nil {
		return true, false, cmovs[0].Pos(), "the selector of the final conditional move is not the borrow out of the subtraction chain (it must be the borrow of overflow - 0 - borrow, not the overflow word itself)"
	}
	if k, isK := constU64(strip(s5.Call.Args[1])); !isK || k != 0 {
		return true, false, s5.Pos(), "the last step of the subtraction chain does not subtract 0 from the overflow word"
	}
	bin := s5.Call.Args[2]
	for i := 3; i >= 0; i-- {
		si := sub64(bin, 1)
		if si == nil {
			return true, false, s5.Pos(), fmt.Sprintf("the borrow into step %d of the final subtraction is not the borrow out of step %d", i+1, i)
		}
		k, isK := constU64(strip(si.Call.Args[1]))
		if !isK || k != m.limbs[i] {
			return true, false, si.Pos(), fmt.Sprintf("step %d of the final subtraction does not subtract limb %d of the modulus %s", i, i, m.Name)
		}
		// cmov i selects between this step's difference and its minuend
		d := sub64(cmovs[i].Call.Args[2], 0)
		if d != si {
			return true, false, cmovs[i].Pos(), fmt.Sprintf("output %d does not select the difference of step %d", i, i)
		}
		if strip(cmovs[i].Call.Args[3]) != strip(si.Call.Args[0]) {
			return true, false, cmovs[i].Pos(), fmt.Sprintf("output %d does not fall back to the unreduced limb %d", i, i)
		}
		bin = si.Call.Args[2]
	}
	if k, isK := constU64(strip(bin)); !isK || k != 0 {
		return true, false, s5.Pos(), "the final subtraction chain does not start with borrow 0"
	}
	// outputs in limb order
	for i, s := range outs {
		ia, isI := s.Addr.(*ssa.IndexAddr)
		if !isI {
			return true, false, s.Pos(), "output store is not an indexed store"
		}
		if k, isK := constU64(ia.Index); !isK || int(k) != i {
			return true, false, s.Pos(), fmt.Sprintf("output store %d does not write limb %d", i, i)
		}
		if c, _ := r(s.Val).(*ssa.Call); c != cmovs[i] {
			return true, false, s.Pos(), "output stores and conditional moves are out of order"
		}
	}
	return true, true, token.NoPos, ""
}

// RoundsResult reports the comparison of consecutive reduction rounds inside one word-by-word Montgomery primitive.
type RoundsResult struct {
	Applies bool   // four reduction rounds (four multiplications by m') were found
	Pairs   []int  // k such that round k and round k+1 were compared
	Bad     []int  // k for which the comparison failed
	Msg     string // first difference
	Pos     token.Pos
}

// Rounds checks a generated word-by-word Montgomery primitive against itself: rounds 2, 3 and 4 of the four
// reduction rounds must have the same data-flow graph, with the five accumulator words leaving round k-1 mapped to
// those leaving round k and the operand limb arg1[k-1] mapped to arg1[k]. Round boundaries are the points after each
// multiplication by m' where exactly five computed words are live. This sees an edit of one round of a primitive
// that has no comparable sibling (ToMontgomery), and an edit made identically in both generated files.
func Rounds(fn *ssa.Function, m *Modulus) RoundsResult {
	var res RoundsResult
	if len(fn.Blocks) != 1 {
		return res
	}
	instrs := fn.Blocks[0].Instrs
	idx := map[ssa.Instruction]int{}
	for i, in := range instrs {
		idx[in] = i
	}
	r := resolver(fn)
	// multiplications by m'
	var mprime []int
	for i, in := range instrs {
		c, ok := in.(*ssa.Call)
		if !ok {
			continue
		}
		callee := c.Call.StaticCallee()
		if callee == nil || callee.Pkg == nil || callee.Pkg.Pkg.Path() != "math/bits" || callee.Name() != "Mul64" {
			continue
		}
		for _, a := range c.Call.Args {
			if k, isK := constU64(a); isK {
				for _, role := range m.rolesOf(k) {
					if role == "MPRIME" {
						mprime = append(mprime, i)
					}
				}
			}
		}
	}
	if len(mprime) != 4 {
		return res
	}
	res.Applies = true
	// computed words: results of calls (through Extract), binary operations, conversions; not loads, constants, addresses
	computed := func(v ssa.Value) bool {
		switch v.(type) {
		case *ssa.Extract, *ssa.BinOp, *ssa.Convert, *ssa.ChangeType:
			return true
		}
		return false
	}
	defIdx := func(v ssa.Value) int {
		if in, ok := v.(ssa.Instruction); ok {
			if i, has := idx[in]; has {
				return i
			}
		}
		return -1
	}
	// last use index of every computed value (uses through loads of locals are resolved)
	lastUse := map[ssa.Value]int{}
	for i, in := range instrs {
		for _, op := range in.Operands(nil) {
			if *op == nil {
				continue
			}
			v := r(*op)
			if computed(v) {
				if i > lastUse[v] {
					lastUse[v] = i
				}
			}
		}
	}
	// single-use wrappers (Extract of a call, conversions) are followed to what they feed: liveness is taken on the
	// values as written in the source (x37, x38, ...): Extract and the sums of carries
	live := func(cut int) []ssa.Value {
		var out []ssa.Value
		for v, lu := range lastUse {
			d := defIdx(v)
			if d >= 0 && d < cut && lu >= cut {
				// conversions of an earlier value are not separate words
				switch v.(type) {
				case *ssa.Convert, *ssa.ChangeType:
					continue
				}
				out = append(out, v)
			}
		}
		sort.Slice(out, func(i, j int) bool { return defIdx(out[i]) < defIdx(out[j]) })
		return out
	}
	// end of round k: the first cut after the k-th multiplication by m' (and its products) with five live words
	var bounds []int
	var outs [][]ssa.Value
	for k := 0; k < 4; k++ {
		end := len(instrs)
		if k+1 < 4 {
			end = mprime[k+1]
		}
		if k+1 == 4 {
			// the last round ends where the final subtraction starts
			for i := mprime[k]; i < len(instrs); i++ {
				if c, ok := instrs[i].(*ssa.Call); ok {
					if callee := c.Call.StaticCallee(); callee != nil && callee.Name() == "Sub64" {
						end = i
						break
					}
				}
			}
		}
		// the first cut after this round's multiplication by m' at which exactly five words are live and every one of
		// them depends on that multiplication: the four accumulator limbs and the top word (or its carry) after the
		// reduction, before the next operand limb is merged in
		dep := map[ssa.Value]bool{}
		for i := mprime[k]; i < end && i < len(instrs); i++ {
			v, isV := instrs[i].(ssa.Value)
			if !isV {
				continue
			}
			if i == mprime[k] {
				dep[v] = true
				continue
			}
			for _, op := range instrs[i].Operands(nil) {
				if *op != nil && dep[r(*op)] {
					dep[v] = true
				}
			}
		}
		found := -1
		var fl []ssa.Value
		for c := mprime[k] + 2; c <= end; c++ {
			l := live(c)
			if len(l) != 5 {
				continue
			}
			all := true
			for _, v := range l {
				if !dep[v] {
					all = false
				}
			}
			if all {
				found = c
				fl = l
				break
			}
		}
		if found >= 0 {
			outs = append(outs, fl)
		}
		if found < 0 {
			res.Bad = append(res.Bad, k+1)
			res.Msg = fmt.Sprintf("the end of reduction round %d (five live accumulator words) was not found", k+1)
			res.Pos = instrs[mprime[k]].Pos()
			return res
		}
		bounds = append(bounds, found)
		if os.Getenv("SVDEBUGROUNDS") != "" {
			fmt.Fprintf(os.Stderr, "%s round %d: m' at %d, end cut %d, live:", fn.Name(), k+1, mprime[k], found)
			for _, v := range outs[len(outs)-1] {
				fmt.Fprintf(os.Stderr, " %s@%d", v.Name(), defIdx(v))
			}
			fmt.Fprintln(os.Stderr)
		}
	}
	for k := 2; k <= 3; k++ { // compare round k with round k+1 (1-based)
		if len(outs[k-2]) != len(outs[k-1]) || len(outs[k-1]) != len(outs[k]) {
			continue // the earlier round is the special first round (no incoming top word): not comparable
		}
		n := len(outs[k-1])
		c := &cmp{a: m, b: m, memo: map[[2]ssa.Value]bool{}, fnName: fn.Name(), resA: r, resB: r}
		c.leaf = map[ssa.Value]ssa.Value{}
		c.leafRange = map[ssa.Value]bool{}
		for j := 0; j < n; j++ {
			c.leaf[outs[k-2][j]] = outs[k-1][j]
			c.leafRange[outs[k-1][j]] = true
		}
		c.argShift = true
		res.Pairs = append(res.Pairs, k)
		for j := 0; j < n; j++ {
			if !c.same(outs[k-1][j], outs[k][j]) {
				res.Bad = append(res.Bad, k)
				if res.Msg == "" {
					res.Msg = fmt.Sprintf("accumulator word %d after round %d is not computed like the one after round %d", j, k+1, k)
					if c.first != nil {
						res.Msg += ": " + c.first.Msg
						res.Pos = c.first.Pos
					}
					if !res.Pos.IsValid() {
						if in, ok := outs[k][j].(ssa.Instruction); ok {
							res.Pos = in.Pos()
						}
					}
				}
				break
			}
		}
	}
	return res
}

// SetOneOK decides SetOne exactly: one block, four stores out1[i] = limb i of R mod m, every index once.
func SetOneOK(fn *ssa.Function, m *Modulus) (bool, token.Pos, string) {
	if len(fn.Blocks) != 1 {
		return false, fn.Pos(), "control flow in SetOne"
	}
	r := new(big.Int).Lsh(big.NewInt(1), 256)
	r.Mod(r, m.M)
	seen := map[uint64]bool{}
	sts := outStores(fn)
	if len(sts) != 4 {
		return false, fn.Pos(), fmt.Sprintf("%d output stores, expected 4", len(sts))
	}
	mask := new(big.Int).SetUint64(^uint64(0))
	for _, st := range sts {
		ia, ok := st.Addr.(*ssa.IndexAddr)
		if !ok {
			return false, st.Pos(), "store that is not an element of the output"
		}
		if pa, isP := ia.X.(*ssa.Parameter); !isP || paramIndex(pa) != 0 {
			return false, st.Pos(), "store that is not an element of the output"
		}
		i, okI := constU64(ia.Index)
		v, okV := constU64(st.Val)
		if !okI || !okV || i > 3 {
			return false, st.Pos(), "store with a non-constant index or value"
		}
		if seen[i] {
			return false, st.Pos(), fmt.Sprintf("out1[%d] is stored twice (another limb is left unset)", i)
		}
		seen[i] = true
		want := new(big.Int).And(new(big.Int).Rsh(r, uint(64*i)), mask).Uint64()
		if v != want {
			return false, st.Pos(), fmt.Sprintf("out1[%d] = %#x, but limb %d of R mod m is %#x", i, v, i, want)
		}
	}
	return true, token.NoPos, ""
}

// NonzeroOK decides Nonzero exactly: *out1 = arg1[0] | arg1[1] | arg1[2] | arg1[3] (every limb once, nothing else).
func NonzeroOK(fn *ssa.Function) (bool, token.Pos, string) {
	if len(fn.Blocks) != 1 {
		return false, fn.Pos(), "control flow in Nonzero"
	}
	var st *ssa.Store
	for _, in := range fn.Blocks[0].Instrs {
		if s, ok := in.(*ssa.Store); ok {
			if st != nil {
				return false, s.Pos(), "more than one store"
			}
			st = s
		}
	}
	if st == nil {
		return false, fn.Pos(), "no store to the output"
	}
	if pa, isP := st.Addr.(*ssa.Parameter); !isP || paramIndex(pa) != 0 {
		return false, st.Pos(), "the store does not go to *out1"
	}
	seen := map[uint64]int{}
	bad := ""
	var walk func(v ssa.Value)
	walk = func(v ssa.Value) {
		switch x := v.(type) {
		case *ssa.BinOp:
			if x.Op != token.OR {
				bad = "operation " + x.Op.String() + " where only | is expected"
				return
			}
			walk(x.X)
			walk(x.Y)
		case *ssa.UnOp:
			ia, ok := x.X.(*ssa.IndexAddr)
			if x.Op != token.MUL || !ok {
				bad = "operand that is not a limb of the argument"
				return
			}
			pa, isP := ia.X.(*ssa.Parameter)
			i, okI := constU64(ia.Index)
			if !isP || paramIndex(pa) != 1 || !okI {
				bad = "operand that is not a limb of the argument"
				return
			}
			seen[i]++
		default:
			bad = "operand that is not a limb of the argument"
		}
	}
	walk(st.Val)
	if bad != "" {
		return false, st.Pos(), bad
	}
	for i := uint64(0); i < 4; i++ {
		if seen[i] != 1 {
			return false, st.Pos(), fmt.Sprintf("limb arg1[%d] occurs %d time(s) in the disjunction", i, seen[i])
		}
	}
	if len(seen) != 4 {
		return false, st.Pos(), "a limb index outside 0..3"
	}
	return true, token.NoPos, ""
}
