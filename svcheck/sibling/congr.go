package sibling

import (
	"fmt"
	"go/token"
	"math/big"
	"sort"
	"strings"

	"golang.org/x/tools/go/ssa"
)

// E9: word-level congruence of the Montgomery primitives, decided on one generated function alone.
//
// The body of Mul, Square, ToMontgomery and FromMontgomery is straight-line code over 64-bit words built from
// bits.Mul64, bits.Add64, plain additions of carries and literals.  Every word is given its exact integer value as a
// polynomial over the input limbs and over fresh atoms for what the hardware discards:
//
//	hi, lo = Mul64(a, b):    hi is a fresh atom h, lo = a·b − 2^64·h
//	s, c   = Add64(a, b, k): c is a fresh atom κ, s = a + b + k − 2^64·κ
//
// (identities of the integers, whatever the inputs).  Where the code discards the sum word and keeps only the carry
// - the point of a Montgomery round: the multiple q·m is chosen so that the low word cancels - the full sum
// L = a + b + k must be ≡ 0 (mod 2^64) as a polynomial (every coefficient, after the substitutions above), which is
// where m' = −m^(-1) mod 2^64 is checked; the word is then 0 and the carry is exactly L / 2^64, without a new atom.
// The five words that enter the final conditional subtraction (found as in TailOK) form V = Σ t_i·2^(64i), and the
// primitive's specification is a polynomial congruence modulo m that must hold coefficient by coefficient:
//
//	Mul: V·2^256 ≡ X·Y     Square: V·2^256 ≡ X²     ToMontgomery: V·2^256 ≡ X·2^512     FromMontgomery: V·2^256 ≡ X
//
// All atoms for discarded high words and carries cancel by telescoping when the code is right; an edited carry, a
// wrong operand, a wrong literal or a dropped term leaves a non-zero coefficient.  NOT decided here: that V < 2m
// (Fiat's range proof, needed for the single conditional subtraction to suffice) and that discarded carry-outs are zero.

type poly map[string]*big.Int // monomial (atom names joined by "*", sorted) -> coefficient; "" is the constant term

func pconst(k *big.Int) poly {
	p := poly{}
	if k.Sign() != 0 {
		p[""] = new(big.Int).Set(k)
	}
	return p
}
func patom(name string) poly { return poly{name: big.NewInt(1)} }
func (p poly) add(q poly, sign int64) poly {
	out := poly{}
	for k, v := range p {
		out[k] = new(big.Int).Set(v)
	}
	for k, v := range q {
		w := new(big.Int).Mul(v, big.NewInt(sign))
		if o, ok := out[k]; ok {
			o.Add(o, w)
			if o.Sign() == 0 {
				delete(out, k)
			}
		} else if w.Sign() != 0 {
			out[k] = w
		}
	}
	return out
}
func (p poly) scale(k *big.Int) poly {
	out := poly{}
	if k.Sign() == 0 {
		return out
	}
	for m, v := range p {
		out[m] = new(big.Int).Mul(v, k)
	}
	return out
}
func mulMono(a, b string) string {
	if a == "" {
		return b
	}
	if b == "" {
		return a
	}
	xs := append(strings.Split(a, "*"), strings.Split(b, "*")...)
	sort.Strings(xs)
	return strings.Join(xs, "*")
}
func (p poly) mul(q poly) poly {
	out := poly{}
	for ka, va := range p {
		for kb, vb := range q {
			k := mulMono(ka, kb)
			w := new(big.Int).Mul(va, vb)
			if o, ok := out[k]; ok {
				o.Add(o, w)
				if o.Sign() == 0 {
					delete(out, k)
				}
			} else {
				out[k] = w
			}
		}
	}
	return out
}
func (p poly) isConst() (*big.Int, bool) {
	if len(p) == 0 {
		return new(big.Int), true
	}
	if len(p) == 1 {
		if v, ok := p[""]; ok {
			return v, true
		}
	}
	return nil, false
}

// CongruenceResult reports what Congruence established.
type CongruenceResult struct {
	Applies bool
	OK      bool
	Pos     token.Pos
	Msg     string
	Words   int // word values evaluated
	Dropped int // discarded low words proven ≡ 0 (mod 2^64)
	Atoms   int
}

// Congruence decides the specification congruence of one Montgomery primitive (see the comment at the top).
func Congruence(fn *ssa.Function, m *Modulus) CongruenceResult {
	res := CongruenceResult{}
	kind := fn.Name()
	switch kind {
	case "Mul", "Square", "ToMontgomery", "FromMontgomery", "Add":
	case "Sub", "Opp":
		return congruenceSub(fn, m)
	default:
		return res
	}
	res.Applies = true
	if len(fn.Blocks) != 1 {
		res.Pos, res.Msg = fn.Pos(), "control flow in a generated primitive"
		return res
	}
	two64 := new(big.Int).Lsh(big.NewInt(1), 64)
	r := resolver(fn)
	// which Extracts of a call are used at all (a discarded result has no Extract or an unused one)
	used := map[*ssa.Call]map[int]bool{}
	for _, in := range fn.Blocks[0].Instrs {
		if e, ok := in.(*ssa.Extract); ok {
			if c, isC := e.Tuple.(*ssa.Call); isC && e.Referrers() != nil && len(*e.Referrers()) > 0 {
				if used[c] == nil {
					used[c] = map[int]bool{}
				}
				used[c][e.Index] = true
			}
		}
	}
	memo := map[ssa.Value]poly{}
	// upper bound of every word value (interval reasoning, for the two places where the code relies on "cannot
	// overflow": a plain + of two words and an Add64 whose carry-out is discarded)
	ub := map[ssa.Value]*big.Int{}
	wordMax := new(big.Int).Sub(two64, big.NewInt(1))
	natom := 0
	fresh := func(prefix string) poly {
		natom++
		return patom(fmt.Sprintf("%s%d", prefix, natom))
	}
	type callVal struct {
		a, b   poly
		ua, ub *big.Int
	}
	calls := map[*ssa.Call]*callVal{}
	var fail func(pos token.Pos, format string, a ...interface{})
	failed := false
	fail = func(pos token.Pos, format string, a ...interface{}) {
		if !failed {
			failed = true
			res.Pos, res.Msg = pos, fmt.Sprintf(format, a...)
		}
	}
	bitsCall := func(c *ssa.Call) string {
		cal := c.Call.StaticCallee()
		if cal == nil || cal.Pkg == nil || cal.Pkg.Pkg.Path() != "math/bits" {
			return ""
		}
		return cal.Name()
	}
	var eval func(v ssa.Value) poly
	bound := func(v ssa.Value) *big.Int {
		if b, ok := ub[r(v)]; ok {
			return b
		}
		return wordMax
	}
	evalCall := func(c *ssa.Call) *callVal {
		if cv, ok := calls[c]; ok {
			return cv
		}
		cv := &callVal{ua: wordMax, ub: wordMax}
		calls[c] = cv
		switch bitsCall(c) {
		case "Mul64":
			a, b := eval(c.Call.Args[0]), eval(c.Call.Args[1])
			prod := a.mul(b)
			cv.ua = new(big.Int).Rsh(new(big.Int).Mul(bound(c.Call.Args[0]), bound(c.Call.Args[1])), 64)
			if k, isC := prod.isConst(); isC {
				cv.a = pconst(new(big.Int).Rsh(k, 64))
				cv.b = pconst(new(big.Int).And(k, new(big.Int).Sub(two64, big.NewInt(1))))
				return cv
			}
			h := fresh("h")
			cv.a = h
			cv.b = prod.add(h.scale(two64), -1)
		case "Add64":
			a, b, k := eval(c.Call.Args[0]), eval(c.Call.Args[1]), eval(c.Call.Args[2])
			full := a.add(b, 1).add(k, 1)
			tot := new(big.Int).Add(new(big.Int).Add(bound(c.Call.Args[0]), bound(c.Call.Args[1])), bound(c.Call.Args[2]))
			if tot.Cmp(wordMax) <= 0 {
				cv.ua, cv.ub = tot, new(big.Int)
			} else {
				cv.ub = big.NewInt(1)
			}
			if !used[c][1] && tot.Cmp(wordMax) > 0 {
				fail(c.Pos(), "the carry out of this addition is discarded although the operands' ranges allow it to be set (upper bounds sum to %s)", tot.Text(16))
			}
			switch {
			case !used[c][0] && used[c][1]:
				// the sum word is discarded: it must be 0, i.e. the full sum ≡ 0 (mod 2^64) as a polynomial
				for mono, coef := range full {
					if new(big.Int).Mod(coef, two64).Sign() != 0 {
						fail(c.Pos(), "a discarded low word is not ≡ 0 (mod 2^64): coefficient %s of %s in the sum (the multiple of the modulus added in this reduction round does not cancel the low word)", coef.Text(16), showMono(mono))
						break
					}
				}
				res.Dropped++
				q := poly{}
				for mono, coef := range full {
					q[mono] = new(big.Int).Quo(coef, two64)
				}
				cv.a = poly{}
				cv.b = q
			case !used[c][1]:
				// the carry-out is discarded (Fiat's range proof says it is zero): the sum is exact
				cv.a = full
				cv.b = poly{}
			default:
				kp := fresh("c")
				cv.a = full.add(kp.scale(two64), -1)
				cv.b = kp
			}
		case "Sub64":
			fail(c.Pos(), "a subtraction inside the body of a Montgomery primitive (expected only in its final conditional subtraction)")
		default:
			fail(c.Pos(), "unexpected call in a generated primitive")
		}
		return cv
	}
	eval = func(v ssa.Value) poly {
		v = r(v)
		if p, ok := memo[v]; ok {
			return p
		}
		var out poly
		switch x := v.(type) {
		case *ssa.Const:
			k, ok := constU64(x)
			if !ok {
				fail(fn.Pos(), "non-integer constant")
			}
			out = pconst(new(big.Int).SetUint64(k))
			ub[v] = new(big.Int).SetUint64(k)
		case *ssa.Convert:
			out = eval(x.X)
			ub[v] = bound(x.X)
		case *ssa.ChangeType:
			out = eval(x.X)
			ub[v] = bound(x.X)
		case *ssa.UnOp:
			ia, isI := x.X.(*ssa.IndexAddr)
			if x.Op != token.MUL || !isI {
				fail(x.Pos(), "unsupported load")
				break
			}
			pa, isP := ia.X.(*ssa.Parameter)
			i, okI := constU64(ia.Index)
			if !isP || !okI || paramIndex(pa) < 1 || i > 3 {
				fail(x.Pos(), "load that is not a limb of an argument")
				break
			}
			out = patom(fmt.Sprintf("x%d_%d", paramIndex(pa), i))
		case *ssa.BinOp:
			switch x.Op {
			case token.ADD:
				out = eval(x.X).add(eval(x.Y), 1)
				tot := new(big.Int).Add(bound(x.X), bound(x.Y))
				if tot.Cmp(wordMax) > 0 {
					fail(x.Pos(), "a plain addition of two words whose ranges allow it to wrap (upper bounds sum to %s)", tot.Text(16))
				}
				ub[v] = tot
			case token.MUL:
				out = eval(x.X).mul(eval(x.Y))
			default:
				fail(x.Pos(), "operation %s in the body of a Montgomery primitive", x.Op)
			}
		case *ssa.Extract:
			c, isC := x.Tuple.(*ssa.Call)
			if !isC {
				fail(x.Pos(), "unsupported tuple")
				break
			}
			cv := evalCall(c)
			if x.Index == 0 {
				out = cv.a
				ub[v] = cv.ua
			} else {
				out = cv.b
				ub[v] = cv.ub
			}
		default:
			fail(v.Pos(), "unsupported value %T in a generated primitive", v)
		}
		if out == nil {
			out = poly{}
		}
		memo[v] = out
		res.Words++
		return out
	}
	// the five words entering the final conditional subtraction
	outs := outStores(fn)
	if len(outs) != 4 {
		res.Pos, res.Msg = fn.Pos(), "expected four output stores"
		return res
	}
	strip := func(v ssa.Value) ssa.Value {
		for {
			v = r(v)
			switch x := v.(type) {
			case *ssa.ChangeType:
				v = x.X
			case *ssa.Convert:
				v = x.X
			default:
				return v
			}
		}
	}
	var words []ssa.Value
	var sel ssa.Value
	for _, s := range outs {
		c, isC := r(s.Val).(*ssa.Call)
		if !isC || c.Call.StaticCallee() == nil || c.Call.StaticCallee().Name() != "cmovznzU64" || len(c.Call.Args) != 4 {
			res.Pos, res.Msg = s.Pos(), "an output is not the result of the final conditional move"
			return res
		}
		words = append(words, c.Call.Args[3])
		sel = c.Call.Args[1]
	}
	// the overflow word: minuend of the last step of the subtraction chain, whose borrow is the selector
	if e, ok := strip(sel).(*ssa.Extract); ok {
		if c, isC := e.Tuple.(*ssa.Call); isC && bitsCall(c) == "Sub64" {
			words = append(words, c.Call.Args[0])
		}
	}
	if len(words) != 5 {
		res.Pos, res.Msg = fn.Pos(), "the overflow word of the final conditional subtraction was not found"
		return res
	}
	V := poly{}
	for i, w := range words {
		V = V.add(eval(w).scale(new(big.Int).Lsh(big.NewInt(1), uint(64*i))), 1)
	}
	if failed {
		return res
	}
	arg := func(k int) poly {
		p := poly{}
		for i := 0; i < 4; i++ {
			p = p.add(patom(fmt.Sprintf("x%d_%d", k, i)).scale(new(big.Int).Lsh(big.NewInt(1), uint(64*i))), 1)
		}
		return p
	}
	R := new(big.Int).Lsh(big.NewInt(1), 256)
	var target poly
	spec := ""
	switch kind {
	case "Mul":
		target, spec = arg(1).mul(arg(2)), "out·2^256 ≡ arg1·arg2"
	case "Square":
		target, spec = arg(1).mul(arg(1)), "out·2^256 ≡ arg1²"
	case "ToMontgomery":
		target, spec = arg(1).scale(new(big.Int).Lsh(big.NewInt(1), 512)), "out·2^256 ≡ arg1·2^512"
	case "FromMontgomery":
		target, spec = arg(1), "out·2^256 ≡ arg1"
	case "Add":
		// the five words entering the conditional subtraction are the exact sum
		target, spec = arg(1).add(arg(2), 1).scale(R), "sum words = arg1 + arg2 (exactly), then one conditional subtraction"
	}
	diff := V.scale(R).add(target, -1)
	var monos []string
	for mono := range diff {
		monos = append(monos, mono)
	}
	sort.Strings(monos)
	for _, mono := range monos {
		if new(big.Int).Mod(diff[mono], m.M).Sign() != 0 {
			res.Pos = fn.Pos()
			res.Msg = fmt.Sprintf("the words entering the final subtraction do not satisfy %s (mod m): the coefficient of %s does not vanish modulo m (a carry, an operand or a literal of the body is wrong)", spec, showMono(mono))
			res.Atoms = natom
			return res
		}
	}
	res.OK = true
	res.Atoms = natom
	res.Msg = spec
	return res
}

func showMono(m string) string {
	if m == "" {
		return "the constant term"
	}
	return strings.ReplaceAll(m, "*", "·")
}

// congruenceSub decides Sub and Opp exactly: with β the borrow out of the four-step chain arg1 − arg2 (0 − arg1 for Opp),
// the output words satisfy  out ≡ arg1 − arg2 + β·m  (mod 2^256)  as a polynomial identity; since β is by
// construction [arg1 < arg2] and 0 ≤ arg1 − arg2 + β·m < m for reduced operands, that is the specification.
func congruenceSub(fn *ssa.Function, m *Modulus) CongruenceResult {
	res := CongruenceResult{Applies: true}
	if len(fn.Blocks) != 1 {
		res.Pos, res.Msg = fn.Pos(), "control flow in a generated primitive"
		return res
	}
	two64 := new(big.Int).Lsh(big.NewInt(1), 64)
	ones := new(big.Int).Sub(two64, big.NewInt(1))
	r := resolver(fn)
	memo := map[ssa.Value]poly{}
	natom := 0
	fresh := func(prefix string) poly {
		natom++
		return patom(fmt.Sprintf("%s%d", prefix, natom))
	}
	failed := false
	fail := func(pos token.Pos, format string, a ...interface{}) {
		if !failed {
			failed = true
			res.Pos, res.Msg = pos, fmt.Sprintf(format, a...)
		}
	}
	type callVal struct{ a, b poly }
	calls := map[*ssa.Call]*callVal{}
	var lastBorrow poly
	nsub := 0
	var eval func(v ssa.Value) poly
	evalCall := func(c *ssa.Call) *callVal {
		if cv, ok := calls[c]; ok {
			return cv
		}
		cv := &callVal{}
		calls[c] = cv
		cal := c.Call.StaticCallee()
		name := ""
		if cal != nil {
			name = cal.Name()
		}
		switch {
		case cal != nil && cal.Pkg != nil && cal.Pkg.Pkg.Path() == "math/bits" && name == "Sub64":
			a, b, k := eval(c.Call.Args[0]), eval(c.Call.Args[1]), eval(c.Call.Args[2])
			bp := fresh("b")
			cv.a = a.add(b, -1).add(k, -1).add(bp.scale(two64), 1)
			cv.b = bp
			lastBorrow = bp
			nsub++
		case cal != nil && cal.Pkg != nil && cal.Pkg.Pkg.Path() == "math/bits" && name == "Add64":
			a, b, k := eval(c.Call.Args[0]), eval(c.Call.Args[1]), eval(c.Call.Args[2])
			kp := fresh("c")
			cv.a = a.add(b, 1).add(k, 1).add(kp.scale(two64), -1)
			cv.b = kp
		case name == "cmovznzU64" && len(c.Call.Args) == 4:
			// *out = arg2 if cond == 0 else arg3
			cond, x, y := eval(c.Call.Args[1]), eval(c.Call.Args[2]), eval(c.Call.Args[3])
			cv.a = x.add(cond.mul(y.add(x, -1)), 1)
		default:
			fail(c.Pos(), "unexpected call in a generated primitive")
		}
		return cv
	}
	eval = func(v ssa.Value) poly {
		v = r(v)
		if p, ok := memo[v]; ok {
			return p
		}
		var out poly
		switch x := v.(type) {
		case *ssa.Const:
			k, _ := constU64(x)
			out = pconst(new(big.Int).SetUint64(k))
		case *ssa.Convert:
			out = eval(x.X)
		case *ssa.ChangeType:
			out = eval(x.X)
		case *ssa.UnOp:
			ia, isI := x.X.(*ssa.IndexAddr)
			if x.Op != token.MUL || !isI {
				fail(x.Pos(), "unsupported load")
				break
			}
			pa, isP := ia.X.(*ssa.Parameter)
			i, okI := constU64(ia.Index)
			if !isP || !okI || paramIndex(pa) < 1 || i > 3 {
				fail(x.Pos(), "load that is not a limb of an argument")
				break
			}
			out = patom(fmt.Sprintf("x%d_%d", paramIndex(pa), i))
		case *ssa.BinOp:
			if x.Op != token.AND {
				fail(x.Pos(), "operation %s in Sub/Opp", x.Op)
				break
			}
			// mask & literal, the mask being (2^64−1)·β for a 0/1 value β
			a, b := eval(x.X), eval(x.Y)
			if _, isC := a.isConst(); isC {
				a, b = b, a
			}
			k, isC := b.isConst()
			if !isC {
				fail(x.Pos(), "and of two non-constant words")
				break
			}
			q := poly{}
			for mono, coef := range a {
				d, rem := new(big.Int).QuoRem(coef, ones, new(big.Int))
				if rem.Sign() != 0 {
					fail(x.Pos(), "and with a word that is not an all-ones/zero mask")
				}
				q[mono] = d
			}
			out = q.scale(k)
		case *ssa.Extract:
			c, isC := x.Tuple.(*ssa.Call)
			if !isC {
				fail(x.Pos(), "unsupported tuple")
				break
			}
			cv := evalCall(c)
			if x.Index == 0 {
				out = cv.a
			} else {
				out = cv.b
			}
		case *ssa.Call:
			out = evalCall(x).a
		default:
			fail(v.Pos(), "unsupported value %T in a generated primitive", v)
		}
		if out == nil {
			out = poly{}
		}
		memo[v] = out
		res.Words++
		return out
	}
	outs := outStores(fn)
	if len(outs) != 4 {
		res.Pos, res.Msg = fn.Pos(), "expected four output stores"
		return res
	}
	V := poly{}
	for i, s := range outs {
		ia, isI := s.Addr.(*ssa.IndexAddr)
		k, isK := uint64(0), false
		if isI {
			k, isK = constU64(ia.Index)
		}
		if !isI || !isK || int(k) != i {
			res.Pos, res.Msg = s.Pos(), fmt.Sprintf("output store %d does not write limb %d", i, i)
			return res
		}
		V = V.add(eval(s.Val).scale(new(big.Int).Lsh(big.NewInt(1), uint(64*i))), 1)
	}
	if failed {
		return res
	}
	if nsub != 4 || lastBorrow == nil {
		res.Pos, res.Msg = fn.Pos(), fmt.Sprintf("%d subtraction steps, expected 4", nsub)
		return res
	}
	arg := func(k int) poly {
		p := poly{}
		for i := 0; i < 4; i++ {
			p = p.add(patom(fmt.Sprintf("x%d_%d", k, i)).scale(new(big.Int).Lsh(big.NewInt(1), uint(64*i))), 1)
		}
		return p
	}
	var target poly
	spec := ""
	if fn.Name() == "Sub" {
		target, spec = arg(1).add(arg(2), -1), "out ≡ arg1 − arg2 + β·m (mod 2^256), β the borrow of arg1 − arg2"
	} else {
		target, spec = arg(1).scale(big.NewInt(-1)), "out ≡ −arg1 + β·m (mod 2^256), β the borrow of 0 − arg1"
	}
	// the borrow that selects the mask must be the last one of the chain: it is, if the identity holds with it
	target = target.add(lastBorrow.scale(m.M), 1)
	diff := V.add(target, -1)
	R := new(big.Int).Lsh(big.NewInt(1), 256)
	var monos []string
	for mono := range diff {
		monos = append(monos, mono)
	}
	sort.Strings(monos)
	for _, mono := range monos {
		if new(big.Int).Mod(diff[mono], R).Sign() != 0 {
			res.Pos = fn.Pos()
			res.Msg = fmt.Sprintf("the output words do not satisfy %s: the coefficient of %s does not vanish modulo 2^256", spec, showMono(mono))
			return res
		}
	}
	res.OK = true
	res.Atoms = natom
	res.Msg = spec
	return res
}
