# expect: C01
s=open('element.go').read()
s=s.replace("for i := 255; i >= 0; i-- {","for i := 254; i >= 0; i-- {")
open('element.go','w').write(s)
