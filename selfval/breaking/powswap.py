# expect: C06
s=open('scalar.go').read()
s=s.replace("bigS.Exp(bigS, bigT, order)","bigS.Exp(bigT, bigS, order)")
open('scalar.go','w').write(s)
