# expect: C04
# re-introduce F2
s=open('element.go').read()
s=s.replace("	if e.IsIdentity() {\n		return []byte{encodingPrefixIdentity}\n	}\n\n	var out [elementLengthUncompressed]byte","	var out [elementLengthUncompressed]byte")
open('element.go','w').write(s)
