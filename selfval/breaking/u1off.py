# expect: C08
s=open('group.go').read()
s=s.replace("uniform[secLength : 2*secLength]","uniform[secLength-1 : 2*secLength-1]")
open('group.go','w').write(s)
