# expect: C19
s=open('element.go').read()
s=s.replace("	r0 := newElement()\n	r1 := e.copy()","	if s.IsZero() {\n		return e.Identity()\n	}\n\n	r0 := newElement()\n	r1 := e.copy()")
open('element.go','w').write(s)
