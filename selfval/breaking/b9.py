# expect: C15 C16
s=open('element.go').read()
s=s.replace("q := element.copy().negate()\n\n	return e.add(q)","q := element.negate()\n	e.add(q)\n	element.negate()\n\n	return e")
open('element.go','w').write(s)
