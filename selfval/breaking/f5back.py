# expect: C15 C16 C08 C09
s=open('xmd.go').read()
s=s.replace("	dstPrime := make([]byte, 0, len(dst)+1)\n	dstPrime = append(dstPrime, dst...)\n\n	return append(dstPrime, i2osp1(uint(len(dst)))[0])","	return append(dst, i2osp1(uint(len(dst)))[0])")
open('xmd.go','w').write(s)
