# expect: C05
s=open('element.go').read()
s=s.replace("return int(x1z2.Equals(x2z1) & y1z2.Equals(y2z1))","_ = y1z2\n	_ = y2z1\n	return int(x1z2.Equals(x2z1))")
open('element.go','w').write(s)
