# expect: C11 C08
s=open('mapping.go').read()
s=s.replace("tv4 := field.New().CMove(tv2Zero, tv2, z) ","tv4 := field.New().CMove(tv2Zero, tv2, isoA) ")
open('mapping.go','w').write(s)
