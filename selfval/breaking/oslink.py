# expect: C17
# the SHA-256 link is moved into a file that only builds on linux: programs for other systems panic
s=open('xmd.go').read()
s=s.replace('	_ "crypto/sha256" // register SHA-256 with the crypto registry, so that crypto.SHA256.New() works in every program.\n','')
open('xmd.go','w').write(s)
open('hashlink_linux.go','w').write('package secp256k1\n\nimport _ "crypto/sha256"\n')
