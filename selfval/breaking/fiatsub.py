# expect: C12 C06
s=open('internal/scalar/secp256k1montgomeryscalar.go').read()
i=s.index("func Sub(")
j=s.index("func Opp(")
body=s[i:j]
import re
m=re.search(r"\(x9 & (0x[0-9a-f]+)\)", body)
body=body.replace(m.group(0), "(x9 & 0xbfd25e8cd0364140)",1)
s=s[:i]+body+s[j:]
open('internal/scalar/secp256k1montgomeryscalar.go','w').write(s)
