# expect: C14 C01
# silent: C19
# limb-wise expansion that stops at the first zero limb: wrong bits, but the field-operation schedule of Multiply is unchanged
s=open('scalar.go').read()
s=s.replace("	for i := range 256 {\n		out[i] = uint8((n[i/64] >> (i % 64)) & 1)\n	}","	for limb := 0; limb < 4; limb++ {\n		if n[limb] == 0 {\n			break\n		}\n\n		for j := 0; j < 64; j++ {\n			out[64*limb+j] = uint8((n[limb] >> j) & 1)\n		}\n	}")
open('scalar.go','w').write(s)
