# expect: C06
import re
s=open('internal/scalar/scalar_invert.go').read()
m=list(re.finditer(r"for s := 1; s < (\d+); s\+\+", s))[3]
n=int(m.group(1))
s=s[:m.start()]+"for s := 1; s < %d; s++"%(n-1)+s[m.end():]
open('internal/scalar/scalar_invert.go','w').write(s)
