# expect: C03
s=open('element.go').read()
s=s.replace("	fey, reduced := field.New().FromBytesWithReduce(y)\n	if reduced == 0 {\n		return errParamInvalidPointEncoding\n	}","	fey, _ := field.New().FromBytesWithReduce(y)")
open('element.go','w').write(s)
