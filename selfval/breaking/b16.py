# expect: C11
s=open('mapping.go').read()
s=s.replace("				12950111799174569234,\n","				12950111799174569235,\n")
open('mapping.go','w').write(s)
