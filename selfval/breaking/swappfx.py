# expect: C04
s=open('element.go').read()
s=s.replace("ySign := subtle.ConstantTimeSelect(int(affine.y.Sgn0()), encodingPrefixOdd, encodingPrefixEven)","ySign := subtle.ConstantTimeSelect(int(affine.y.Sgn0()), encodingPrefixEven, encodingPrefixOdd)")
s=s.replace("	cond := y.Sgn0() ^ uint64(data[0]&1)","	cond := y.Sgn0() ^ uint64(data[0]&1) ^ 1")
open('element.go','w').write(s)
