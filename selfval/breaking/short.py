# expect: C18
s=open('scalar.go').read()
s=s.replace("io.ReadFull(rand.Reader, buf[:])","io.ReadFull(rand.Reader, buf[:16])")
open('scalar.go','w').write(s)
