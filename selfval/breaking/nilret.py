# expect: C01
s=open('element.go').read()
s=s.replace("	if scalar == nil {\n		return e.Identity()\n	}","	if scalar == nil {\n		return e\n	}")
open('element.go','w').write(s)
