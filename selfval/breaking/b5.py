# expect: C03
s=open('element.go').read()
s=s.replace("	var y2 field.Element\n	Secp256Polynomial(&y2, x)\n\n	y, isSquare","	e.x.Set(x)\n\n	var y2 field.Element\n	Secp256Polynomial(&y2, x)\n\n	y, isSquare")
open('element.go','w').write(s)
