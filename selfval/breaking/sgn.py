# expect: C12
s=open('internal/field/element.go').read()
s=s.replace("	var n NonMontgomeryDomainFieldElement\n	FromMontgomery(&n, &e.E)\n\n	return IsNonZero(n[0] & 1)","	return IsNonZero(e.E[0] & 1)")
open('internal/field/element.go','w').write(s)
