# expect: C07
# accept n itself: compare against n+1 by flipping the check to use Reduce on value-1? emulate: treat borrow==0 only if x > n  -> implement by skipping check when equal
s=open('scalar.go').read()
s=s.replace("	if scalar.ReduceBytes(&s.S, [scalarLength]byte(in)) == 0 {\n		return errParamScalarTooBig\n	}","	if scalar.ReduceBytes(&s.S, [scalarLength]byte(in)) == 0 && !s.IsZero() {\n		return errParamScalarTooBig\n	}")
open('scalar.go','w').write(s)
