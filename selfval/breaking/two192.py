# expect: C12
s=open('internal/field/element.go').read()
s=s.replace("two192 = &MontgomeryDomainFieldElement{0, 0, 0, 4294968273}","two192 = &MontgomeryDomainFieldElement{0, 0, 0, 4294968274}")
open('internal/field/element.go','w').write(s)
