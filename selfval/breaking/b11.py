# expect: C04
s=open('element.go').read()
s=s.replace("ySign := subtle.ConstantTimeSelect(int(affine.y.Sgn0()), encodingPrefixOdd, encodingPrefixEven)","ySign := subtle.ConstantTimeSelect(int(e.y.Sgn0()), encodingPrefixOdd, encodingPrefixEven)")
open('element.go','w').write(s)
