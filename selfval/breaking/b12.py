# expect: C08 C09
s=open('xmd.go').read()
s=s.replace("dstMaxLength         = 255","dstMaxLength         = 256")
open('xmd.go','w').write(s)
