# expect: C14 C01
s=open('scalar.go').read()
s=s.replace("for i := range 256 {","for i := range 255 {")
open('scalar.go','w').write(s)
