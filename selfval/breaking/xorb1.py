# expect: C08 C09
s=open('xmd.go').read()
s=s.replace("		xor := xorSlices(bi, b0)","		xor := xorSlices(bi, b1)")
open('xmd.go','w').write(s)
