# expect: C13
s=open('scalar.go').read()
s=s.replace("scalar.CMove(&s.S, scalar.IsNonZero(cond), &u.S, &v.S)","scalar.CMove(&s.S, cond&1, &u.S, &v.S)")
open('scalar.go','w').write(s)
