# expect: C11
s=open('mapping.go').read()
s=s.replace("e1 := field.IsEqual(e.Sgn0(), y.Sgn0())","e1 := field.IsEqual(e.E[0]&1, y.Sgn0())")
open('mapping.go','w').write(s)
