# expect: C19
# silent: C01 C02 C05 C08 C10
# functionally correct identity shortcut in add: P + O = P; the ladder's schedule now depends on leading zero bits
s=open('element.go').read()
s=s.replace("	if element == nil {\n		return e\n	}\n\n	return e.addProjectiveComplete(e, element)","	if element == nil || element.IsIdentity() {\n		return e\n	}\n\n	return e.addProjectiveComplete(e, element)")
open('element.go','w').write(s)
