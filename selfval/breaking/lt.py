# expect: C13
s=open('scalar.go').read()
s=s.replace("	return equal | scalar.IsNonZero(borrow)","	_ = equal\n	return scalar.IsNonZero(borrow)")
open('scalar.go','w').write(s)
