# expect: C05 C12
s=open('internal/field/element.go').read()
s=s.replace("	res |= e.E[2] ^ u.E[2]\n	res |= e.E[3] ^ u.E[3]\n","	res |= e.E[2] ^ u.E[2]\n")
open('internal/field/element.go','w').write(s)
