# expect: C02
s=open('element.go').read()
s=s.replace("t4.Add(&u.y, &u.z)  // t4 := Y1 + Z1","t4.Add(&u.y, &u.y)  // t4 := Y1 + Z1")
open('element.go','w').write(s)
