# expect: C07
s=open('scalar.go').read()
s=s.replace("	case scalarLength:\n		break","	case scalarLength, scalarLength + 1:\n		break")
open('scalar.go','w').write(s)
