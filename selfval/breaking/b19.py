# expect: C16 C10
s=open('group.go').read()
s=s.replace('''func Base() *Element {
	return newElement().Base()''','''var baseCache *Element

func Base() *Element {
	if baseCache == nil {
		baseCache = newElement().Base()
	}
	return baseCache.copy()''')
open('group.go','w').write(s)
