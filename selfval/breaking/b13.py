# expect: C08 C09
s=open('xmd.go').read()
s=s.replace('"H2C-OVERSIZE-DST-"','"H2C-OVERSIZE-DST_"')
open('xmd.go','w').write(s)
