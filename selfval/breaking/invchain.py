# expect: C11 C12
s=open('internal/field/fe_invert.go').read()
idx=s.find("for s := 1; s < ")
import re
m=re.search(r"for s := 1; s < (\d+); s\+\+", s)
n=int(m.group(1))
s=s[:m.start()]+"for s := 1; s < %d; s++"%(n+1)+s[m.end():]
open('internal/field/fe_invert.go','w').write(s)
