# expect: C18
s=open('scalar.go').read()
s=s.replace("		_, err := io.ReadFull(rand.Reader, buf[:])\n		if err != nil {\n			panic(err)\n		}\n","		_, _ = io.ReadFull(rand.Reader, buf[:])\n")
open('scalar.go','w').write(s)
