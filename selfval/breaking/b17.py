# expect: C09
s=open('internal/scalar/scalar.go').read()
s=s.replace("		4624529908474429120,\n	}\n\n	// 2^384","		4624529908474429121,\n	}\n\n	// 2^384")
open('internal/scalar/scalar.go','w').write(s)
