# expect: C03
s=open('element.go').read()
s=s.replace("if data[0] != encodingPrefixEven && data[0] != encodingPrefixOdd {","if data[0]&0xfb != encodingPrefixEven && data[0]&0xfb != encodingPrefixOdd {")
open('element.go','w').write(s)
