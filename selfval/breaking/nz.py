# expect: C12
s=open('internal/field/element.go').read()
s=s.replace("return ((^uint64(0) & u) | (^(0 ^ u) & -u)) >> 63","return ((^uint64(0) & u) | (^(0 ^ u) & -u)) >> 62 & 1")
open('internal/field/element.go','w').write(s)
