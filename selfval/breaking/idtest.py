# expect: C19
s=open('element.go').read()
s=s.replace("		if bits[i] == 0 {\n			r1.Add(r0)\n			r0.Double()","		if bits[i] == 0 {\n			r1.Add(r0)\n			if !r0.IsIdentity() {\n				r0.Double()\n			}")
open('element.go','w').write(s)
