# expect: C11
s=open('mapping.go').read()
s=s.replace("	isIdentity |= yDen.IsZero()\n","")
open('mapping.go','w').write(s)
