# expect: C18
s=open('scalar.go').read()
s=s.replace("		_ = scalar.Reduce(nm)\n\n","")
open('scalar.go','w').write(s)
