# expect: C19
s=open('element.go').read()
s=s.replace("	for i := 255; i >= 0; i-- {\n		if bits[i] == 0 {","	top := 255\n	for top > 0 && bits[top] == 0 {\n		top--\n	}\n\n	for i := top; i >= 0; i-- {\n		if bits[i] == 0 {")
open('element.go','w').write(s)
