# expect: C06
s=open('scalar.go').read()
s=s.replace("s.S[1] = 8457119966977671287","s.S[1] = 8457119966977671286")
open('scalar.go','w').write(s)
