# expect: C07
s=open('scalar.go').read()
s=s.replace("		return errParamScalarTooBig\n","		return errParamScalarLength\n")
open('scalar.go','w').write(s)
