# expect: C17
s=open('xmd.go').read()
import re
s=re.sub(r'\t_ "crypto/sha256".*\n','',s)
open('xmd.go','w').write(s)
