# expect: C12
s=open('internal/field/element.go').read()
s=s.replace("	Sub(&e.E, &u.E, &v.E)","	Sub(&e.E, &v.E, &u.E)")
open('internal/field/element.go','w').write(s)
