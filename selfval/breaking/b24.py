# expect: C06
s=open('scalar.go').read()
s=s.replace("scalar.Sub(&s.S, &s.S, &t.S)","scalar.Sub(&s.S, &t.S, &s.S)")
open('scalar.go','w').write(s)
