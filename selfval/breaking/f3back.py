# expect: C13
s=open('scalar.go').read()
s=s.replace("bits.Sub64(sn[2], tn[2], borrow)","bits.Sub64(s.S[2], t.S[2], borrow)")
open('scalar.go','w').write(s)
