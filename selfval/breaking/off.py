# expect: C03
s=open('element.go').read()
s=s.replace("e.DecodeCoordinates([32]byte(data[1:33]), [32]byte(data[33:]))","e.DecodeCoordinates([32]byte(data[1:33]), [32]byte(data[32:]))")
open('element.go','w').write(s)
