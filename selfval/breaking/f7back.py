# expect: C08
s=open('group.go').read()
s=s.replace("	q0 := IsogenySecp256k13iso(SSWU(u0))\n	q1 := IsogenySecp256k13iso(SSWU(u1))\n\n	return q0.Add(q1)","	q0 := SSWU(u0)\n	q1 := SSWU(u1)\n\n	return IsogenySecp256k13iso(q0.addAffine3Iso2(q1))")
open('group.go','w').write(s)
