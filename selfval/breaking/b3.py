# expect: C02
s=open('element.go').read()
s=s.replace("func (e *Element) doubleProjectiveComplete(u *Element) *Element {\n	// b3 is 3*b = 3*7 = 21, in the Montgomery form.\n	b3 := field.Element{E: field.MontgomeryDomainFieldElement{90194333733, 0, 0, 0}}","func (e *Element) doubleProjectiveComplete(u *Element) *Element {\n	// b3 is 3*b = 3*7 = 21, in the Montgomery form.\n	b3 := field.Element{E: field.MontgomeryDomainFieldElement{90194333734, 0, 0, 0}}")
open('element.go','w').write(s)
