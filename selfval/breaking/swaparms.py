# expect: C01
s=open('element.go').read()
s=s.replace("		if bits[i] == 0 {\n			r1.Add(r0)\n			r0.Double()\n		} else {\n			r0.Add(r1)\n			r1.Double()","		if bits[i] != 0 {\n			r1.Add(r0)\n			r0.Double()\n		} else {\n			r0.Add(r1)\n			r1.Double()")
open('element.go','w').write(s)
