# expect: C07
s=open('internal/scalar/scalar.go').read()
s=s.replace("		13822214165235122497,\n		13451932020343611451,","		13822214165235122497,\n		13451932020343611450,")
open('internal/scalar/scalar.go','w').write(s)
