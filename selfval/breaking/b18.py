# expect: C15 C16
s=open('group.go').read()
s=s.replace('''	return []byte{
		255,''','''	return orderBytes
}

var orderBytes = []byte{
		255,''')
s=s.replace("208, 54, 65, 65,\n	}\n}","208, 54, 65, 65,\n}")
open('group.go','w').write(s)
