# expect: C06
s=open('scalar.go').read()
s=s.replace("buf := make([]byte, l, scalarLength)\n		buf = append(buf, bytes...)","buf := make([]byte, 0, scalarLength)\n		buf = append(buf, bytes...)\n		buf = append(buf, make([]byte, l)...)")
open('scalar.go','w').write(s)
