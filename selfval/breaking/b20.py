# expect: C18
s=open('scalar.go').read()
s=s.replace("	for scalar.IsFEZero(&m) == 1 {\n		_, err := io.ReadFull(rand.Reader, buf[:])\n		if err != nil {\n			panic(err)\n		}\n\n		nm := scalar.BytesToNonMontgomery(buf)\n		_ = scalar.Reduce(nm)\n\n		scalar.ToMontgomery(&m, nm)\n	}","	_, err := io.ReadFull(rand.Reader, buf[:])\n	if err != nil {\n		panic(err)\n	}\n\n	nm := scalar.BytesToNonMontgomery(buf)\n	_ = scalar.Reduce(nm)\n\n	scalar.ToMontgomery(&m, nm)")
open('scalar.go','w').write(s)
