# expect: C03 C12
s=open('internal/field/element.go').read()
s=s.replace("bits.Sub64(x[1], 0xffffffffffffffff, borrow)","bits.Sub64(x[1], 0xfffffffffffffffe, borrow)")
open('internal/field/element.go','w').write(s)
