# expect: none
import re,glob
for f in glob.glob('**/*.go', recursive=True):
    if f.endswith('_test.go'): continue
    s=open(f).read()
    s2=re.sub(r'\bSqrtRatio\b','SqrtRatio3Mod4',s)
    s2=re.sub(r'\bFromBytesWithReduce\b','SetBytesReduced',s2)
    s2=re.sub(r'\bexpPMin3Div4\b','powPMinus3Over4',s2)
    if s2!=s: open(f,'w').write(s2)
