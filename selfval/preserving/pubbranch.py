# expect: none
s=open('element.go').read()
s=s.replace("	r0 := newElement()\n	r1 := e.copy()","	if e.IsIdentity() {\n		return e\n	}\n\n	r0 := newElement()\n	r1 := e.copy()")
open('element.go','w').write(s)
