# expect: none
# behaviour-preserving: identity shortcut in Equal
s=open('element.go').read()
s=s.replace("func (e *Element) isEqual(u *Element) int {\n","func (e *Element) isEqual(u *Element) int {\n	if e.IsIdentity() || u.IsIdentity() {\n		if e.IsIdentity() && u.IsIdentity() {\n			return 1\n		}\n\n		return 0\n	}\n\n")
open('element.go','w').write(s)
