# expect: none
# behaviour preserving: different order, subtraction-based test
s=open('element.go').read()
s=s.replace("return int(x1z2.Equals(x2z1) & y1z2.Equals(y2z1))","ey := y2z1.Equals(y1z2)\n	ex := x2z1.Equals(x1z2)\n	return int(ey & ex)")
open('element.go','w').write(s)
