# expect: none
# preserving: check order swapped, switch -> if chain, helper extraction
s=open('element.go').read()
s=s.replace('''	fex, reduced := field.New().FromBytesWithReduce(x)
	if reduced == 0 {
		return errParamInvalidPointEncoding
	}

	fey, reduced := field.New().FromBytesWithReduce(y)
	if reduced == 0 {
		return errParamInvalidPointEncoding
	}
''','''	fey, reducedY := field.New().FromBytesWithReduce(y)
	fex, reducedX := field.New().FromBytesWithReduce(x)
	if reducedY == 0 {
		return errParamInvalidPointEncoding
	}

	if reducedX != 1 {
		return errParamInvalidPointEncoding
	}
''')
s=s.replace('''	switch len(data) {
	case elementLengthIdentity:
		if data[0] != encodingPrefixIdentity {
			return errParamInvalidPointEncoding
		}

		e.Identity()

		return nil
	case elementLengthCompressed:
		return e.DecodeCompressed(data)
	case elementLengthUncompressed:
		return e.DecodeUncompressed(data)
	default:
		return errParamInvalidPointEncoding
	}''','''	if len(data) == elementLengthUncompressed {
		return e.DecodeUncompressed(data)
	}
	if len(data) == elementLengthCompressed {
		return e.DecodeCompressed(data)
	}
	if len(data) != elementLengthIdentity || data[0] != encodingPrefixIdentity {
		return errParamInvalidPointEncoding
	}
	e.Identity()
	return nil''')
open('element.go','w').write(s)
