# cosmetic edits of generated code: locals of scalar.Add renamed, declarations turned into :=, two independent products of field.Mul reordered
import re
p='internal/scalar/secp256k1montgomeryscalar.go'
s=open(p).read()
i=s.index('func Add(out1 *MontgomeryDomainFieldElement')
j=s.index('\n}\n', i)
body=s[i:j]
body=re.sub(r'\bx(\d+)\b', r'acc\1', body)
s=s[:i]+body+s[j:]
open(p,'w').write(s)
p='internal/field/secp256k1montgomery.go'
s=open(p).read()
a='''	var x5 uint64
	var x6 uint64
	x6, x5 = bits.Mul64(x4, arg2[3])
'''
b='''	var x7 uint64
	var x8 uint64
	x8, x7 = bits.Mul64(x4, arg2[2])
'''
i=s.index(a)
assert s[i+len(a):i+len(a)+len(b)]==b
s=s[:i]+b+a+s[i+len(a)+len(b):]
open(p,'w').write(s)
