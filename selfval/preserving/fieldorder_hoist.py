# expect: none
# Element field order changed; isogeny constants hoisted to package level
import re
s=open('element.go').read()
s=s.replace("	x, y, z field.Element\n","	z, y, x field.Element\n",1)
open('element.go','w').write(s)
m=open('mapping.go').read()
# hoist the var ( ... ) block of IsogenySecp256k13iso to package level
a=m.index('func IsogenySecp256k13iso(e *Element) *Element {')
b=m.index('	var (', a)
# find end of var block: first "\n\t)\n" after b
c=m.index('\n\t)\n', b)+4
block=m[b:c]
m=m[:b]+m[c:]
# dedent block by one tab and place before the function's doc comment
ded='\n'.join(l[1:] if l.startswith('\t') else l for l in block.split('\n'))
doc=m.rindex('\n// IsogenySecp256k13iso', 0, a)
m=m[:doc]+'\n'+ded+m[doc:]
open('mapping.go','w').write(m)
