# expect: none
# preserving: three-clause bits loop, r1 := copy renamed, add-always ladder with helper
s=open('scalar.go').read()
s=s.replace("for i := range 256 {","for i := 0; i < 256; i++ {")
open('scalar.go','w').write(s)
s=open('element.go').read()
s=s.replace("	r0 := newElement()\n	r1 := e.copy()\n	bits := s.Bits()","	acc := NewElement()\n	nxt := e.Copy()\n	r0, r1 := acc, nxt\n	bits := s.Bits()")
open('element.go','w').write(s)
