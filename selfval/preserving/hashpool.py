# expect: none
# SHA-256 states recycled through a sync.Pool (reset before reuse), handed back with defer; the blank import stays
open('hashpool.go','w').write('''package secp256k1

import (
	"crypto"
	"hash"
	"sync"
)

var hashPool = sync.Pool{
	New: func() any { return crypto.SHA256.New() },
}

func getHash() hash.Hash {
	return hashPool.Get().(hash.Hash) //nolint:forcetypeassert // the pool only ever holds hash.Hash values.
}

func putHash(h hash.Hash) {
	h.Reset()
	hashPool.Put(h)
}
''')
s=open('xmd.go').read()
assert '	h := crypto.SHA256.New()\n' in s
s=s.replace('	h := crypto.SHA256.New()\n','	h := getHash()\n	defer putHash(h)\n',1)
open('xmd.go','w').write(s)
