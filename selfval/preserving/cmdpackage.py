# a small command-line program is added to the module (new main package using fmt, os, flag and the library)
import os
os.makedirs('cmd/secpinfo',exist_ok=True)
open('cmd/secpinfo/main.go','w').write('''// Command secpinfo prints a few facts about the group.
package main

import (
	"encoding/hex"
	"flag"
	"fmt"
	"os"

	"github.com/bytemare/secp256k1"
)

func main() {
	msg := flag.String("msg", "", "message to hash to the group")
	dst := flag.String("dst", "secpinfo-v1-domain-separation", "domain separation tag")
	flag.Parse()

	fmt.Println("order:", hex.EncodeToString(secp256k1.Order()))
	fmt.Println("base :", secp256k1.Base().Hex())

	if *msg != "" {
		fmt.Println("hash :", secp256k1.HashToGroup([]byte(*msg), []byte(*dst)).Hex())
	}

	if len(flag.Args()) > 0 {
		fmt.Fprintln(os.Stderr, "unexpected arguments")
		os.Exit(2)
	}
}
''')
