# cosmetic edits of a generated file: the redundant conversions uint64(uint1(x)) and uint64(0x0) are dropped (uint1 is uint64 here)
import re
p='internal/field/secp256k1montgomery.go'
s=open(p).read()
s=re.sub(r'uint64\(uint1\((x\d+)\)\)', r'\1', s)
s=s.replace('uint64(0x0)', '0')
open(p,'w').write(s)
