# expect: none
s=open('element.go').read()
s=s.replace("	y3.Multiply(y3, t0) // Y3 := Y3 * t0\n","	e.x.Set(x3)\n	y3.Multiply(y3, t0) // Y3 := Y3 * t0\n")
s=s.replace("	e.x.Set(x3)\n	e.y.Set(y3)\n	e.z.Set(z3)\n\n	return e\n}\n\nfunc (e *Element) add(","	e.y.Set(y3)\n	e.z.Set(z3)\n\n	return e\n}\n\nfunc (e *Element) add(")
open('element.go','w').write(s)
