# expect: none
# Equal written with a local closure and a loop over the two coordinates
s=open('element.go').read()
s=s.replace('''	// x
	x1z2 := field.New().Multiply(&e.x, &u.z)
	x2z1 := field.New().Multiply(&u.x, &e.z)

	// y
	y1z2 := field.New().Multiply(&e.y, &u.z)
	y2z1 := field.New().Multiply(&u.y, &e.z)

	return int(x1z2.Equals(x2z1) & y1z2.Equals(y2z1))''','''	cross := func(a, b *field.Element) uint64 {
		l := field.New().Multiply(a, &u.z)
		r := field.New().Multiply(b, &e.z)

		return l.Equals(r)
	}

	res := uint64(1)
	for _, c := range [][2]*field.Element{{&e.x, &u.x}, {&e.y, &u.y}} {
		res &= cross(c[0], c[1])
	}

	return int(res)''')
open('element.go','w').write(s)
