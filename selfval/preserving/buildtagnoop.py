# a build constraint that every supported toolchain satisfies is added to two files
for f in ['mapping.go','xmd.go']:
    s=open(f).read()
    i=s.index('package secp256k1')
    s=s[:i]+'//go:build go1.21\n\n'+s[i:]
    open(f,'w').write(s)
