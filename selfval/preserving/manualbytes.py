# expect: none
# big-endian (de)serialisation of the field written with explicit shifts instead of encoding/binary
s=open('internal/field/reduce.go').read()
s=s.replace('''	out[3] = binary.BigEndian.Uint64(input[0:8])
	out[2] = binary.BigEndian.Uint64(input[8:16])
	out[1] = binary.BigEndian.Uint64(input[16:24])
	out[0] = binary.BigEndian.Uint64(input[24:32])''','''	for limb := 0; limb < 4; limb++ {
		var w uint64
		for k := 0; k < 8; k++ {
			w = w<<8 | uint64(input[8*(3-limb)+k])
		}
		out[limb] = w
	}''')
s=s.replace('''	binary.BigEndian.PutUint64(out[0:8], nm[3])
	binary.BigEndian.PutUint64(out[8:16], nm[2])
	binary.BigEndian.PutUint64(out[16:24], nm[1])
	binary.BigEndian.PutUint64(out[24:32], nm[0])''','''	for limb := 0; limb < 4; limb++ {
		for k := 0; k < 8; k++ {
			out[8*(3-limb)+k] = byte(nm[limb] >> (8 * (7 - k)))
		}
	}''')
s=s.replace('import (\n	"encoding/binary"\n)\n','')
open('internal/field/reduce.go','w').write(s)
