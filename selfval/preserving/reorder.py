# expect: none
# behaviour-preserving: swap commutative operands, reorder independent statements, inline Add
s=open('element.go').read()
s=s.replace("	t0 := field.New().Multiply(&u.x, &v.x) // t0 := X1 * X2\n	t1 := field.New().Multiply(&u.y, &v.y) // t1 := Y1 * Y2\n","	t1 := field.New().Multiply(&v.y, &u.y) // t1 := Y1 * Y2\n	t0 := field.New().Multiply(&v.x, &u.x) // t0 := X1 * X2\n")
s=s.replace("func (e *Element) Add(element *Element) *Element {\n	return e.add(element)","func (e *Element) Add(element *Element) *Element {\n	if element == nil {\n		return e\n	}\n	tmp := newEmptyElement()\n	tmp.addProjectiveComplete(e, element)\n	return e.set(tmp)")
open('element.go','w').write(s)
