# expect: none
# renames of unexported helpers of the root package and of exported-but-internal helpers of internal/scalar and internal/field
import re,glob
ren={'IsFEZero':'IsZeroFE','ReduceBytes':'SetReducedBytes','BytesToNonMontgomery':'LoadBE','NonMontgomeryToBytes':'StoreBE',
'FromBytesNoReduce':'SetBytesUnreduced','multiply':'ladderMul','affine':'normalise','newEmptyElement':'blankElement','newElement':'freshIdentity',
'vetDSTXMD':'dstPrimeXMD','hashAll':'digestOf','xorSlices':'strxor','expandXMD':'expandMessageXMD','checkDST':'requireDST','i2osp1':'i2ospByte','i2osp2':'i2ospWord',
'addProjectiveComplete':'rcbAdd','doubleProjectiveComplete':'rcbDouble','IsNonZero':'NonZeroMask','IsEqual':'EqualMask','bytesToInts':'loadLimbs','nonMontgomeryToBytes':'storeLimbs','bytesToNonMontgomery':'loadBE'}
for f in glob.glob('**/*.go', recursive=True):
    if f.endswith('_test.go'): continue
    s=open(f).read(); s2=s
    for a,b in ren.items():
        s2=re.sub(r'\b'+a+r'\b', b, s2)
    if s2!=s: open(f,'w').write(s2)
