# the go directive is raised to the toolchain in use (no source change)
import re,subprocess
s=open('go.mod').read()
v=subprocess.run(['go','env','GOVERSION'],capture_output=True,text=True).stdout.strip().replace('go','')
s=re.sub(r'(?m)^go \S+$', 'go '+v, s)
open('go.mod','w').write(s)
