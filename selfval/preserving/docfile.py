# a doc.go with the package comment, an example test file and a go:generate line are added
open('doc.go','w').write('''// Package secp256k1 implements the prime-order group of the secp256k1 curve: complete projective arithmetic,
// SEC1 encodings and RFC 9380 hash-to-curve.
//
//go:generate echo nothing to generate
package secp256k1
''')
open('example_group_test.go','w').write('''package secp256k1_test

import (
	"fmt"

	"github.com/bytemare/secp256k1"
)

func ExampleBase() {
	fmt.Println(len(secp256k1.Base().Encode()))
	// Output: 33
}
''')
s=open('group.go').read()
s=s.replace('// Package secp256k1','// Package secp256k1 (see doc.go)',1)
open('group.go','w').write(s)
