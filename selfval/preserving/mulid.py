# expect: none
# behaviour-preserving for C01: identity receiver shortcut
s=open('element.go').read()
s=s.replace("func (e *Element) multiply(s *Scalar) *Element {\n","func (e *Element) multiply(s *Scalar) *Element {\n	if e.IsIdentity() {\n		return e\n	}\n\n")
open('element.go','w').write(s)
