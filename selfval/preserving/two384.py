# expect: none
# only matters when c != 0: never (c = 0). behaviour-preserving!
s=open('internal/scalar/scalar.go').read()
s=s.replace("		4330881270917637700,\n	}","		4330881270917637701,\n	}")
open('internal/scalar/scalar.go','w').write(s)
