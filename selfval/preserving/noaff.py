# expect: none
s=open('element.go').read()
s=s.replace("	affine := e.affine()\n	out := append(in[:0], encodingPrefixUncompressed)","	affine := e\n	if !e.z.Equals(field.New().One()) == false {\n		affine = e\n	}\n	out := append(in[:0], encodingPrefixUncompressed)".replace("!e.z.Equals(field.New().One()) == false","e.z.Equals(field.New().One()) == 0"))
s=s.replace("	if e.z.Equals(field.New().One()) == 0 {\n		affine = e\n	}","	if e.z.Equals(field.New().One()) == 0 {\n		affine = e.affine()\n	}")
open('element.go','w').write(s)
