# element.go is split: the encoding/decoding methods move to a new file element_encoding.go (no code change)
import re
src=open('element.go').read()
i=src.index('// Encode returns the compressed byte encoding of the element.')
head, tail = src[:i], src[i:]
imports=src[src.index('import ('):src.index(')', src.index('import ('))+1]
lic=src[:src.index('package secp256k1')]
open('element.go','w').write(head)
open('element_encoding.go','w').write(lic+'package secp256k1\n\n'+imports+'\n\n'+tail)
import subprocess
# drop unused imports from both files with goimports-like trial: try building and removing unused ones
for f in ['element.go','element_encoding.go']:
    for _ in range(6):
        p=subprocess.run('go build ./... 2>&1',shell=True,capture_output=True,text=True)
        m=re.findall(r'%s:\d+:\d+: "([^"]+)" imported and not used'%re.escape(f), p.stdout)
        if not m: break
        s=open(f).read()
        for imp in m:
            s=re.sub(r'\n\t"%s"'%re.escape(imp), '', s, count=1)
        open(f,'w').write(s)
