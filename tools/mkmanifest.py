#!/usr/bin/env python3
"""Regenerates /verif/MANIFEST.json from the table below (single source of truth)."""
import json, os, subprocess
HERE = os.path.dirname(os.path.dirname(os.path.abspath(__file__)))
TB = "Go semantics as modelled by svcheck; go/types + go/ssa (x/tools v0.29.0); Fiat-Crypto leaf specifications; stdlib contracts; the mathematics cited in DESIGN.md 1.5"
PM = "Proof modulo the trusted base: Fiat-Crypto leaf specifications (ring operations of F_m on Montgomery representatives), stdlib contracts, go/ssa, and the cited mathematics (DESIGN.md 1.5)."
claims = {
 "C17": dict(level="proof", engine="E6 imports", technique="static analysis: import-closure / registry-linkage rule over go/packages + init-function SSA",
    text="Every (crypto.Hash).New(<const id>) reachable from the three hashing entry points must have a crypto.RegisterHash(<id>) call in an init function of a package inside the import closure of the package itself; decided on the import graph, which is the same for every importing program. Thorough repeats it over 7 GOOS/GOARCH/tag configurations.",
    note="Trusted: go/packages import graph equals what the linker links; stdlib registry contract.", ref="3 C17, 2 E6"),
}
claims.update({
 "C15": dict(level="proof", engine="E2 effects", technique="static analysis: interprocedural may-write / may-alias / freshness summaries over go/ssa (module fixpoint), with positive and negative control packages",
    text="For each of the 60 exported functions and methods: no write reaches memory reachable from a non-receiver parameter (append counts as a write into its first operand's backing array unless the operand is fresh or capacity-capped by a 3-index slice), and every returned []byte is freshly allocated on every path. The summaries are symbolic in all argument values, lengths and capacities, so the verdict covers every slice layout.",
    note="Trusted: go/ssa; effect models of the ~40 stdlib callees in svcheck/effects/calls.go; any callee without a model fails the check. Two named in/out exceptions over internal types (IsogenySecp256k13iso, Secp256Polynomial).", ref="3 C15, 2 E2"),
 "C16": dict(level="proof", engine="E2 effects", technique="static analysis: frame (write-set) argument for race freedom from E2 summaries + reachable-external-package rule for determinism",
    text="Race freedom on shared read-only arguments and distinct receivers follows from write sets: no exported function writes package-level state, hands out or retains pointers into it, or writes through a non-receiver parameter; no unsafe/cgo/assembly/goroutines; the hash object is per call. Determinism: no time/rand/os/runtime/sync package is reachable except crypto/rand from Scalar.Random. Holds for all schedules because it is a property of the write sets, not of an execution.",
    note="Trusted: Go memory model (no write to shared data => no race); crypto/rand.Reader and the crypto registry are concurrency-safe; stdlib effect models.", ref="3 C16, 2 E2"),
 "C10": dict(level="other", engine="E2 effects", technique="static analysis: frame + independence + closure rules from E2 summaries and a go/types shape walk (structural necessary conditions only)",
    text="Decides the structural necessary conditions of the history property for every exported operation: writes only to the receiver and fresh memory, pointer results are the receiver or fresh (constructors and Copy: fresh), value-only Element/Scalar/field.Element types, package-level state read-only after init. Breaking any of these breaks some history. The behaviour of histories themselves is the per-operation functional correctness (C01-C09, C13, C14) plus a prose induction, which is not mechanised here.",
    note="Not decided here: per-operation functional correctness and the induction over histories. Trusted: go/ssa, go/types, stdlib effect models.", ref="3 C10"),
 "C19": dict(level="proof", engine="E5 trace on E1", technique="static analysis: secret-taint + arm-trace equality on an exact-heap abstract interpretation of Multiply (ladder unrolled by constant propagation)",
    text="Element.Multiply is interpreted abstractly with the scalar secret and the point public-unknown. Every branch whose condition depends on the scalar (256 ladder branches + the documented IsOne shortcut) is found by the analysis itself; both arms are run to the post-dominator and must enter the same sequence of internal/field and internal/scalar functions, nested calls included; secret-dependent indices, loop exits and external calls are violations; generated primitives must be single-block. The verdict covers all scalars because the scalar is a symbol of the analysis.",
    note="Granularity is function entry in the two internal packages, as the property states; micro-architectural timing is out of scope. Trusted: go/ssa.", ref="3 C19, 2 E5"),
 "C01": dict(level="proof", engine="E1 absint (D-group)", technique="static analysis: abstract interpretation of Multiply over formal group sums with bit-atom coefficients; ladder branches joined; group operations found by their polynomial summaries",
    text="The real Multiply code is interpreted with P and k symbolic. Group arithmetic functions are recognised by what they compute (RCB polynomials, as in C02) and applied to formal sums; the 256 ladder branches are joined, and the final receiver must be exactly [sum 2^i BIT(Canon k, i)]P; the k=1 shortcut, the nil scalar and the bit expansion are separate obligations. Symbolic in every scalar and point, so bit 255, k=n-1, k=0 and P=identity are all covered.",
    note=PM, ref="3 C01"),
 "C02": dict(level="proof", engine="E1 absint (D-poly)", technique="static analysis: polynomial constant propagation through the real formula code vs the Renes-Costello-Batina polynomials, under each aliasing",
    text="Add/Subtract/Double are interpreted down to the Fiat primitives with symbolic projective coordinates; the receiver must equal the RCB complete addition/doubling polynomials up to a non-zero constant (or projectively modulo the curve equation), for distinct and aliased arguments; arguments unchanged, nil arguments no-ops, Negate correct on both arms of its guard, identity/base representations valid. A polynomial identity speaks for every operand pair and every projective scaling.",
    note=PM+" Completeness of the formulas on all pairs of curve points is RCB's theorem.", ref="3 C02"),
 "C05": dict(level="proof", engine="E1 absint (D-poly + D-int)", technique="static analysis: symbolic evaluation of Equal/IsIdentity to predicate normal form; limb-wise folds must normalise to whole-value equalities",
    text="Equal must evaluate to exactly [X1Z2=X2Z1] AND [Y1Z2=Y2Z1] and IsIdentity to [Z=0]; the field-level Equals/IsZero must be whole-4-limb tests (analysed through the xor/or/non-zero bit idiom). Symmetry and scaling invariance follow from the normal form.",
    note=PM, ref="3 C05"),
 "C14": dict(level="proof", engine="E1 absint (D-int)", technique="static analysis: bit-level symbolic evaluation of Bits with the loop unrolled by constant propagation",
    text="Every one of the 256 returned entries must equal BIT(Canon(k), i) for symbolic k; the written index set is computed by the analysis.",
    note=PM, ref="3 C14"),
 "C07": dict(level="proof", engine="E1 absint (ENUM + D-int)", technique="static analysis: path enumeration with guard-set evaluation over a symbolic byte string of symbolic length; borrow chain summarised as LT(OS2IP(in), n)",
    text="Every path of Decode/UnmarshalBinary/DecodeHex is enumerated on a symbolic input; success must imply len=32 and OS2IP(in)<n with the receiver equal to the encoded integer, every other path must return one of three distinct errors and exclude a canonical encoding; no path can panic. Encode/MarshalBinary/Hex must be BE32(Canon(s)). The input is symbolic, so the window around n, single-limb differences and 2^256-1 are all covered by the one LT atom built from the code's own constant.",
    note=PM, ref="3 C07"),
 "C13": dict(level="proof", engine="E1 absint (D-int + selector range)", technique="static analysis: symbolic evaluation with representation-tagged limbs (Canon vs MontRep), borrow-chain summarisation, 0/1 range obligation at every constant-time selector",
    text="LessOrEqual must evaluate to LT(Canon s, Canon t) OR [s=t]; there is deliberately no rewrite from an ordering of Montgomery representatives. CSelect with a symbolic 64-bit condition: the word reaching Fiat's Selectznz must be provably 0/1 and the receiver ite(cond!=0, v, u), including receiver-aliased operands; nil operands error out and write nothing. Equal/IsZero/IsOne are whole-value equalities.",
    note=PM, ref="3 C13"),
 "C18": dict(level="proof", engine="E1 absint (ENUM with bounded unrolling + induction)", technique="static analysis: path enumeration of Random with symbolic entropy blocks and read errors, loop unrolled 3 times, induction justified by state independence observed on the paths",
    text="On every enumerated path: exit in iteration k assumes blocks 1..k-1 are 0 mod n and block k is not, and stores Montgomery(Bk mod n); a failed read panics with nothing stored; reads are 32 bytes from crypto/rand.Reader; Fiat's <n precondition is proven from the guard-refined interval (2^256<2n).",
    note=PM+" The step from 3 unrolled iterations to all iterations is an induction stated in the evidence (the stored value mentions only the current block).", ref="3 C18"),
 "C03": dict(level="proof", engine="E1 absint (ENUM + D-int + D-poly)", technique="static analysis: path enumeration of all six decoders on symbolic inputs; guard literals (length, prefix, X<p, Y<p, squareness, curve equation) evaluated per path against the SEC1 acceptance table",
    text="Every path of Decode, DecodeCompressed, DecodeUncompressed, DecodeCoordinates, DecodeHex and UnmarshalBinary is enumerated with a symbolic input and an arbitrary prior receiver. An accepting path must make all literals of one allowed form true (no missing check) and set the receiver to exactly the encoded point (root parity = prefix bit); a rejecting path must falsify every allowed form (no over-rejection) and leave the receiver unchanged; no path may panic. The range checks are recognised as the borrow of the 4-limb subtraction against the code's own limbs of p, so a wrong limb or a dropped check changes a literal.",
    note=PM+" RFC 9380 sqrt_ratio is the oracle for 'x^3+7 is a square'.", ref="3 C03"),
 "C04": dict(level="proof", engine="E1 absint (D-poly + D-int + constant-folded Decode)", technique="static analysis: symbolic byte-layout of the encoders on (X:Y:Z) vs the SEC1 normal form; scaling lemma on the normal form; identity outputs constant-folded through Decode",
    text="Encode/MarshalBinary/Hex/XCoordinate/EncodeUncompressed are interpreted on a symbolic projective point: bytes and length must be the SEC1 layout of the affine normal form (x·inv0 z, ite(z=0,1,y·inv0 z)), for every (X:Y:Z); the normal form is proven invariant under non-zero scaling; each encoder's constant output for the identity is fed through the Decode analysis and must be accepted as the identity. Non-identity round trips then follow from C03's success state and the prefix/parity polarity checked here.",
    note=PM, ref="3 C04"),
 "C06": dict(level="other", engine="E1 absint (D-poly over F_n + math/big model)", technique="static analysis: symbolic evaluation of every scalar operation (all aliasings, nil conventions), exponent of the inversion chain from its own code, math/big calls of Pow followed on integer terms",
    text="Decides the hand-written scalar layer: each operation's receiver is the exact F_n expression (s+t, s-t, s·t, s^2, s^(n-2), i mod n, 0, 1, -1) under every aliasing and nil convention; the 293-step inversion chain's exponent is n-2; Pow's three guard classes and its math/big data flow (modulus n from Order(), Exp(base s, exponent t, modulus n), left-padding to BE32, decode) give s^t mod n; all Fiat preconditions (< n) are proven. Level 'other' because the word-level carry chains inside the generated primitives are assumed, not decided.",
    note="Not decided: Fiat-generated word-level arithmetic (trusted leaf specifications); math/big contracts.", ref="3 C06"),
 "C11": dict(level="proof", engine="E1 absint (D-poly with predicate variables + power summaries)", technique="static analysis: guarded-polynomial evaluation of SSWU, sqrt_ratio and the 3-isogeny on symbolic inputs vs the RFC 9380 straight-line programs evaluated in the same algebra",
    text="SSWU(u), field.SqrtRatio(u,v) and IsogenySecp256k13iso(x',y') are interpreted on symbolic field elements; the results must equal, as polynomials with predicate variables and power atoms (x^((p-3)/4), inv0), the RFC 9380 F.2 / F.2.1.2 / E.1 programs with Z=-11, A', B', c2^2=-Z and the 13 isogeny constants, including the three exceptional u and the sign rule; one path, no panic, all preconditions proven. Covers all p field elements because u is a symbol.",
    note=PM+" RFC 9380 is the oracle; that its output is on the curve is the RFC's theorem.", ref="3 C11"),
 "C12": dict(level="other", engine="E1 absint", technique="static analysis: symbolic evaluation of the hand-written field layer (wrappers under all aliasings, chain exponents, sqrt_ratio, predicates, cmov, reduce/parse/serialise/wide reduction) with Fiat primitives as trusted leaves",
    text="Decides everything in internal/field that is not Fiat-generated: wrapper pass-through under every aliasing, chain exponents p-2 and (p-3)/4 from the chains' own code, SqrtRatio = RFC F.2.1.2, Sgn0/IsZero/Equals/CMove semantics (bit idioms analysed, not assumed), Reduce with the code's limbs of p, parser flag, serialiser layout, 48-byte wide reduction, and the < p typestate at every primitive call. Level 'other': the word-level carry chains of the generated primitives are not decided.",
    note="Not decided: Fiat-generated word-level arithmetic (trusted leaf specifications).", ref="3 C12"),
 "C08": dict(level="other", engine="E1 absint (D-bytes + D-int + group-level composition)", technique="static analysis: byte-string term evaluation of expand_message_xmd with an abstract hash object, wide reduction as a linear form over byte atoms, group-level data-flow of the suite composition",
    text="HashToGroup/EncodeToGroup are interpreted with symbolic msg and DST of symbolic length. For each DST length class found by path enumeration (empty: panic before hashing; 1..255; >255: oversize rule) the uniform bytes must be the RFC 9380 5.3.1 term over H = SHA-256 as an uninterpreted function; the field elements given to the map must be OS2IP(48-byte block) mod p; the result must be I(S(u0)) + I(S(u1)) summed by a complete addition (RO) resp. I(S(u0)) (NU), where S and I are the SSWU and isogeny functions decided by C11 (re-run). Level 'other': SHA-256 and the Fiat word arithmetic are trusted, not decided.",
    note="Not decided: crypto/sha256, Fiat word-level arithmetic. RFC 9380 is the oracle.", ref="3 C08"),
 "C09": dict(level="other", engine="E1 absint (D-bytes + D-int)", technique="static analysis: byte-string term evaluation of expand_message_xmd with an abstract hash object; wide reduction compared as a linear form over the 48 byte atoms",
    text="HashToScalar with symbolic msg/DST: per DST length class the 48 expander bytes must equal the RFC 9380 5.3.1 term and the scalar must be OS2IP(those bytes) mod n (a + b·2^192 with the code's Montgomery constants, compared at byte granularity); empty DST panics before hashing. Level 'other': SHA-256 and Fiat word arithmetic trusted.",
    note="Not decided: crypto/sha256, Fiat word-level arithmetic.", ref="3 C09"),
})
EXTRA = " Also checked as part of this property's argument (static, structural): the Fiat-generated primitives reachable from its entry points are intact (E8: sibling data-flow cross-check of the two generated files, final conditional subtraction of each primitive, equal consecutive reduction rounds; E9: each of Mul, Square, ToMontgomery, FromMontgomery, Add, Sub, Opp satisfies its specification congruence as a polynomial identity over the input limbs - words as exact integer polynomials with fresh atoms for discarded high words, carries and borrows, every discarded low word proven 0 mod 2^64 - and SetOne, Nonzero are checked exactly; ranges are Fiat's proof obligations), the value types carry no state beyond the value fields the analysis ranges over, and every package-level variable referenced from its entry points is neither written outside init nor handed out by reference."
for k in ["C01", "C02", "C03", "C04", "C05", "C06", "C07", "C08", "C09", "C11", "C13", "C14", "C18"]:
    claims[k]["text"] += EXTRA
claims["C19"]["text"] += " C13's whole-value obligations for Equal/IsZero/IsOne are inherited (the IsOne exemption rests on them); an operand selected by a secret index among at most 16 table entries, or by a secret condition between two pointers, is followed for every alternative and the calls through it must have equal traces."
claims["C16"]["text"] += " No function may return memory of an object it hands back to a sync.Pool (use after Put). As soon as the module keeps a sync.Pool, C08's and C09's obligations (results are a function of the inputs whatever a recycled object holds; no path, panicking ones included, puts a nil pointer into a pool) are inherited. A value loaded from a package-level variable carries that variable's label (so a view of package state handed to a caller is seen even when the state was built by an initialiser)."
claims["C17"]["text"] += " The rule is repeated under every custom build tag the module's own files mention (GOEXPERIMENT for goexperiment.* and boringcrypto), and under one configuration per operating system / architecture named in a build constraint or file-name suffix plus one that none names; one-shot digest functions of an imported hash package count as direct uses. Inherited from C08/C09: no path of the hashing functions, the documented empty-DST panic included, leaves a shared pool in a state that makes a later call fail."
claims["C18"]["text"] += " The induction over draws is checked, not assumed (C18.induction): before every entropy read the complete abstract state (registers of every frame, every reachable object, canonically numbered) is rendered; on the all-rejected path the state before draw k+1 must equal the state before draw k with block indices shifted by one, so an attempt counter, an accumulator or a stale buffer is reported."
claims["C15"]["text"] += " Exempt by the append contract only: a function named Append... whose only writes to its slice parameter are appends behind its length and whose result is that extended slice. A fresh object whose address the function also stores into memory reachable from a parameter (a memo kept in the receiver) or into package-level state is not a fresh result."
claims["C06"]["text"] += " Pow may also be a native fixed-window exponentiation over the Fiat arithmetic: its table look-ups, squarings and multiplications are followed as formal powers s^T with a term T as exponent, and T must equal the canonical integer of t in the basis of the exponent's digit tests."
claims["C01"]["text"] += " A fixed-window multiplication (table of multiples, constant-time look-up per window) is followed as well: look-ups as sums weighted by mutually exclusive digit tests, the coefficient compared with the scalar's bits in the digit basis."
claims["C05"]["text"] += " The .state obligation also covers the constructors that define the identity (NewElement, Identity)."
pending = {}
ids = ["C%02d" % i for i in range(1, 20)]
checks = []
for i in ids:
    if i in claims:
        c = claims[i]
        checks.append({
            "property_id": i,
            "quick_cmd": "./run.sh %s quick" % i,
            "thorough_cmd": "./run.sh %s thorough" % i,
            "evidence_file": "evidence/%s.json" % i,
            "replay_cmd_template": "./run.sh %s quick   # {path} names the obligation; the check re-analyses the current tree" % i,
            "engine": c["engine"],
            "level_claimed": {"category": c["level"], "text": c["text"], "design_ref": "DESIGN.md section " + c["ref"]},
            "level_note": c["note"],
            "technique": c["technique"],
        })
na = [{"property_id": i, "reason": pending.get(i, "check not built yet (work in progress; see DESIGN.md section 7 build order) - no verdict is claimed")} for i in ids if i not in claims]
head = subprocess.run(["git", "-C", "/repo", "log", "--format=%h %s", "--grep=^fix:", "--grep=^verif", "-n", "50"], capture_output=True, text=True).stdout.strip().splitlines()
m = {
 "version": 1,
 "setup_cmd": "cd svcheck && GOFLAGS=-mod=mod GOPROXY=off GOSUMDB=off GOTOOLCHAIN=local GOWORK=off go build -o ../bin/svcheck .",
 "hooks": {"guard": "verif", "enable": "no source hooks are used: the checks analyse /repo's source as it is (go/packages + go/ssa); the tag name is reserved only",
           "baseline_off_cmd": "cd /repo && go test -vet=off -count=1 ./...", "source_commits": [], "add_only": True},
 "engines": [
   {"name": "svcheck", "path": "svcheck", "serves_properties": sorted(claims), "kind_free_text": "custom Go static analyser over go/packages + go/ssa (x/tools v0.29.0): import-closure rule, effect/may-write summaries, known-bits, taint/trace equality, and an SSA abstract interpreter with algebraic constant-propagation domains"},
 ],
 "checks": checks,
 "not_applicable": na,
 "notes": "All checks are static: they load and type-check /repo's current working tree on every run and never execute the library. fix: commits in /repo: " + "; ".join(h for h in head if " fix:" in h),
}
json.dump(m, open(os.path.join(HERE, "MANIFEST.json"), "w"), indent=1)
print("claims:", len(checks), "not_applicable:", len(na))
