#!/usr/bin/env python3
"""tools/preseval.py <dir> <k> : evaluate a behaviour-preserving change produced by a sub-agent (/tmp/wt3-out/<dir>/change<k>.diff):
it must build, vet and pass the suite; every check must stay silent.  Prints the alarms (candidate false alarms)."""
import os, re, shutil, subprocess, sys, tempfile
D, k = sys.argv[1], sys.argv[2]
patch = os.environ.get("PRES_BASE", "/tmp/wt4-out") + f"/{D}/change{k}.diff"
env = dict(os.environ, GOFLAGS="-mod=mod", GOPROXY="off", GOSUMDB="off", GOTOOLCHAIN="local", GOWORK="off")
def run(cmd, cwd, timeout=900):
    p = subprocess.run(cmd, cwd=cwd, shell=True, env=env, capture_output=True, text=True, timeout=timeout)
    return p.returncode, p.stdout + p.stderr
d = tempfile.mkdtemp(prefix="preseval.", dir="/tmp")
try:
    run("cp -r /repo/. . && rm -rf .git", d)
    rc, o = run(f"git init -q . && git apply {patch} && rm -rf .git", d)
    if rc != 0:
        print(f"{D}-{k}: PATCH FAILED {o[-200:]}"); sys.exit(2)
    rc_b, ob = run("go build ./... && go vet ./...", d)
    rc_t, ot = run("go test -count=1 ./...", d)
    alarms = {}
    vd = tempfile.mkdtemp(prefix="preseval.verif.", dir="/tmp")
    for i in range(1, 20):
        pid = "C%02d" % i
        rc, o = run(f"/verif/bin/svcheck -prop {pid} -repo {d} -verif {vd} -controls /verif/controls -q", "/verif")
        if rc != 0:
            alarms[pid] = [re.sub(re.escape(d) + "/?", "", l)[:260] for l in o.splitlines() if " FAIL " in l or " UNDC " in l][:2]
    shutil.rmtree(vd, ignore_errors=True)
    print(f"{D}-{k}: build={rc_b} suite={rc_t} alarms={sorted(alarms)}")
    for p, ls in alarms.items():
        for l in ls: print("    ", l)
finally:
    shutil.rmtree(d, ignore_errors=True)
