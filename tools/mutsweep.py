#!/usr/bin/env python3
"""tools/mutsweep.py [--jobs N] [--out FILE] [--files f1,f2,...] [--limit K] : systematic mutation sweep.
Generates single-token mutants of the hand-written (non-generated, non-test) Go sources of /repo - relational and
arithmetic operator swaps, constant tweaks, swapped call operands, deleted call statements, negated conditions -
applies each to a scratch copy under /tmp (removed afterwards), keeps those that still build, vet and pass the unedited
suite (the survivors: exactly the changes the tests cannot see), and runs all 19 checks on every survivor.
Writes one JSON line per mutant; a survivor that no check reports is either an equivalent mutant or a gap."""
import json, os, re, shutil, subprocess, sys, tempfile, concurrent.futures as cf
HERE = os.path.dirname(os.path.dirname(os.path.abspath(__file__)))
REPO = os.environ.get("REPO", "/repo")
args = sys.argv[1:]
jobs = int(args[args.index("--jobs") + 1]) if "--jobs" in args else 14
outf = args[args.index("--out") + 1] if "--out" in args else "/tmp/mutsweep.jsonl"
limit = int(args[args.index("--limit") + 1]) if "--limit" in args else 0
files = ["element.go", "scalar.go", "group.go", "xmd.go", "mapping.go", "internal/field/element.go", "internal/field/reduce.go",
         "internal/scalar/scalar.go"]
if "--files" in args:
    files = args[args.index("--files") + 1].split(",")
env = dict(os.environ, GOFLAGS="-mod=mod", GOPROXY="off", GOSUMDB="off", GOTOOLCHAIN="local", GOWORK="off")

def run(cmd, cwd, timeout=600):
    try:
        p = subprocess.run(cmd, cwd=cwd, shell=True, env=env, capture_output=True, text=True, timeout=timeout)
        return p.returncode, p.stdout + p.stderr
    except subprocess.TimeoutExpired:
        return 124, "timeout"

OPS = [("==", "!="), ("!=", "=="), ("<=", "<"), (">=", ">"), (" < ", " <= "), (" > ", " >= "), ("&&", "||"), ("||", "&&"),
       (" + ", " - "), (" - ", " + "), (" & ", " | "), (" | ", " & "), (" ^ ", " & "), ("<<", ">>"), (">>", "<<"), (" * ", " + ")]

SIBLINGS = [("Add", "Subtract"), ("Subtract", "Add"), ("Multiply", "Add"), ("Square", "Set"), ("Negate", "Set"), ("Double", "Set"),
            ("Sub", "Add"), ("Mul", "Add"), ("IsZero", "Sgn0"), ("Equals", "Sgn0x"), ("One", "Zero"), ("Zero", "One"), ("Encode", "EncodeUncompressed"),
            ("DecodeCompressed", "DecodeUncompressed"), ("Identity", "Base"), ("IsOne", "IsZero"), ("IsZero", "IsOne"), ("ToMontgomery", "FromMontgomery"),
            ("FromMontgomery", "ToMontgomery"), ("FromBytesWithReduce", "FromBytesNoReduce2"), ("copy", "set"), ("set", "copy")]
ONLY_NEW = "--new-ops" in sys.argv

def mutants_of(path, text):
    out = []
    lines = text.split("\n")
    in_block_comment = False
    for ln, line in enumerate(lines):
        s = line.strip()
        if in_block_comment:
            if "*/" in s: in_block_comment = False
            continue
        if s.startswith("/*"):
            if "*/" not in s: in_block_comment = True
            continue
        if not s or s.startswith("//") or s.startswith("import") or s.startswith("package") or s.startswith('"'):
            continue
        code = line.split("//")[0] if '"' not in line else line
        # operator swaps
        for a, b in OPS:
            start = 0
            while True:
                i = code.find(a, start)
                if i < 0: break
                out.append((ln, f"{a.strip()}->{b.strip()}@{i}", line[:i] + b + line[i + len(a):]))
                start = i + len(a)
        # integer constants
        for m in re.finditer(r"(?<![\w.\"])(\d+)(?![\w.\"x])", code):
            v = int(m.group(1))
            for nv in ([1] if v == 0 else [0] if v == 1 else [v - 1, v + 1]):
                out.append((ln, f"const {v}->{nv}@{m.start()}", line[:m.start()] + str(nv) + line[m.end():]))
        # swapped operands of a two-operand call:  f(a, b) -> f(b, a)
        for m in re.finditer(r"\(([^(),]+), ([^(),]+)\)", code):
            a, b = m.group(1), m.group(2)
            if a.strip() != b.strip():
                out.append((ln, f"swap args@{m.start()}", line[:m.start()] + "(" + b + ", " + a + ")" + line[m.end():]))
        # swapped last two operands of a three-operand call:  f(c, a, b) -> f(c, b, a)
        for m in re.finditer(r"\(([^(),]+), ([^(),]+), ([^(),]+)\)", code):
            a, b, c = m.group(1), m.group(2), m.group(3)
            if b.strip() != c.strip():
                out.append((ln, f"swap last args@{m.start()}", line[:m.start()] + "(" + a + ", " + c + ", " + b + ")" + line[m.end():]))
            if a.strip() != b.strip():
                out.append((ln, f"swap first args@{m.start()}", line[:m.start()] + "(" + b + ", " + a + ", " + c + ")" + line[m.end():]))
        # a call replaced by a sibling operation of the same signature
        for a, b in SIBLINGS:
            for m in re.finditer(r"\." + a + r"\(", code):
                out.append((ln, f"{a}->{b}@{m.start()}", line[:m.start()] + "." + b + "(" + line[m.end():]))
        # dropped negation
        for m in re.finditer(r"!(?=[A-Za-z(])", code):
            out.append((ln, f"drop !@{m.start()}", line[:m.start()] + line[m.end():]))
        # deleted call statement
        if re.match(r"^\s*[\w.\[\]&*]+\.[A-Za-z]\w*\(.*\)\s*$", code) and not s.startswith("return") and not s.startswith("defer") and not s.startswith("panic"):
            out.append((ln, "delete statement", re.match(r"^\s*", line).group(0) + "_ = 0"))
        # negated condition
        m = re.match(r"^(\s*if )(.+)( \{)\s*$", code)
        if m and ";" not in m.group(2):
            out.append((ln, "negate condition", m.group(1) + "!(" + m.group(2) + ")" + m.group(3)))
        # return constant flips
        m = re.match(r"^(\s*return )(true|false|0|1)\s*$", code)
        if m:
            flip = {"true": "false", "false": "true", "0": "1", "1": "0"}[m.group(2)]
            out.append((ln, "flip return", m.group(1) + flip))
    res = []
    for ln, what, newline in out:
        if newline == lines[ln]:
            continue
        if ONLY_NEW and not (what.startswith("swap last") or what.startswith("swap first") or what.startswith("drop !") or re.match(r"^[A-Za-z]\w*->[A-Za-z]", what)):
            continue
        res.append({"file": path, "line": ln + 1, "what": what, "old": lines[ln].strip()[:120], "new": newline.strip()[:120], "_newline": newline})
    return res

def evaluate(mu):
    d = tempfile.mkdtemp(prefix="mutsweep.", dir="/tmp")
    vd = tempfile.mkdtemp(prefix="mutsweep.verif.", dir="/tmp")
    rec = {k: v for k, v in mu.items() if not k.startswith("_")}
    try:
        run(f"cp -r {REPO}/. . && rm -rf .git", d)
        p = os.path.join(d, mu["file"])
        lines = open(p).read().split("\n")
        lines[mu["line"] - 1] = mu["_newline"]
        open(p, "w").write("\n".join(lines))
        rc, o = run("go build ./... && go vet ./...", d, timeout=180)
        if rc != 0:
            rec["status"] = "no-build"; return rec
        rc, o = run("go test -count=1 ./...", d, timeout=300)
        if rc != 0:
            rec["status"] = "killed-by-tests"; return rec
        rec["status"] = "survivor"
        det = []
        for i in range(1, 20):
            pid = "C%02d" % i
            rc, o = run(f"{HERE}/bin/svcheck -prop {pid} -repo {d} -verif {vd} -controls {HERE}/controls -q", HERE, timeout=600)
            if rc != 0:
                det.append(pid)
        rec["detected_by"] = det
        return rec
    finally:
        shutil.rmtree(d, ignore_errors=True); shutil.rmtree(vd, ignore_errors=True)

all_m = []
for f in files:
    all_m += mutants_of(f, open(os.path.join(REPO, f)).read())
if limit:
    import random
    random.Random(1).shuffle(all_m)
    all_m = all_m[:limit]
print(f"{len(all_m)} mutants", flush=True)
n = {"no-build": 0, "killed-by-tests": 0, "survivor": 0}
und = 0
with open(outf, "w") as fh, cf.ThreadPoolExecutor(max_workers=jobs) as ex:
    for rec in ex.map(evaluate, all_m):
        n[rec["status"]] += 1
        if rec["status"] == "survivor" and not rec["detected_by"]:
            und += 1
            print(f"UNDETECTED {rec['file']}:{rec['line']} {rec['what']}: {rec['old']}  =>  {rec['new']}", flush=True)
        fh.write(json.dumps(rec) + "\n"); fh.flush()
print(json.dumps(n), "undetected survivors:", und)
