#!/usr/bin/env python3
"""tools/seedeval.py <ID> <k> [--demo-dir REL] : verify a seeded change produced by a sub-agent and run every check on it.
Reads /tmp/wt-out/<ID>/change<k>.diff, demo<k>*; writes /verif/seeded/<ID>-<k>/{patch.diff,<demo>,meta.json}."""
import json, os, shutil, subprocess, sys, tempfile, glob, re
ID, k = sys.argv[1], sys.argv[2]
demo_dir = "."
if "--demo-dir" in sys.argv:
    demo_dir = sys.argv[sys.argv.index("--demo-dir") + 1]
src = f"/tmp/wt-out/{ID}"
if "--src" in sys.argv:
    src = sys.argv[sys.argv.index("--src") + 1]
out_name = f"{ID}-{k}"
if "--out" in sys.argv:
    out_name = sys.argv[sys.argv.index("--out") + 1]
env = dict(os.environ, GOFLAGS="-mod=mod", GOPROXY="off", GOSUMDB="off", GOTOOLCHAIN="local", GOWORK="off")
def run(cmd, cwd, timeout=900):
    p = subprocess.run(cmd, cwd=cwd, shell=True, env=env, capture_output=True, text=True, timeout=timeout)
    return p.returncode, (p.stdout + p.stderr)
base = None
if "--base" in sys.argv:
    base = sys.argv[sys.argv.index("--base") + 1] or None
d = tempfile.mkdtemp(prefix="seedeval.", dir="/tmp")
try:
    run("cp -r /repo/. . && rm -rf .git", d)
    if base:
        # the seed was written against an optimised baseline: /repo plus the base patch (an accepted behaviour-preserving
        # rewrite).  The clean-tree runs use that baseline; the stored patch.diff is the combined change relative to /repo.
        run("git init -q . && git add -A && git -c user.name=x -c user.email=x@x commit -qm pristine", d)
        rc, out = run(f"git apply {base}", d)
        if rc != 0:
            print("BASE PATCH FAILED", out); sys.exit(2)
    patch = f"{src}/change{k}.diff"
    demos = [f for f in glob.glob(f"{src}/demo{k}*") if not f.endswith(".md")]
    meta = {"property": ID, "index": int(k), "ran": []}
    # demo on the clean tree
    def place(clean=False):
        for f in demos:
            if clean and "_new_" in os.path.basename(f):
                continue   # a demo file that calls a function the change adds: only placed with the change
            dst = os.path.join(d, demo_dir, os.path.basename(f))
            os.makedirs(os.path.dirname(dst), exist_ok=True)
            if os.path.isdir(f):
                shutil.copytree(f, dst)
            else:
                shutil.copy(f, dst)
    def unplace():
        for f in demos:
            dst = os.path.join(d, demo_dir, os.path.basename(f))
            if os.path.isdir(dst): shutil.rmtree(dst)
            elif os.path.exists(dst): os.remove(dst)
    demo_cmd = f"go test -count=1 ./{demo_dir}" if demo_dir != "." else "go test -count=1 ."
    if os.environ.get("DEMO_CMD"):
        demo_cmd = os.environ["DEMO_CMD"]
    place(clean=True)
    rc_clean, out_clean = run(demo_cmd, d)
    unplace()
    meta["ran"].append({"cmd": demo_cmd + "   # demo on the clean tree", "exit": rc_clean})
    rc, out = run(f"git init -q . 2>/dev/null; git apply {patch}", d)
    if base and rc == 0:
        run(f"git add -N . ; git diff > {d}/../seedeval.combined.{os.getpid()}.diff", d)
    if rc != 0:
        rc, out = run(f"patch -p1 < {patch}", d)
    meta["ran"].append({"cmd": "git apply patch.diff", "exit": rc})
    if rc != 0:
        print("PATCH FAILED", out); sys.exit(2)
    rc_b, out_b = run("go build ./... && go vet ./...", d)
    rc_t, out_t = run("go test -count=1 ./...", d)
    meta["ran"].append({"cmd": "go build ./... && go vet ./...", "exit": rc_b})
    meta["ran"].append({"cmd": "go test -count=1 ./...   # existing suite with the change", "exit": rc_t})
    place()
    rc_demo, out_demo = run(demo_cmd, d)
    unplace()
    meta["ran"].append({"cmd": demo_cmd + "   # demo with the change", "exit": rc_demo})
    valid = rc_clean == 0 and rc_b == 0 and rc_t == 0 and rc_demo != 0
    meta["valid"] = valid
    # all checks
    detected = {}
    run("rm -rf .git", d)
    for i in range(1, 20):
        pid = "C%02d" % i
        rc, out = run(f"/verif/bin/svcheck -prop {pid} -repo {d} -verif /tmp/seedeval.verif.{os.getpid()} -controls /verif/controls -q", "/verif", timeout=600)
        if rc != 0:
            lines = [l for l in out.splitlines() if " FAIL " in l or " UNDC " in l]
            detected[pid] = [re.sub(re.escape(d) + "/?", "", l)[:300] for l in lines[:3]]
    shutil.rmtree(f"/tmp/seedeval.verif.{os.getpid()}", ignore_errors=True)
    meta["detected_by"] = sorted(detected)
    meta["reports"] = detected
    meta["target_detected"] = ID in detected
    notes = f"{src}/notes{k}.md"
    if os.path.exists(notes):
        meta["needs"] = open(notes).read()[:3000]
    out_dir = f"/verif/seeded/{out_name}"
    os.makedirs(out_dir, exist_ok=True)
    if base:
        shutil.copy(f"/tmp/seedeval.combined.{os.getpid()}.diff", f"{out_dir}/patch.diff")
        os.remove(f"/tmp/seedeval.combined.{os.getpid()}.diff")
        meta["baseline"] = "an accepted behaviour-preserving optimisation of /repo (" + os.path.basename(os.path.dirname(base)) + "/" + os.path.basename(base) + ", in selfval/preserving); patch.diff is the combined change relative to /repo"
    else:
        shutil.copy(patch, f"{out_dir}/patch.diff")
    for f in demos:
        if os.path.isdir(f):
            shutil.copytree(f, os.path.join(out_dir, os.path.basename(f)), dirs_exist_ok=True)
        else:
            # keep demos from being compiled as part of /verif: store with a .txt suffix
            shutil.copy(f, os.path.join(out_dir, os.path.basename(f) + ".txt"))
    json.dump(meta, open(f"{out_dir}/meta.json", "w"), indent=1)
    print(f"{ID}-{k}: valid={valid} (clean demo rc={rc_clean}, build rc={rc_b}, suite rc={rc_t}, demo-with-change rc={rc_demo}) target_detected={meta['target_detected']} detected_by={meta['detected_by']}")
    if not valid:
        print("  clean demo:", out_clean[-300:].replace("\n", " | "))
        print("  suite:", out_t[-300:].replace("\n", " | "))
finally:
    shutil.rmtree(d, ignore_errors=True)
