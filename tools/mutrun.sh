#!/bin/sh
# tools/mutrun.sh <python-edit-script-or-patch> <prop>...   : applies an edit to a scratch copy of /repo and runs checks on it
# edit file: either *.diff (git apply) or *.py (run with cwd = scratch copy)
set -u
edit="$1"; shift
d=$(mktemp -d /tmp/mut.XXXXXX)
cp -r /repo/. "$d"/ && rm -rf "$d/.git"
case "$edit" in
 *.diff|*.patch) (cd "$d" && git apply "$edit") || { echo "patch failed"; rm -rf "$d"; exit 3; } ;;
 *.py) (cd "$d" && python3 "$edit") || { echo "edit failed"; rm -rf "$d"; exit 3; } ;;
esac
(cd "$d" && go build ./... && go vet ./... >/dev/null 2>&1; go test -count=1 ./... >/tmp/mut.test.$$ 2>&1; echo "tests: $(grep -c '^ok' /tmp/mut.test.$$) ok, $(grep -c '^FAIL\|^---' /tmp/mut.test.$$) fail"; rm -f /tmp/mut.test.$$)
rc=0
for p in "$@"; do
  /verif/bin/svcheck -prop "$p" -repo "$d" -verif /tmp/mut.verif.$$ -controls /verif/controls -q 2>&1 | grep -E "FAIL|UNDC|VIOLATION|quick:" | sed "s#$d/##g" | cut -c1-400
done
rm -rf "$d" /tmp/mut.verif.$$
