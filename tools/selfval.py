#!/usr/bin/env python3
"""tools/selfval.py [--prop Cxx] [--jobs N] : self-validation of the checks, both ways.
Every entry of selfval/breaking is applied to a scratch copy of /repo (outside /repo and /verif, removed afterwards);
the copy must still build and vet, and every property named in its 'expect:' line must raise a violation, every
property in its 'silent:' line must stay silent.  Every entry of selfval/preserving (behaviour-preserving edits:
renaming, reordering, helper extraction, if/switch, shortcuts that keep the semantics) must build and leave ALL
requested checks silent.  Every entry of selfval/residual is a behaviour-preserving rewrite that the analysis is known not
to follow (DESIGN.md 8.7): the checks named in its 'residual:' line may fail closed, all others must stay silent.  Writes evidence/selfval-<prop|all>.json; exit 1 on any mismatch."""
import json, os, re, shutil, subprocess, sys, tempfile, glob, concurrent.futures as cf
HERE = os.path.dirname(os.path.dirname(os.path.abspath(__file__)))
prop = None
jobs = 8
args = sys.argv[1:]
if "--prop" in args: prop = args[args.index("--prop")+1]
if "--jobs" in args: jobs = int(args[args.index("--jobs")+1])
REPO = os.environ.get("REPO", "/repo")
env = dict(os.environ, GOFLAGS="-mod=mod", GOPROXY="off", GOSUMDB="off", GOTOOLCHAIN="local", GOWORK="off")
ALL = ["C%02d" % i for i in range(1, 20)]
def run(cmd, cwd, timeout=900):
    p = subprocess.run(cmd, cwd=cwd, shell=True, env=env, capture_output=True, text=True, timeout=timeout)
    return p.returncode, p.stdout + p.stderr
def header(path):
    exp, sil = [], []
    for l in open(path):
        if not l.startswith("#"): break
        m = re.match(r"#\s*expect:\s*(.*)", l)
        if m: exp = [] if m.group(1).strip() == "none" else m.group(1).split()
        m = re.match(r"#\s*silent:\s*(.*)", l)
        if m: sil = m.group(1).split()
        m = re.match(r"#\s*residual:\s*(.*)", l)
        if m: sil = m.group(1).split()   # for selfval/residual: the checks that are allowed to alarm
    return exp, sil
def entry(path, kind):
    if kind == "seeded":
        name = os.path.basename(os.path.dirname(path))
        meta = json.load(open(os.path.join(os.path.dirname(path), "meta.json")))
        exp, sil = [meta["property"]], []
        if meta.get("known_miss"):
            # a confirmed breaking change that no check reports (documented in DESIGN.md): kept for the record, nothing is expected of it
            exp = []
    else:
        name = os.path.splitext(os.path.basename(path))[0]
        exp, sil = header(path)
    if kind == "preserving":
        checks = [prop] if prop else ALL
        sil = checks
    elif kind == "residual":
        # behaviour-preserving rewrites the abstract domains cannot follow (documented limitations): the checks named in
        # the 'residual:' line fail closed (their alarm is recorded, not counted); every other check must stay silent
        tolerated = sil
        checks = [prop] if prop else ALL
        sil = [c for c in checks if c not in tolerated]
        exp = []
    else:
        checks = sorted(set(exp + sil))
        if prop:
            if prop not in checks: return None
            checks = [prop]
    d = tempfile.mkdtemp(prefix="selfval.", dir="/tmp")
    out = {"entry": kind + "/" + name, "expect": [c for c in exp if c in checks], "silent": [c for c in sil if c in checks], "results": {}, "ok": True}
    try:
        run(f"cp -r {REPO}/. . && rm -rf .git", d)
        if kind == "seeded" or path.endswith(".diff"):
            rc, o = run(f"git init -q . && git apply {path} && rm -rf .git", d)
        else:
            rc, o = run(f"python3 {path}", d)
        if rc != 0:
            out["ok"] = False; out["error"] = "edit failed: " + o[-200:]; return out
        rc, o = run("go build ./... && go vet ./...", d)
        if rc != 0:
            out["ok"] = False; out["error"] = "variant does not build/vet: " + o[-300:]; return out
        rc_t, _ = run("go test -count=1 ./...", d)
        out["suite_passes"] = rc_t == 0
        vd = tempfile.mkdtemp(prefix="selfval.verif.", dir="/tmp")
        for c in checks:
            rc, o = run(f"{HERE}/bin/svcheck -prop {c} -repo {d} -verif {vd} -controls {HERE}/controls -q", HERE, timeout=900)
            fired = rc != 0
            out["results"][c] = "alarm" if fired else "silent"
            if c in out["expect"] and not fired:
                out["ok"] = False
            if c in out["silent"] and fired:
                out["ok"] = False
                out.setdefault("false_alarms", {})[c] = [l[:240] for l in o.splitlines() if " FAIL " in l or " UNDC " in l][:2]
        shutil.rmtree(vd, ignore_errors=True)
        return out
    finally:
        shutil.rmtree(d, ignore_errors=True)
work = [(p, "breaking") for p in sorted(glob.glob(f"{HERE}/selfval/breaking/*.py") + glob.glob(f"{HERE}/selfval/breaking/*.diff"))] + [(p, "preserving") for p in sorted(glob.glob(f"{HERE}/selfval/preserving/*.py") + glob.glob(f"{HERE}/selfval/preserving/*.diff"))] + [(p, "seeded") for p in sorted(glob.glob(f"{HERE}/seeded/*/patch.diff"))] + [(p, "residual") for p in sorted(glob.glob(f"{HERE}/selfval/residual/*.diff") + glob.glob(f"{HERE}/selfval/residual/*.py"))]
results = []
with cf.ThreadPoolExecutor(max_workers=jobs) as ex:
    for r in ex.map(lambda w: entry(*w), work):
        if r is not None: results.append(r)
bad = [r for r in results if not r["ok"]]
summary = {"property": prop or "all", "entries": len(results), "mismatches": len(bad), "results": results}
os.makedirs(f"{HERE}/evidence", exist_ok=True)
json.dump(summary, open(f"{HERE}/evidence/selfval-{prop or 'all'}.json", "w"), indent=1)
for r in results:
    tag = "ok  " if r["ok"] else "BAD "
    print(f"[selfval] {tag} {r['entry']}: " + " ".join(f"{k}={v}" for k, v in sorted(r["results"].items())) + (" " + r.get("error", "") if not r["ok"] else "") + (" suite_passes=%s" % r.get("suite_passes")))
print(f"[selfval] {len(results)} entries, {len(bad)} mismatch(es)")
sys.exit(1 if bad else 0)
