#!/usr/bin/env python3
"""tools/seedrefresh.py [--jobs N] : re-run all 19 checks on every kept seed (seeded/*/patch.diff applied to a scratch copy
of /repo under /tmp, removed afterwards) and refresh detected_by / reports / target_detected in its meta.json."""
import json, os, re, shutil, subprocess, sys, tempfile, glob, concurrent.futures as cf
HERE = os.path.dirname(os.path.dirname(os.path.abspath(__file__)))
jobs = 8
if "--jobs" in sys.argv: jobs = int(sys.argv[sys.argv.index("--jobs") + 1])
env = dict(os.environ, GOFLAGS="-mod=mod", GOPROXY="off", GOSUMDB="off", GOTOOLCHAIN="local", GOWORK="off")
def run(cmd, cwd, timeout=900):
    p = subprocess.run(cmd, cwd=cwd, shell=True, env=env, capture_output=True, text=True, timeout=timeout)
    return p.returncode, p.stdout + p.stderr
def one(sd):
    meta = json.load(open(f"{sd}/meta.json"))
    d = tempfile.mkdtemp(prefix="seedrefresh.", dir="/tmp")
    vd = tempfile.mkdtemp(prefix="seedrefresh.verif.", dir="/tmp")
    try:
        run("cp -r /repo/. . && rm -rf .git", d)
        rc, o = run(f"git init -q . && git apply {sd}/patch.diff && rm -rf .git", d)
        if rc != 0:
            return f"{os.path.basename(sd)}: PATCH FAILED"
        det = {}
        for i in range(1, 20):
            pid = "C%02d" % i
            rc, o = run(f"{HERE}/bin/svcheck -prop {pid} -repo {d} -verif {vd} -controls {HERE}/controls -q", HERE)
            if rc != 0:
                det[pid] = [re.sub(re.escape(d) + "/?", "", l)[:300] for l in o.splitlines() if " FAIL " in l or " UNDC " in l][:3]
        meta["detected_by"] = sorted(det)
        meta["reports"] = det
        meta["target_detected"] = meta["property"] in det
        json.dump(meta, open(f"{sd}/meta.json", "w"), indent=1)
        return f"{os.path.basename(sd)}: target_detected={meta['target_detected']} detected_by={','.join(sorted(det))}"
    finally:
        shutil.rmtree(d, ignore_errors=True); shutil.rmtree(vd, ignore_errors=True)
with cf.ThreadPoolExecutor(max_workers=jobs) as ex:
    for line in ex.map(one, sorted(glob.glob(f"{HERE}/seeded/*"))):
        print(line)
